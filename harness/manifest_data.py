"""Per-property manifest text (MANIFEST.json is generated from this by tools/gen_manifest.py)."""
HOOK_COMMITS = []
NOTES = ("All checks are generated-input search against explicit oracles (property-based testing / fuzzing). "
         "Known findings: /verif/known_findings.json. Seeded breakages: /verif/seeded/.")
NOT_APPLICABLE = {}
CHECKS = {
    "C01": {
        "text": "Thousands of generated (schema, frame) pairs per run (data first, schema derived with check arguments on/next to the observed boundaries, then repaired to conforming and re-tightened by one mutation) are validated eagerly and lazily and the accept/reject verdict is compared in both directions with an independent pure-Python reference model of the declarative vocabulary; on accept the returned object must equal the input. Exploration: no absence claim beyond the cases generated.",
        "design_ref": "DESIGN.md §2 C01, §1.3-1.4",
        "note": "Trusts harness/refmodel.py as the reading of the docs (conventions listed in DESIGN §6); regions where the docs define no semantics are skipped and counted in evidence.",
        "technique": "Hypothesis generators + independent reference model (differential, both directions)",
    },
    "C02": {
        "text": "Generated multi-violation (schema, frame) pairs: lazy raises iff eager raises, the eager error is among the lazy errors, error_counts equal the per-reason number of collected errors, and the lazy failure_cases table equals the reference model's offending (column, row label, value) multiset plus one scalar entry per frame-level violation. Exploration level.",
        "design_ref": "DESIGN.md §2 C02",
        "note": "Trusts the reference model and the documented layout of SchemaErrors.failure_cases; 5 recorded known findings are excluded by narrow predicates; report exactness is not scored for duplicated labels / overlapping regex columns / checks run on wrong-dtype data.",
        "technique": "Hypothesis generators + reference model, lazy-vs-eager differential",
    },
    "C18": {
        "text": "Exhaustive enumeration of all 108 config_context option tuples at nesting depth 1-2 with an exception at every level and of all 108 documented env settings; Hypothesis for depth 3-4 nestings, entry styles, disabled-validation identity over every entry point and (S,D) depth decomposition against the reference model. Exploration: absence is not established beyond the enumerated finite parts.",
        "design_ref": "DESIGN.md §2 C18",
        "note": "Trusts dataclasses.asdict of pandera.config._CONTEXT_CONFIG/CONFIG as the observable config state; documented env semantics from docs/source/configuration.md.",
        "technique": "exhaustive enumeration + Hypothesis, model-stack oracle and reference-model depth decomposition",
    },
}
