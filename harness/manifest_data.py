"""Per-property manifest text (MANIFEST.json is generated from this by tools/gen_manifest.py)."""
HOOK_COMMITS = []
NOTES = ("All checks are generated-input search against explicit oracles (property-based testing / fuzzing). "
         "Known findings: /verif/known_findings.json. Seeded breakages: /verif/seeded/.")
NOT_APPLICABLE = {}
CHECKS = {
    "C01": {
        "text": "Thousands of generated (schema, frame) pairs per run (data first, schema derived with check arguments on/next to the observed boundaries, then repaired to conforming and re-tightened by one mutation) are validated eagerly and lazily and the accept/reject verdict is compared in both directions with an independent pure-Python reference model of the declarative vocabulary; on accept the returned object must equal the input. Two further families: string checks whose arguments are enumerated from small grids (every None/0/1 str_length bound, empty prefixes, anchored patterns), and validate -> edit the returned object in place -> validate again, where the second verdict must equal the reference verdict on the edited table. Exploration: no absence claim beyond the cases generated. Round 3: a nested_unique family (several joint-uniqueness column sets, some naming only absent optional columns) and user-written row-wise dataframe checks made by one factory. Round 4: an int_labels family (integer column labels incl. the falsy label 0, regex columns over digits).",
        "design_ref": "DESIGN.md §2 C01, §1.3-1.4",
        "note": "Trusts harness/refmodel.py as the reading of the docs (conventions listed in DESIGN §6); regions where the docs define no semantics are skipped and counted in evidence.",
        "technique": "Hypothesis generators + independent reference model (differential, both directions)",
    },
    "C02": {
        "text": "Generated multi-violation (schema, frame) pairs: lazy raises iff eager raises, the eager error is among the lazy errors, error_counts equal the per-reason number of collected errors, and the lazy failure_cases table equals the reference model's offending (column, row label, value) multiset plus one scalar entry per frame-level violation; the same oracle on polars DataFrame / LazyFrame (full depth), and lazy-iff-eager + eager-error-among-lazy-errors under SCHEMA_ONLY and DATA_ONLY. Exploration level. Round 3: a lazy_coerce family - metamorphic: coercing a coercible Index by hand before validating does not change the lazy report (errors, cells, row labels, error_counts) of a frame that also has a failing column coercion and row-level violations. Round 4: the report oracle on frames with integer column labels (int_labels family).",
        "design_ref": "DESIGN.md §2 C02",
        "note": "Trusts the reference model and the documented layout of SchemaErrors.failure_cases; 6 recorded known findings are excluded by narrow predicates; report exactness is not scored for duplicated labels / overlapping regex columns / checks run on wrong-dtype data.",
        "technique": "Hypothesis generators + reference model, lazy-vs-eager differential",
    },

    "C03": {
        "text": "Conforming generated pairs are de-conformed in ways the parsing options repair (re-encoded cells + coerce at column/schema/index level, null + default, removed column + add_missing_columns, extra columns + strict='filter', tightened row constraint + drop_invalid_rows, a user parser - pure or writing in place, column- or frame-level - and cells it repairs), 1-3 at once; whenever validate returns, the returned object must pass the same spec with every parsing option off (checked with pandera and, independently, with the reference model on the object read back) and re-validation must return it unchanged. Exploration. Round 4: a standalone pandas Column as entry point; polars float columns arriving as text with 'NaN' spelled out, coerced and default-filled.",
        "design_ref": "DESIGN.md §2 C03",
        "note": "strip(S) is rebuilt from the JSON spec; strict='filter' is stripped to strict=True (only declared columns may remain); two drop_invalid_rows known findings excluded by narrow predicates. pandas family and a polars family (C08's shared generator + parsing options + regex-declared columns, DataFrame and LazyFrame at full depth); seven drop_invalid_rows / add_missing_columns known findings excluded by narrow predicates.",
        "technique": "Hypothesis generators + fixpoint/round-trip oracle + reference model",
    },
    "C04": {
        "text": "The same parser-option generator drives DataFrameSchema, SeriesSchema(+Index), standalone Column, Index and MultiIndex component validation (pass, eager fail, lazy fail, inplace on/off) on pandas and DataFrameSchema/Column/DataFrameModel on polars DataFrame and LazyFrame; a full value snapshot of the caller's object before the call must equal the snapshot after it and the returned container kind must equal the input kind. Exploration. Round 3: pairs whose Index(coerce=True) really converts the labels together with row-level violations (mostly lazy), and parser cases with additional unrepaired violations. Round 4: every case optionally under config_context(validation_depth=SCHEMA_ONLY / DATA_ONLY / SCHEMA_AND_DATA).",
        "design_ref": "DESIGN.md §2 C04",
        "note": "Trusts harness/fp.py:snapshot (cell-wise with NaN==NaN, dtypes, labels, index, name, attrs).",
        "technique": "Hypothesis generators + before/after snapshot invariant",
    },
    "C05": {
        "text": "Generated operation histories (validate eager/lazy, component validate, coerce, YAML/JSON/script, statistics, strategy/example, repr/eq/copy/deepcopy/pickle, every transforming method, model to_schema/subclass) are interpreted step by step against DataFrameSchema, SeriesSchema and DataFrameModel-backed schemas; after every step the structural fingerprint, equality with a snapshot, every verdict and every observation output must match those of a never-used schema of the same spec; a process-isolated family covers once-per-process registry state. Round 3: a polars_history family (validate on DataFrame / LazyFrame at every depth, standalone column validation, copies, transformations, a user config_context unwinding with an exception) with the same after-every-step invariant on polars schemas. Exploration.",
        "design_ref": "DESIGN.md §2 C05",
        "note": "Oracle is history-independence against pandera's own answer on a fresh schema; state is seen through harness.fp (object graph, functions by qualified name). One recorded known finding (Model.to_schema hands out the cached object). The rich histories are pandas-only; polars schemas get the compact polars_history family.",
        "technique": "Hypothesis-generated JSON histories interpreted stepwise (stateful invariant checking) + enumerated subprocess matrix",
    },
    "C06": {
        "text": "inputs: generated schemas x data x options (lazy, head/tail/sample, drop_invalid_rows, every parsing option, standalone Column entry, non-dataframe arguments; a second family on polars DataFrame / LazyFrame at both depths) must end in ok / SchemaError (eager) / SchemaErrors (lazy) / a documented usage error, with schema fingerprint, config and caller data unchanged. faults: every user callback (vectorised/element-wise/groupby check fns at column, index and frame level, parser fns, a custom registered dtype's check/coerce) is a counting wrapper; for EVERY invocation index k of the clean run, eager and lazy, an exception (harness-private, KeyError, ZeroDivisionError, AttributeError, or a user-built pandera SchemaError without reason code) is injected at k and the outcome must stay in the documented channel (a raising check must be reported as CHECK_ERROR) and state must equal the state before. Fault enumeration is exhaustive per generated schema; schemas are sampled. Round 4: standalone regex Column entries on unrepaired pairs; defaults on declared-but-absent columns.",
        "design_ref": "DESIGN.md §2 C06",
        "note": "For parser/groupby/dtype callbacks the injected exception itself (or a later user-callback exception caused by it) propagating is accepted; seven recorded known findings (drop_invalid_rows family, add_missing coercion, MultiIndex coerce, duplicated labels, user-built SchemaError from parsers) are excluded by (exception type, function, trigger) predicates.",
        "technique": "Hypothesis generators + every-k fault injection through user callbacks, state-before == state-after invariant",
        "category": "fault_enumeration",
    },
    "C07": {
        "text": "For 2-3 concurrent pandas/polars validate calls (shared or distinct schemas, cold DataFrameModel, user config_context) every call must return or raise exactly what it does alone, and config plus every schema fingerprint must be unchanged afterwards, under every single-preemption interleaving of each listed workload (exhaustive for that layer at pandera call/return granularity), a two-preemption grid, Hypothesis-generated multi-segment schedules, an overlap family (two-preemption schedules that park both threads inside the same pandera function, at call/return granularity and at source-line granularity for short functions), and a cold-process family (one freshly started interpreter per schedule: the scheduled calls are the first validations of the process, so backend registration and lazy imports are inside the explored window). The harness owns the schedule (sys.settrace parked threads). Round 3: a MultiIndex component as shared entry point (repeated level names in the data), a model whose compilation raises next to a cold healthy model, and two state invariants: no pandera module/class-level lock is held once a call has finished (a stalled thread blocked on such a lock is a deadlock violation decided from the lock state), and the interpreter-wide warnings filters are as before. Round 4: a SeriesSchema with a coercing Index shared by two calls; pandas and polars validations dispatching the same built-in checks, each mixed-backend schedule preceded by a validation of the other backend (defined start state of process-wide memo tables).",
        "design_ref": "DESIGN.md §2 C07",
        "note": "One thread runs at a time; the cold family covers single preemptions of two fixed workloads; preemption only at pandera call boundaries (not bytecodes); pandas/polars internals and the polars Rust pool are sequentialised; GIL builds only. Watchdog-stopped executions are inconclusive. One recorded known finding (module-global config context).",
        "technique": "deterministic schedule enumeration + Hypothesis schedules, differential against the solo run",
    },
    "C08": {
        "text": "A backend-neutral schema spec (int/float/str/bool/datetime, nullable, unique, required, strict, ordered, joint unique, every built-in check incl. generated regular expressions, coerce/default/add_missing_columns) and one table are rendered to pandas and polars; verdicts (eager and lazy), failing cells (column, row position, value) and parsed outputs must agree, and both verdicts must agree with the reference model when no parsing option is on. Exploration.",
        "design_ref": "DESIGN.md §2 C08",
        "note": "Frames are built with explicit dtypes on both sides, None for null; regions documented as unsupported on polars are excluded and listed in ASSUMPTIONS; five recorded known findings (add_missing_columns behaviour, unique_values_eq with nulls, pandas null duplicates) excluded by narrow predicates.",
        "technique": "Hypothesis generators + differential pandas vs polars + reference model",
    },
    "C09": {
        "text": "For the numpy, pandas (incl. pyarrow), polars and pyspark engines every key of the live equivalents tables, every registered and abstract dtype class/instance, documented spellings and all ordered pairs of them (about 3.9e5) are enumerated exhaustively, plus thousands of generated parameterisations and string aliases: resolution to a DataType, idempotence, agreement of the boxed native dtype with what the spelling denotes natively, self-recognition in check, Engine.dtype(str(t)) == t for primitive types; pairs: symmetric ==, equal hashes, no false equivalence, check never crossing kind/signedness/width. Round 3: an ambient family (fresh interpreter per case) resolves every spelling before and after an ambient change (decimal context rounding/precision, registration of user sub-classes of every registered data type) with an unchanged-run control: same class, equal, equally hashed, same equivalences.",
        "design_ref": "DESIGN.md §2 C09",
        "note": "Trusted base is native introspection (numpy dtype.kind/itemsize, pandas extension dtypes, pyarrow.types predicates, polars base_type, Spark typeName). Units of numpy datetimes and byte order not compared. Ten recorded known findings.",
        "technique": "exhaustive registry/pair enumeration + Hypothesis parameter and string generation against native-library introspection oracles",
    },
    "C10": {
        "text": "For 40 pandas-engine and 31 polars-engine dtype instances Hypothesis draws Series/Index/column containers mixing exactly convertible, unconvertible, null and lossy elements. On success the result must keep length, labels and name, pass the dtype's own check, equal the inputs where conversion is exact, keep nulls and be idempotent; on failure the error must be a ParserError/DATATYPE_COERCION whose failure cases are exactly the unconvertible elements. Exploration. Round 3: DateTime(to_datetime_kwargs={'format': ...}) as a target with its own classifier (after plain datetime targets were resolved in the same process); polars schema route under validation_depth DATA_ONLY / SCHEMA_AND_DATA. Round 4: a regex Column coercing twin columns (container regex_column); categorical input with an unused category for categorical targets.",
        "design_ref": "DESIGN.md §2 C10",
        "note": "Trusts the harness's own element classifier (exact/fail only for documented numpy/pandas/polars conversions) and coerce_value / singleton strict casts for lossy elements; null kinds compared as one value. Eight recorded known findings.",
        "technique": "Hypothesis generators per dtype, own element classifier as oracle, idempotence round trip",
    },
    "C11": {
        "text": "Conforming generated pairs re-tightened by 1-3 row-level constraints (nullable, unique with each report_duplicates, column/index/row-wise frame checks, joint uniqueness) with drop_invalid_rows=True on DataFrameSchema, SeriesSchema and standalone Column over unique indexes of every kind (pandas) and on polars DataFrame / LazyFrame: the result must hold exactly the rows (by position) on which the reference model finds no row-level violation, in order, with unchanged values; a non row-attributable violation must still raise. Exploration. Round 4: row labels of other kinds (tz-aware/naive datetimes, timedeltas, categorical, float, str, date objects, periods) and no-op parsers on the checked columns.",
        "design_ref": "DESIGN.md §2 C11",
        "note": "Unique index only (documented restriction); aggregate checks (unique_values_eq) skipped; four recorded known findings (index positions, non-tabular failure cases, null duplicates, SeriesSchema index).",
        "technique": "Hypothesis generators + reference model (set of bad rows)",
    },
    "C12": {
        "text": "Schemas built from every serialisable part are written to YAML, JSON and a Python script and read back: the result must be structurally identical to a fresh build (object-graph fingerprint and pandera ==), re-serialise to the same text and give identical lazy verdicts on probe frames. One minimal schema per slot value combination is enumerated completely; the rest is Hypothesis-generated. Round 4: temporal check values on dtype-less columns and dataframe-level checks, temporal schema-wide dtypes.",
        "design_ref": "DESIGN.md §2 C12",
        "note": "Reference = a fresh schema built from the same spec by pandera's constructors; attributes without a slot in the format are outside the claim; four recorded known findings (duplicate check names, datetime statistics, inf).",
        "technique": "enumeration of slots + Hypothesis round-trip / fixpoint / differential-verdict",
    },
    "C13": {
        "text": "Hypothesis generates schema specs (22 dtypes, check chains of built-in/custom/registered checks, nullable/unique, sizes, Series/Column/Index/MultiIndex/DataFrame with regex columns, index schemas, joint unique, frame-level checks) and takes seeded draws from schema.strategy(size=n); every returned draw must be of the documented container type and pass the same schema's validate; a strategy crash on a schema an independent model shows satisfiable is a violation; a fresh-interpreter family exposes state-dependent strategies. Round 3: a whole-series custom check without strategy whose outcome depends on the nulls (at least k non-null values) on nullable fields.",
        "design_ref": "DESIGN.md §2 C13",
        "note": "pandera's own validate is the acceptance oracle; draws go through Hypothesis ConjectureData with a fixed-constants provider; filter exhaustion is 'incomplete', never scored. Five recorded known findings.",
        "technique": "Hypothesis-generated schemas + seeded strategy draws + self-validation oracle + independent satisfiability model",
    },
    "C14": {
        "text": "For generated pandas frames and Series over every numeric width, bool, str/object, categorical, tz-naive/aware datetime, timedelta and nullable extension dtypes (nulls, empty/all-null columns, dtype limits, +-2**53+-1, inf, Index/MultiIndex): infer_schema must not raise, must accept the object and return identical values, every inferred bound must equal the data's min/max exactly, and the schema must survive YAML/JSON with the same verdict. The kind x cell-pattern x container grid is enumerated exhaustively; frames and series are Hypothesis-generated.",
        "design_ref": "DESIGN.md §2 C14",
        "note": "Trusts pandas constructors and Python-level min/max over JSON cells; five recorded known findings (complex bounds, big object ints, tz/sub-second datetime bounds, object MultiIndex level with null).",
        "technique": "Hypothesis generators + exhaustive grid against a round-trip and exact-statistics oracle",
    },
    "C15": {
        "text": "Generated transformation programs (1-5 requests from add/remove/select/rename/update_column(s)/set_index/reset_index, valid and invalid, with inverse pairs) run on pandas and polars schemas whose components carry every attribute; after each request pandera's result must equal, attribute by attribute and by fingerprint, the schema built from an independently written expected spec, accept the frame transformed by the paired dataframe operation, keep rejecting a frame violating one surviving constraint, and leave the receiver unchanged; invalid requests must raise SchemaInitError/ValueError. Round 3: the arguments passed to update_columns / set_index / reset_index must be unchanged after the call.",
        "design_ref": "DESIGN.md §2 C15",
        "note": "Expected-effect model written from the method docstrings; verdicts from pandera's validate on a deep copy; four recorded known findings (set/reset_index attribute loss and MultiIndex bookkeeping).",
        "technique": "Hypothesis program generation + constructor-built expected schema (differential) + paired frame operation (metamorphic)",
    },
    "C16": {
        "text": "Generated model class hierarchies (chains, siblings, mixins, diamonds; field/Field/annotation/method overrides; aliases, regex, Optional, Config options, @check/@dataframe_check/@parser, compile order) are exec'd; every class's to_schema() is compared structurally with an object-API schema computed from the spec by ordinary class semantics, again after all relatives are compiled; validate outcomes, outputs and lazy failure cases are compared on three tables, on pandas and polars. Round 4: child Config classes setting an inherited option back to None.",
        "design_ref": "DESIGN.md §2 C16",
        "note": "Differential oracle trusting the object-API constructors and validate; check order within a component not compared. All seven defects found were repaired in /repo (see known_findings.json 'fixed').",
        "technique": "Hypothesis program generation, differential against the object API with a spec-side class-semantics resolver",
    },
    "C17": {
        "text": "For generated function signatures (plain/method/classmethod/staticmethod, sync/async, defaults, *args, keyword-only, **kwargs), decorators (check_input/check_output/check_io/check_types with every getter form), call shapes and validation options, the decorated function is run against an independent reference (inspect.signature.bind + schema.validate per designated slot + the undecorated function): whether the body ran, what it saw at every parameter, the result or exception class, the caller's objects afterwards; a compact polars twin (DataFrame / LazyFrame, pandera.typing.polars annotations). Round 3: one decorator object applied to two callables of different kinds and called in turn (shared family); a sample_state family (only sample= and random_state=, longer frames with one bad row) with numpy's global generator moved to a case-derived state during the decorated call. Round 4: a varargs family (integer getter into *frames) and UserDict / deque output containers.",
        "design_ref": "DESIGN.md §2 C17",
        "note": "Trusts schema.validate for the data verdict and inspect.signature.bind for binding; one recorded known finding (Union + lazy).",
        "technique": "Hypothesis-generated programs (source exec'd) + differential reference binding oracle",
    },
    "C19": {
        "text": "Hypothesis-generated data (nulls, empty data, default/unique/duplicated labels), predicates from a total family in scalar and vectorised form, and option values; each case runs 4-9 option variants of the same check (element_wise vs vectorised vs s.map, ignore_na, n_failure_cases, raise_warning, groupby str/list/callable with groups, the seven aliases vs canonical constructors; ignore_na=True on pd.NA-holding extension dtypes); verdict, failure cases and what the function was shown are compared with a pure-Python reference through Check(...)(data) and schema.validate, on pandas and the polars subset.",
        "design_ref": "DESIGN.md §2 C19",
        "note": "ignore_na semantics from the Check docstring and docs/source/checks.md; n_failure_cases: truncation only; five recorded known findings (frame/groupby ignore_na, parser+groupby, duplicate-index reshape, polars ignore_na=True on null-false expressions).",
        "technique": "Hypothesis metamorphic option variants + pure-Python reference model",
    },
    "C20": {
        "text": "Generated (schema, frame) pairs with non-unique / non-default index labels x head/tail/sample/random_state (incl. 0, overlapping, aimed just inside/outside a violating row): the verdict must equal the reference verdict with row-attributable constraints evaluated on the independently computed selected positions and frame-level constraints on the whole table; the call returns all of D; same random_state => same outcome and report; head=len(D) == no option; DataFrameSchema / SeriesSchema / standalone Column on pandas, head/tail on polars DataFrame / LazyFrame. Exploration. Round 3: a parsing family - metamorphic: whenever validate(D) and validate(D, head/tail/sample) both return, they return the same parsed object (coercion, defaults, added/filtered columns, custom parsers apply to the whole of D).",
        "design_ref": "DESIGN.md §2 C20",
        "note": "Sample positions obtained by sampling a row-id frame with the same random_state (pandas determinism); one recorded known finding (pandas de-duplicates selected rows by label).",
        "technique": "Hypothesis generators + reference model on independently computed row selection (metamorphic)",
    },
    "C18": {
        "text": "Exhaustive enumeration of all 108 config_context option tuples at nesting depth 1-2 with an exception at every level and of all 108 documented env settings; Hypothesis for depth 3-4 nestings, entry styles, disabled-validation identity over every entry point and (S,D) depth decomposition against the reference model. Exploration: absence is not established beyond the enumerated finite parts. Round 3: env_e2e also validates inside config_context(validation_depth=D) on top of every environment setting (context wins over environment, state restored). Round 4: the polars default-depth family also through standalone Column and DataFrameModel entries.",
        "design_ref": "DESIGN.md §2 C18",
        "note": "Trusts dataclasses.asdict of pandera.config._CONTEXT_CONFIG/CONFIG as the observable config state; documented env semantics from docs/source/configuration.md.",
        "technique": "exhaustive enumeration + Hypothesis, model-stack oracle and reference-model depth decomposition",
    },
}
