"""Per-property manifest text (MANIFEST.json is generated from this by tools/gen_manifest.py)."""
HOOK_COMMITS = []
NOTES = ("All checks are generated-input search against explicit oracles (property-based testing / fuzzing). "
         "Known findings: /verif/known_findings.json. Seeded breakages: /verif/seeded/.")
NOT_APPLICABLE = {}
CHECKS = {
    "C18": {
        "text": "Exhaustive enumeration of all 108 config_context option tuples at nesting depth 1-2 with an exception at every level and of all 108 documented env settings; Hypothesis for depth 3-4 nestings, entry styles, disabled-validation identity over every entry point and (S,D) depth decomposition against the reference model. Exploration: absence is not established beyond the enumerated finite parts.",
        "design_ref": "DESIGN.md §2 C18",
        "note": "Trusts dataclasses.asdict of pandera.config._CONTEXT_CONFIG/CONFIG as the observable config state; documented env semantics from docs/source/configuration.md.",
        "technique": "exhaustive enumeration + Hypothesis, model-stack oracle and reference-model depth decomposition",
    },
}
