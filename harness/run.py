"""CLI: python -m harness.run <ID> [--tier quick|thorough] [--replay <path>]

exit 0: property held on everything explored (KNOWN-FINDING lines may be printed)
exit 1: "VIOLATION property=<id> replay=<path>" for a violation not in known_findings.json
exit 2: harness error (never a violation)
"""
from __future__ import annotations

import argparse
import glob
import json
import os
import sys
import time
import traceback
import warnings
from collections import Counter

from . import core, known
from .core import HarnessError

warnings.filterwarnings("ignore")


def _default_budget(tier):
    env = os.environ.get("VERIF_BUDGET_S")
    if env:
        return float(env)
    return 600.0 if tier == "quick" else 4 * 3600.0


def run_replay_file(mod, path, verbose=True):
    """Re-run the property body on a saved case, no Hypothesis involved.
    Returns list of (known_id|None, Disc)."""
    with open(path) as f:
        rec = json.load(f)
    fam = next((f for f in mod.FAMILIES if f.name == rec.get("family")), None)
    if fam is None:
        raise HarnessError(f"replay {path}: unknown family {rec.get('family')!r}")
    if fam.setup:
        fam.setup()
    ev = fam.evaluate(rec["case"])
    out = []
    for d in ev.discs:
        out.append((known.match(mod.PROPERTY, fam.name, rec["case"], d), d))
    return rec, ev, out


def shrink_bucket(mod, bucket, budget_s=45.0):
    """Re-find the bucket with Hypothesis (same seed/strategy) and let it shrink, with a
    wall-clock cap; keeps the smallest failing case seen.  Falls back to the recorded case."""
    fam = next(f for f in mod.FAMILIES if f.name == bucket["family"])
    best = {"case": bucket["case"], "detail": bucket["detail"], "size": bucket["size"]}
    if fam.strategy is None:
        return best
    try:
        import hypothesis
        from hypothesis import HealthCheck, Phase, given, settings

        t0 = time.time()

        class _Hit(Exception):
            pass

        @hypothesis.seed(bucket["seed"])
        @settings(
            max_examples=max(fam.n_quick, fam.n_thorough) + 10,
            phases=[Phase.generate, Phase.shrink],
            database=None, deadline=None, report_multiple_bugs=False,
            suppress_health_check=list(HealthCheck),
        )
        @given(fam.strategy())
        def body(case):
            if time.time() - t0 > budget_s:
                return
            try:
                ev = fam.evaluate(case)
            except Exception:
                return
            for d in ev.discs:
                if d.kind == bucket["kind"] and known.match(mod.PROPERTY, fam.name, case, d) is None:
                    size = len(core.canon(case))
                    if size <= best["size"]:
                        best.update(case=core.jsonable(case), detail=core.jsonable(d.detail), size=size)
                    raise _Hit()

        try:
            body()
        except BaseException:
            pass
    except Exception:
        pass
    return best


def main(argv=None):
    ap = argparse.ArgumentParser()
    ap.add_argument("pid")
    ap.add_argument("--tier", default=os.environ.get("VERIF_TIER") or "quick", choices=["quick", "thorough"])
    ap.add_argument("--replay")
    ap.add_argument("--family", help="run only this family (debugging)")
    ap.add_argument("--no-shrink", action="store_true")
    a = ap.parse_args(argv)
    pid = a.pid.upper()
    try:
        seed = int(os.environ.get("VERIF_SEED", "1") or "1")
    except ValueError:
        seed = 1
    t0 = time.time()
    try:
        mod = core.load_module(pid)
        if hasattr(mod, "selftest"):
            mod.selftest()
    except Exception:
        print(f"HARNESS-ERROR property={pid}\n{traceback.format_exc()}", file=sys.stderr)
        return 2

    # ------------------------------------------------------------ replay mode
    if a.replay:
        try:
            rec, ev, res = run_replay_file(mod, a.replay)
        except Exception:
            print(f"HARNESS-ERROR property={pid}\n{traceback.format_exc()}", file=sys.stderr)
            return 2
        rc = 0
        for kid, d in res:
            if kid:
                print(f"KNOWN-FINDING: property={pid} {kid}: {d.kind}")
            else:
                print(f"VIOLATION property={pid} replay={a.replay}")
                print(f"  kind={d.kind} detail={json.dumps(core.jsonable(d.detail))[:1500]}")
                rc = 1
        if not res:
            print(f"replay {a.replay}: no discrepancy (labels={ev.labels})")
        return rc

    violations = []  # dicts: kind, path, detail
    known_lines = []
    notes = []

    # -------------------------------------------------- saved replays first
    kn = core.load_known()
    replay_stats = {"run": 0, "pass": 0, "known": 0}
    for path in sorted(glob.glob(os.path.join(core.REPLAY_DIR, pid, "*.json"))):
        try:
            rec, ev, res = run_replay_file(mod, path)
        except Exception:
            print(f"HARNESS-ERROR property={pid} replay={path}\n{traceback.format_exc()}", file=sys.stderr)
            return 2
        replay_stats["run"] += 1
        new = [(k, d) for k, d in res if k is None]
        if new:
            violations.append({"kind": new[0][1].kind, "path": path, "detail": core.jsonable(new[0][1].detail),
                               "family": rec.get("family"), "count": 1})
        elif res:
            replay_stats["known"] += 1
        else:
            replay_stats["pass"] += 1

    # ------------------------------------------------------- generated search
    fams = [f for f in mod.FAMILIES if not a.family or f.name == a.family]
    tasks = []
    budget = _default_budget(a.tier)
    for f in fams:
        ns = f.shards(a.tier)
        for s in range(ns):
            tasks.append((pid, f.name, a.tier, seed, s, ns, budget))
    results = []
    nproc = min(len(tasks), int(os.environ.get("VERIF_PROCS", "16")))
    if nproc <= 1 or os.environ.get("VERIF_INPROC"):
        results = [core.shard_worker(t) for t in tasks]
    else:
        import multiprocessing as mp

        ctx = mp.get_context("spawn")
        with ctx.Pool(nproc, maxtasksperchild=1) as pool:
            results = pool.map(core.shard_worker, tasks, chunksize=1)

    fatal = [r["fatal"] for r in results if "fatal" in r]
    if fatal:
        print(f"HARNESS-ERROR property={pid}\n{fatal[0]}", file=sys.stderr)
        return 2

    evaluations = 0
    executions = 0
    nontrivial = set()
    labels = Counter()
    skipped = Counter()
    samples, label_samples = [], {}
    buckets = {}
    harness_errors = []
    budget_exhausted = False
    per_family = {}
    for t, r in zip(tasks, results):
        fam_name = t[1]
        pf = per_family.setdefault(fam_name, {"evaluations": 0, "nontrivial": set()})
        pf["evaluations"] += r["evaluations"]
        pf["nontrivial"].update(r["nontrivial"])
        evaluations += r["evaluations"]
        executions += r.get("executions", 0)
        nontrivial.update((fam_name, h) for h in r["nontrivial"])
        labels.update(r["labels"])
        skipped.update(r["skipped"])
        for s in r["samples"]:
            if sum(1 for x in samples if x["family"] == fam_name) < 2:
                samples.append(s)
        for k, v in r["label_samples"].items():
            label_samples.setdefault(k, v)
        harness_errors += r["harness_errors"]
        budget_exhausted |= r["budget_exhausted"]
        for b in r["buckets"]:
            key = (b["known"], b["kind"])
            if key not in buckets:
                buckets[key] = b
            else:
                o = buckets[key]
                o["count"] += b["count"]
                if b["size"] < o["size"]:
                    cnt = o["count"]
                    o.update(b)
                    o["count"] = cnt

    if harness_errors:
        print(f"HARNESS-ERROR property={pid} ({len(harness_errors)} evaluate() crashes)\n"
              f"{json.dumps(harness_errors[0]['case'])[:2000]}\n{harness_errors[0]['traceback']}", file=sys.stderr)
        return 2

    # generator health: classes that must be produced
    for f in fams:
        for lab in f.required_labels:
            if labels.get(lab, 0) == 0 and per_family.get(f.name, {}).get("evaluations", 0) >= 100:
                print(f"HARNESS-ERROR property={pid}: generator of family {f.name} never produced class {lab!r}",
                      file=sys.stderr)
                return 2

    # ------------------------------------------------------- known findings
    known_hits = Counter()
    for (kid, kind), b in buckets.items():
        if kid:
            known_hits[kid] += b["count"]
    for k in kn.get("known", []):
        if k["property"] != pid:
            continue
        reproduced = known_hits.get(k["id"], 0)
        wit = k.get("witness")
        if wit:
            wpath = os.path.join(core.ROOT, wit)
            try:
                rec, ev, res = run_replay_file(mod, wpath)
                if any(kid == k["id"] for kid, _ in res):
                    reproduced += 1
            except Exception:
                print(f"HARNESS-ERROR property={pid} witness={wit}\n{traceback.format_exc()}", file=sys.stderr)
                return 2
        if reproduced:
            line = f"KNOWN-FINDING: property={pid} {k['id']}: {k['what']}"
            known_lines.append(line)
        else:
            notes.append(f"known finding {k['id']} did not reproduce in this run")

    # ---------------------------------------------------------- new buckets
    os.makedirs(os.path.join(core.OUT_DIR, pid), exist_ok=True)
    nshrunk = 0
    for (kid, kind), b in sorted(buckets.items(), key=lambda kv: str(kv[0])):
        if kid:
            continue
        best = {"case": b["case"], "detail": b["detail"]}
        if not a.no_shrink and nshrunk < 4:
            nshrunk += 1
            best = shrink_bucket(mod, b, budget_s=30.0 if a.tier == "quick" else 120.0)
        path = os.path.join(core.OUT_DIR, pid, f"violation_{core.slug(b['family'])}_{core.slug(kind)}.json")
        with open(path, "w") as f:
            json.dump({"property": pid, "family": b["family"], "kind": kind, "seed": b["seed"],
                       "case": best["case"], "detail": best["detail"], "count": b["count"]}, f, indent=1)
        violations.append({"kind": kind, "path": path, "detail": best["detail"], "family": b["family"],
                           "count": b["count"]})

    # --------------------------------------------------------------- evidence
    wall = time.time() - t0
    level = getattr(mod, "LEVEL", "exploration")
    cov = {
        "evaluations": evaluations,
        "executions_of_code_under_test": executions,
        "distinct_nontrivial": len(nontrivial),
        "rule": getattr(mod, "RULE", ""),
        "samples": samples[:8] or [{"note": "no sample recorded"}],
        "classes": dict(sorted(labels.items())),
        "class_samples": {k: label_samples[k] for k in sorted(label_samples)[:6]},
        "families": {k: {"evaluations": v["evaluations"], "distinct_nontrivial": len(v["nontrivial"])}
                     for k, v in per_family.items()},
        "skipped_outside_domain": dict(skipped),
        "known_excluded": dict(known_hits),
        "saved_replays": replay_stats,
        "budget_exhausted": budget_exhausted,
        "new_buckets": [{"kind": v["kind"], "family": v["family"], "count": v["count"]} for v in violations],
        "notes": notes,
    }
    if all(f.exhaustive for f in fams) and fams:
        cov["exhaustive"] = True
    exh = [f.name for f in fams if f.exhaustive]
    if exh:
        cov["exhaustive_families"] = exh
    extra = getattr(mod, "evidence_extra", None)
    if extra:
        cov.update(extra())
    ev = {
        "property_id": pid, "tier": a.tier, "seed": seed, "level": level, "coverage": cov,
        "assumptions": list(getattr(mod, "ASSUMPTIONS", [])),
        "wall_s": round(wall, 2), "violations": len(violations),
    }
    try:
        core.write_evidence(pid, ev)
    except Exception:
        print(f"HARNESS-ERROR property={pid} evidence invalid\n{traceback.format_exc()}", file=sys.stderr)
        return 2

    for line in known_lines:
        print(line)
    for n in notes:
        print("NOTE:", n)
    print(f"{pid} tier={a.tier} seed={seed} evaluations={evaluations} distinct_nontrivial={len(nontrivial)} "
          f"known_excluded={sum(known_hits.values())} violations={len(violations)} wall={wall:.1f}s")
    if violations:
        for v in violations:
            print(f"VIOLATION property={pid} replay={v['path']}")
            print(f"  family={v['family']} kind={v['kind']} count={v['count']} "
                  f"detail={json.dumps(v['detail'])[:1200]}")
        return 1
    return 0


if __name__ == "__main__":
    sys.exit(main())
