"""SchemaSpec / TableSpec: backend-neutral JSON descriptions and their builders.

This is the only place that calls pandera / pandas / polars constructors for the
reference-model family of checks (C01, C02, C03, C04, C06a, C08, C11, C18-depth, C20).

TableSpec
    {"columns": [{"name": str, "phys": <physical dtype tag>, "cells": [...]}, ...],
     "index": null | {"name": str|null, "phys": tag, "cells": [...]}
                   | {"multi": [{"name":..., "phys":..., "cells": [...]}, ...]}}
  cells are JSON scalars; null is None for every physical type (NaN for floats, NaT for
  datetimes, pd.NA for extension types, None in object columns); datetimes are integer day
  offsets from 2020-01-01 (exact), tagged by the column's phys.

SchemaSpec (dataframe)
    {"columns": [ColSpec...], "index": null | IndexSpec | {"multi": [IndexSpec...], "strict":..,"ordered":..},
     "strict": false|true|"filter", "ordered": bool, "unique": null|[names], "report_duplicates": ...,
     "unique_column_names": bool, "checks": [CheckSpec], "coerce": bool, "add_missing_columns": bool,
     "drop_invalid_rows": bool, "dtype": tag|null}
  ColSpec  {"name","dtype","nullable","unique","report_duplicates","required","regex","checks","coerce","default"}
  IndexSpec{"name","dtype","nullable","unique","checks","coerce"}
  CheckSpec{"kind": builtin name, "args": {...}, "ignore_na": bool}
"""
from __future__ import annotations

import datetime as _dt

PHYS = ["int64", "int32", "float64", "float32", "bool", "object", "datetime64[ns]", "Int64", "string"]
SCHEMA_DTYPES = ["int64", "int32", "float64", "float32", "bool", "str", "object", "datetime64[ns]", "Int64", "string"]

EPOCH = _dt.datetime(2020, 1, 1)


def day(k):
    return EPOCH + _dt.timedelta(days=int(k))


# ----------------------------------------------------------------------- pandas data


def pd_values(phys, cells):
    """list of python cells -> pandas array-like of the physical dtype."""
    import numpy as np
    import pandas as pd

    if phys in ("int64", "int32"):
        return np.array([int(c) for c in cells], dtype=phys)
    if phys in ("float64", "float32"):
        return np.array([np.nan if c is None else float(c) for c in cells], dtype=phys)
    if phys == "bool":
        return np.array([bool(c) for c in cells], dtype=bool)
    if phys == "object":
        arr = np.empty(len(cells), dtype=object)
        for i, c in enumerate(cells):
            arr[i] = c
        return arr
    if phys == "datetime64[ns]":
        return pd.to_datetime(pd.Series([pd.NaT if c is None else day(c) for c in cells], dtype="datetime64[ns]")).to_numpy()
    if phys == "Int64":
        return pd.array([pd.NA if c is None else int(c) for c in cells], dtype="Int64")
    if phys == "string":
        return pd.array([pd.NA if c is None else str(c) for c in cells], dtype="string")
    raise ValueError(phys)


def pd_index(ix, n):
    import pandas as pd

    if ix is None:
        return pd.RangeIndex(n)
    if "multi" in ix:
        arrays = [pd.Index(pd_values(l["phys"], l["cells"]), name=l.get("name")) for l in ix["multi"]]
        return pd.MultiIndex.from_arrays(arrays, names=[l.get("name") for l in ix["multi"]])
    return pd.Index(pd_values(ix["phys"], ix["cells"]), name=ix.get("name"))


def table_nrows(table):
    if table["columns"]:
        return len(table["columns"][0]["cells"])
    ix = table.get("index")
    if ix is None:
        return table.get("nrows", 0)
    if "multi" in ix:
        return len(ix["multi"][0]["cells"])
    return len(ix["cells"])


def _lab(name, int_labels):
    """column label as built: with int_labels a name made of digits stands for the integer label (the JSON case and
    the reference model keep the string)"""
    if int_labels and isinstance(name, str) and name.isdigit():
        return int(name)
    return name


def pandas_frame(table):
    import pandas as pd

    n = table_nrows(table)
    index = pd_index(table.get("index"), n)
    series = [pd.Series(pd_values(c["phys"], c["cells"]), index=index, name=c["name"]) for c in table["columns"]]
    if not series:
        return pd.DataFrame(index=index)
    df = pd.concat(series, axis=1)
    df.columns = [_lab(c["name"], table.get("int_labels")) for c in table["columns"]]
    return df


def pandas_series(table, col=0):
    import pandas as pd

    n = table_nrows(table)
    c = table["columns"][col]
    return pd.Series(pd_values(c["phys"], c["cells"]), index=pd_index(table.get("index"), n), name=c["name"])


# --------------------------------------------------------------------- pandas schema

_PD_DTYPE = {
    "int64": "int64", "int32": "int32", "float64": "float64", "float32": "float32", "bool": "bool",
    "str": str, "object": object, "datetime64[ns]": "datetime64[ns]", "Int64": "Int64", "string": "string",
}


def _arg(v, dtype):
    """check argument in the column's value space (datetimes are day offsets)."""
    if dtype == "datetime64[ns]" and isinstance(v, int) and not isinstance(v, bool):
        import pandas as pd

        return pd.Timestamp(day(v))
    return v


def build_check(cs, dtype=None):
    import pandera as pa

    k, a = cs["kind"], dict(cs.get("args", {}))
    kw = {}
    if "ignore_na" in cs:
        kw["ignore_na"] = cs["ignore_na"]
    if cs.get("n_failure_cases") is not None:
        kw["n_failure_cases"] = cs["n_failure_cases"]
    if cs.get("raise_warning"):
        kw["raise_warning"] = True
    C = pa.Check
    if k in ("equal_to", "not_equal_to"):
        return getattr(C, k)(_arg(a["value"], dtype), **kw)
    if k in ("greater_than", "greater_than_or_equal_to"):
        return getattr(C, k)(_arg(a["min_value"], dtype), **kw)
    if k in ("less_than", "less_than_or_equal_to"):
        return getattr(C, k)(_arg(a["max_value"], dtype), **kw)
    if k == "in_range":
        return C.in_range(_arg(a["min_value"], dtype), _arg(a["max_value"], dtype),
                          include_min=a.get("include_min", True), include_max=a.get("include_max", True), **kw)
    if k == "isin":
        return C.isin([_arg(v, dtype) for v in a["allowed_values"]], **kw)
    if k == "notin":
        return C.notin([_arg(v, dtype) for v in a["forbidden_values"]], **kw)
    if k in ("str_matches", "str_contains"):
        if a.get("flags") is not None:
            import re

            fl = 0
            for f in a["flags"]:
                fl |= getattr(re, f)
            return getattr(C, k)(re.compile(a["pattern"], fl), **kw)
        return getattr(C, k)(a["pattern"], **kw)
    if k in ("str_startswith", "str_endswith"):
        return getattr(C, k)(a["string"], **kw)
    if k == "str_length":
        return C.str_length(a.get("min_value"), a.get("max_value"), **kw)
    if k == "unique_values_eq":
        return C.unique_values_eq([_arg(v, dtype) for v in a["values"]], **kw)
    if k == "col_ge":
        # a user-written row-wise dataframe check; several of them share one code object and differ in their closure
        return C(_col_ge(a["column"], a["min_value"]), **kw)
    raise ValueError(k)


def _col_ge(column, min_value):
    def col_ge(df):
        if type(df).__module__.startswith("pandera.api.polars"):
            import polars as pl

            return df.lazyframe.select(pl.col(column).ge(min_value))
        return df[column] >= min_value

    return col_ge


def _default(col):
    d = col.get("default")
    return _arg(d, col.get("dtype")) if d is not None else None


# custom parsers (user callbacks) from a small total family; "inplace" variants write into the object they are
# handed and return it - what many user parsers do - so a working copy that shares memory with the caller's data shows
def _parser_fn(kind, colname=None):
    def abs_pure(s):
        return s.abs()

    def abs_inplace(s):
        s.iloc[:] = s.abs().to_numpy()
        return s

    def frame_abs_pure(df):
        return df.assign(**{colname: df[colname].abs()})

    def frame_abs_inplace(df):
        df.loc[:, colname] = df[colname].abs().to_numpy()
        return df

    def frame_drop(df):  # a dataframe-level parser may change the set of columns
        return df.drop(columns=[colname]) if colname in df.columns else df

    def frame_rename(df):
        return df.rename(columns={colname: str(colname) + "_renamed"})

    def frame_add(df):
        return df.assign(**{str(colname) + "_added": 1})

    return {"abs": abs_pure, "abs_inplace": abs_inplace, "frame_abs": frame_abs_pure,
            "frame_abs_inplace": frame_abs_inplace, "frame_drop": frame_drop, "frame_rename": frame_rename,
            "frame_add": frame_add}[kind]


def build_parsers(ps):
    import pandera as pa

    return [pa.Parser(_parser_fn(p["kind"], p.get("column"))) for p in (ps or [])]


def pandas_column(col, with_name=False):
    import pandera as pa

    kw = dict(
        dtype=_PD_DTYPE[col["dtype"]] if col.get("dtype") else None,
        checks=[build_check(c, col.get("dtype")) for c in col.get("checks", [])],
        nullable=col.get("nullable", False), unique=col.get("unique", False),
        report_duplicates=col.get("report_duplicates", "all"), coerce=col.get("coerce", False),
        required=col.get("required", True), regex=col.get("regex", False), default=_default(col),
    )
    if col.get("drop_invalid_rows"):
        kw["drop_invalid_rows"] = True
    if col.get("parsers"):
        kw["parsers"] = build_parsers(col["parsers"])
    if with_name:
        kw["name"] = col["name"]
    return pa.Column(**kw)


def pandas_index_component(ix):
    import pandera as pa

    if ix is None:
        return None
    if "multi" in ix:
        return pa.MultiIndex([pandas_index_component(l) for l in ix["multi"]], strict=ix.get("strict", False),
                             ordered=ix.get("ordered", True), coerce=ix.get("coerce", False),
                             unique=ix.get("unique"))
    return pa.Index(
        dtype=_PD_DTYPE[ix["dtype"]] if ix.get("dtype") else None,
        checks=[build_check(c, ix.get("dtype")) for c in ix.get("checks", [])],
        nullable=ix.get("nullable", False), unique=ix.get("unique", False), coerce=ix.get("coerce", False),
        name=ix.get("name"), report_duplicates=ix.get("report_duplicates", "all"),
    )


def pandas_schema(spec):
    import pandera as pa

    kind = spec.get("kind", "dataframe")
    if kind == "series":
        col = spec["columns"][0]
        kw = {}
        if spec.get("drop_invalid_rows"):
            kw["drop_invalid_rows"] = True
        if col.get("parsers"):
            kw["parsers"] = build_parsers(col["parsers"])
        return pa.SeriesSchema(
            dtype=_PD_DTYPE[col["dtype"]] if col.get("dtype") else None,
            checks=[build_check(c, col.get("dtype")) for c in col.get("checks", [])],
            index=pandas_index_component(spec.get("index")),
            nullable=col.get("nullable", False), unique=col.get("unique", False),
            report_duplicates=col.get("report_duplicates", "all"), coerce=col.get("coerce", False),
            name=col.get("name") if spec.get("series_named", True) else None, default=_default(col), **kw)
    if kind == "column":
        return pandas_column(spec["columns"][0], with_name=True)
    il = spec.get("int_labels")
    columns = {_lab(c["name"], il and not c.get("regex")): pandas_column(c) for c in spec["columns"]}
    if il and spec.get("unique"):
        uq = spec["unique"]
        spec = dict(spec, unique=[_lab(x, il) for x in uq] if all(isinstance(x, str) for x in uq)
                    else [[_lab(x, il) for x in g] for g in uq])
    return pa.DataFrameSchema(
        columns, checks=[build_check(c, None) for c in spec.get("checks", [])],
        index=pandas_index_component(spec.get("index")),
        dtype=_PD_DTYPE[spec["dtype"]] if spec.get("dtype") else None,
        coerce=spec.get("coerce", False), strict=spec.get("strict", False), ordered=spec.get("ordered", False),
        unique=spec.get("unique"), report_duplicates=spec.get("report_duplicates", "all"),
        unique_column_names=spec.get("unique_column_names", False),
        add_missing_columns=spec.get("add_missing_columns", False),
        drop_invalid_rows=spec.get("drop_invalid_rows", False),
        **({"parsers": build_parsers(spec["parsers"])} if spec.get("parsers") else {}),
    )


# ----------------------------------------------------------------------------- polars

_PL_PHYS = {"int64": "Int64", "int32": "Int32", "float64": "Float64", "float32": "Float32", "bool": "Boolean",
            "object": "String", "string": "String", "str": "String", "datetime64[ns]": "Datetime", "Int64": "Int64"}


def pl_dtype(tag):
    import polars as pl

    if tag == "datetime64[ns]":
        # polars' default unit: `is_in`/comparisons against python datetimes are unit-sensitive in polars itself
        return pl.Datetime("us")
    return getattr(pl, _PL_PHYS[tag])


def polars_frame(table, lazy=False):
    """Same table as a polars DataFrame (null is null; explicit dtypes).  object -> String: only
    valid for all-string object columns (callers keep mixed object columns out of polars cases)."""
    import polars as pl

    cols = {}
    for c in table["columns"]:
        cells = c["cells"]
        if c["phys"] == "datetime64[ns]":
            cells = [None if v is None else day(v) for v in cells]
        cols[c["name"]] = pl.Series(c["name"], cells, dtype=pl_dtype(c["phys"]), strict=False)
    df = pl.DataFrame(cols)
    return df.lazy() if lazy else df


def polars_schema(spec):
    import pandera.polars as pap

    def column(col):
        kw = dict(
            dtype=pl_dtype(col["dtype"]) if col.get("dtype") else None,
            checks=[build_check_polars(c, col.get("dtype")) for c in col.get("checks", [])],
            nullable=col.get("nullable", False), unique=col.get("unique", False), coerce=col.get("coerce", False),
            required=col.get("required", True), regex=col.get("regex", False),
            default=_default_polars(col),
        )
        if col.get("drop_invalid_rows"):
            kw["drop_invalid_rows"] = True
        return pap.Column(**kw)

    return pap.DataFrameSchema(
        {c["name"]: column(c) for c in spec["columns"]},
        checks=[build_check_polars(c, None) for c in spec.get("checks", [])],
        dtype=pl_dtype(spec["dtype"]) if spec.get("dtype") else None,
        coerce=spec.get("coerce", False), strict=spec.get("strict", False), ordered=spec.get("ordered", False),
        unique=spec.get("unique"), report_duplicates=spec.get("report_duplicates", "all"),
        unique_column_names=spec.get("unique_column_names", False),
        add_missing_columns=spec.get("add_missing_columns", False),
        drop_invalid_rows=spec.get("drop_invalid_rows", False),
    )


def _default_polars(col):
    d = col.get("default")
    if d is None:
        return None
    if col.get("dtype") == "datetime64[ns]":
        return day(d)
    return d


def build_check_polars(cs, dtype=None):
    if dtype == "datetime64[ns]":
        cs = dict(cs)
        a = dict(cs.get("args", {}))
        for k, v in list(a.items()):
            if isinstance(v, int) and not isinstance(v, bool) and k in ("value", "min_value", "max_value"):
                a[k] = day(v)
            elif isinstance(v, list):
                a[k] = [day(x) if isinstance(x, int) and not isinstance(x, bool) else x for x in v]
        cs["args"] = a
        return build_check(cs, None)
    return build_check(cs, None)


# ------------------------------------------------------------------ pandas -> TableSpec


class NotRepresentable(Exception):
    pass


def _cells_from_pandas(values, dtype_name):
    import numpy as np
    import pandas as pd

    if dtype_name not in PHYS:
        raise NotRepresentable(dtype_name)
    out = []
    for v in list(values):
        if v is None or v is pd.NA or v is pd.NaT or (isinstance(v, float) and np.isnan(v)):
            out.append(None)
        elif dtype_name == "datetime64[ns]":
            d = (pd.Timestamp(v) - pd.Timestamp(EPOCH)) / pd.Timedelta(days=1)
            if d != int(d):
                raise NotRepresentable("sub-day timestamp")
            out.append(int(d))
        elif isinstance(v, (np.generic,)):
            out.append(v.item())
        elif isinstance(v, (bool, int, float, str)):
            out.append(v)
        else:
            raise NotRepresentable(type(v).__name__)
    return out


def table_from_pandas(obj):
    """pandas DataFrame / Series -> TableSpec (raises NotRepresentable outside the vocabulary)."""
    import pandas as pd

    def index_spec(ix):
        if isinstance(ix, pd.MultiIndex):
            return {"multi": [{"name": ix.names[i], "phys": str(ix.get_level_values(i).dtype),
                               "cells": _cells_from_pandas(ix.get_level_values(i).tolist(), str(ix.get_level_values(i).dtype))}
                              for i in range(ix.nlevels)]}
        if isinstance(ix, pd.RangeIndex) and ix.start == 0 and ix.step == 1 and ix.name is None:
            return None
        return {"name": ix.name, "phys": str(ix.dtype), "cells": _cells_from_pandas(ix.tolist(), str(ix.dtype))}

    if isinstance(obj, pd.Series):
        return {"columns": [{"name": obj.name, "phys": str(obj.dtype), "cells": _cells_from_pandas(obj.tolist(), str(obj.dtype))}],
                "index": index_spec(obj.index)}
    cols = []
    for i, name in enumerate(obj.columns):
        s = obj.iloc[:, i]
        if not isinstance(name, str):
            raise NotRepresentable("non-str column label")
        cols.append({"name": name, "phys": str(s.dtype), "cells": _cells_from_pandas(s.tolist(), str(s.dtype))})
    t = {"columns": cols, "index": index_spec(obj.index)}
    if not cols and t["index"] is None:
        t["nrows"] = len(obj)
    return t


def strip_parsers(spec):
    """Same schema with every parsing option switched off."""
    import copy

    s = copy.deepcopy(spec)
    for k in ("coerce", "add_missing_columns", "drop_invalid_rows"):
        s[k] = False
    if s.get("strict") == "filter":
        # "filter" = drop undeclared columns (docs: only columns in the schema are retained): with the
        # parser off the retained object must therefore already pass strict=True
        s["strict"] = True
    for c in s.get("columns", []):
        c["coerce"] = False
        c["default"] = None
        c.pop("drop_invalid_rows", None)
        c.pop("parsers", None)
    ix = s.get("index")
    if ix:
        for l in (ix["multi"] if "multi" in ix else [ix]):
            l["coerce"] = False
        if "multi" in ix:
            ix["coerce"] = False
    s.pop("parsers", None)
    return s
