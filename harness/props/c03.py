"""C03 - whatever validate returns conforms to the schema (parse postcondition).

Oracle (fixpoint): if D' = validate(S, D) returns then
  (1) strip(S) - the same spec with every parsing option off - accepts D' (checked with pandera AND with the
      independent reference model on the TableSpec read back from D');
  (2) validate(S, D') returns an object equal to D'.
"""
from __future__ import annotations

import copy

from hypothesis import strategies as st

from .. import fp, gen, known, refmodel, spec as sp
from ..core import Eval, Family
from . import c01

PROPERTY = "C03"
LEVEL = "exploration"
RULE = (
    "Conforming C01 pairs are de-conformed in ways the parsing options repair (or fail to): cells re-encoded in another "
    "physical type + coerce (column / schema / index level), a null + default, a removed column + add_missing_columns, "
    "extra columns + strict='filter', a tightened row constraint + drop_invalid_rows (lazy), 1-3 of them at once; "
    "DataFrameSchema and SeriesSchema (with / without index schema) on pandas, DataFrame/LazyFrame on polars. "
    "Non-trivial: >=2 parser options on, or the returned object differs from the input."
)
ASSUMPTIONS = c01.ASSUMPTIONS + [
    "strip(S) is rebuilt from the JSON spec (coerce/default/add_missing_columns/drop_invalid_rows off, strict='filter'->False), "
    "never by mutating S",
]


def _has_null_cells(table):
    return any(c is None for t in table["columns"] for c in t["cells"])


def _result_has_nulls(res):
    try:
        return bool(res.isna().to_numpy().any())
    except Exception:
        return False


def _check_names(errs):
    out = []
    for x in errs:
        c = getattr(x, "check", None)
        out.append(str(getattr(c, "error", None) or getattr(c, "name", None) or c))
    return sorted(set(out))


def _aggregate_checks(spec):
    out = [c["kind"] for col in spec.get("columns", []) for c in col.get("checks", [])]
    out += [c["kind"] for c in spec.get("checks", [])]
    return [k for k in out if k == "unique_values_eq"]


def evaluate(case):
    ev = Eval()
    spec, table = case["spec"], case["table"]
    ops = case.get("parser_ops", [])
    if case.get("entry") == "column":
        # a standalone Column validating the frame: that column, required, nothing else of the schema
        col = dict(spec["columns"][case["entry_col"]], required=True)
        if spec.get("coerce"):
            col["coerce"] = True
        spec = {"kind": "column", "columns": [col], "index": None}
    schema = sp.pandas_schema(spec)
    data = sp.pandas_series(table) if spec.get("kind") == "series" else sp.pandas_frame(table)
    ev.labels.append("kind=" + spec.get("kind", "dataframe"))
    for op in sorted(set(ops)):
        ev.labels.append("op=" + op)
    lazy = bool(case.get("lazy"))
    o = fp.outcome(lambda: schema.validate(data, lazy=lazy))
    ev.labels.append("outcome=" + o["kind"])
    if o["kind"] != "ok":
        return ev
    res = o["value"]
    try:
        changed = fp.snapshot(res) != fp.snapshot(data)
    except Exception as e:
        ev.add("result-not-a-pandas-object", repr(e)[:200])
        return ev
    if changed:
        ev.labels.append("result-differs-from-input")
    ev.nontrivial = len(set(ops)) >= 2 or changed
    if fp.kind_of(res) != fp.kind_of(data):
        ev.add("result-kind-differs", {"in": fp.kind_of(data), "out": fp.kind_of(res)})
        return ev
    if "mi-coerce" in ops and not spec.get("drop_invalid_rows"):
        # coercing an index whose levels already have their types is the identity on the index
        try:
            if fp.snapshot(res.index) != fp.snapshot(data.index):
                ev.add("noop-coercion-changed-index", {"ops": ops, "diff": fp.fp_diff(fp.snapshot(data.index), fp.snapshot(res.index))[:4]})
        except Exception as e:  # noqa: BLE001
            ev.add("result-index-unreadable", repr(e)[:200])
    # (0) what a parser computes is what comes back: the harness' parsers take absolute values
    try:
        import pandas as pd

        parsed_cols = [c["name"] for c in spec.get("columns", []) if any(p_["kind"].startswith("abs") for p_ in c.get("parsers") or [])]
        parsed_cols += [p_["column"] for p_ in spec.get("parsers") or [] if p_["kind"].startswith("frame_abs")]
        if parsed_cols and isinstance(res, pd.DataFrame) and isinstance(data, pd.DataFrame) and not spec.get("drop_invalid_rows") \
                and len(res) == len(data):
            for cn in dict.fromkeys(parsed_cols):
                if cn in res.columns and cn in data.columns and res.columns.tolist().count(cn) == 1 \
                        and pd.api.types.is_numeric_dtype(res[cn]) and pd.api.types.is_numeric_dtype(data[cn]):
                    got = res[cn].astype("float64").to_numpy(na_value=float("nan"))
                    want = data[cn].astype("float64").abs().to_numpy(na_value=float("nan"))
                    if res[cn].dtype != data[cn].dtype and pd.api.types.is_integer_dtype(res[cn]) \
                            and not (want[want == want] % 1 == 0).all():
                        # (the column was also coerced to integers and holds fractions: what the cast does to them is the
                        # engine's business - C10 - not the parser's)
                        continue
                    if not ((got == want) | ((got != got) & (want != want))).all():
                        ev.add("parser-result-not-in-returned-object", {"column": str(cn), "ops": ops, "entry": case.get("entry", "schema"),
                                                                        "returned": [repr(x) for x in got[:5]], "parsed": [repr(x) for x in want[:5]]})
    except Exception as e:  # noqa: BLE001 - comparison not possible (e.g. coerced to a non-numeric type): not scored
        ev.labels.append("parser-oracle-not-applicable")
    stripped = sp.strip_parsers(spec)
    # (1a) pandera itself, parsing off
    s2 = sp.pandas_schema(stripped)
    o2 = fp.outcome(lambda: s2.validate(res, lazy=True))
    drop = ":drop" if spec.get("drop_invalid_rows") else ""
    if o2["kind"] in ("SchemaError", "SchemaErrors"):
        errs = getattr(o2["exc"], "schema_errors", [o2["exc"]])
        comps = sorted({type(getattr(x, "schema", None)).__name__ for x in errs})
        null_dup = any(getattr(x.reason_code, "name", "") in ("SERIES_CONTAINS_DUPLICATES", "DUPLICATES") for x in errs) and \
            (_has_null_cells(table) or _result_has_nulls(res))
        # one discrepancy per (reason, component class): each is explained (or not) on its own
        groups = {}
        for x in errs:
            groups.setdefault((getattr(x.reason_code, "name", str(x.reason_code)), type(getattr(x, "schema", None)).__name__), []).append(x)
        for (reason, comp), xs in sorted(groups.items()):
            ev.add(f"returned-object-violates-schema{drop}:{reason}",
                   {"ops": ops, "components": [comp], "null_dup": null_dup and reason in ("SERIES_CONTAINS_DUPLICATES", "DUPLICATES"),
                    "checks": _check_names(xs), "all_reasons": o2.get("reasons", []), "msg": str(xs[0])[:300]})
    elif o2["kind"] == "internal":
        ev.labels.append("strip-validate-internal")
    # (1b) reference model on the object read back
    try:
        t2 = sp.table_from_pandas(res)
        ref = refmodel.ref_validate(dict(stripped, kind="dataframe") if stripped.get("kind") == "column" else stripped, t2)
        if not ref.accept:
            comps = sorted({"Index" if "<index>" in repr(e.where) else "Column" for e in ref.errors})
            null_dup = any(e.reason in ("SERIES_CONTAINS_DUPLICATES", "DUPLICATES") for e in ref.errors) and \
                (_has_null_cells(table) or _has_null_cells(t2))
            groups = {}
            for e in ref.errors:
                groups.setdefault((e.reason, "Index" if "<index>" in repr(e.where) else "Column"), []).append(e)
            for (reason, comp), es in sorted(groups.items()):
                ev.add(f"returned-object-violates-reference{drop}:{reason}",
                       {"ops": ops, "components": [comp], "null_dup": null_dup and reason in ("SERIES_CONTAINS_DUPLICATES", "DUPLICATES"),
                        "errors": [(e.key(), e.rows) for e in es][:5], "all_reasons": ref.reasons})
    except (sp.NotRepresentable, refmodel.Undefined) as e:
        ev.labels.append("readback-outside-reference-vocabulary")
    # (2) idempotence
    snap = fp.snapshot(res)
    o3 = fp.outcome(lambda: schema.validate(res, lazy=lazy))
    if o3["kind"] in ("SchemaError", "SchemaErrors"):
        errs3 = getattr(o3["exc"], "schema_errors", [o3["exc"]])
        groups = {}
        for x in errs3:
            groups.setdefault((getattr(x.reason_code, "name", str(x.reason_code)), type(getattr(x, "schema", None)).__name__), []).append(x)
        for (reason, comp), xs in sorted(groups.items()):
            ev.add(f"revalidation-of-result-rejected:{reason}",
                   {"ops": ops, "components": [comp], "checks": _check_names(xs), "all_reasons": o3.get("reasons", []),
                    "msg": str(xs[0])[:300]})
    elif o3["kind"] == "ok":
        try:
            if fp.snapshot(o3["value"]) != snap:
                ev.add("revalidation-changes-result", {"ops": ops, "diff": fp.fp_diff(snap, fp.snapshot(o3["value"]))})
        except Exception as e:
            ev.add("revalidation-result-not-comparable", repr(e)[:200])
    elif o3["kind"] == "internal":
        ev.add("revalidation-crashes:" + o3["exc_type"], {"ops": ops, "where": o3["where"], "msg": o3["msg"][:200]})
    return ev


@known.finding("C03/drop_invalid_rows-keeps-rows-with-invalid-index-label")
def _kf_drop_index(family, case, disc):
    d = disc.detail if isinstance(disc.detail, dict) else {}
    if case["spec"].get("index") is None or d.get("components") not in (["Index"], ["MultiIndex"]):
        return False
    if ":drop:" in disc.kind and disc.kind.startswith("returned-object-violates"):
        return True
    # the surviving rows are reported again when the result is validated a second time and that call raises because of
    # an error which dropping cannot resolve
    return bool(case["spec"].get("drop_invalid_rows")) and disc.kind.startswith("revalidation-of-result-rejected:") \
        and disc.kind.split(":")[-1] in ("DATAFRAME_CHECK", "SERIES_CONTAINS_NULLS", "SERIES_CONTAINS_DUPLICATES")


@known.finding("C03/drop_invalid_rows-keeps-null-duplicates")
def _kf_drop_nulldup(family, case, disc):
    d = disc.detail if isinstance(disc.detail, dict) else {}
    return (":drop:" in disc.kind and disc.kind.startswith("returned-object-violates") and bool(d.get("null_dup"))
            and disc.kind.split(":")[-1] in ("SERIES_CONTAINS_DUPLICATES", "DUPLICATES"))


def _index_aggregate_checks(spec):
    ixs = spec.get("index")
    levels = (ixs["multi"] if "multi" in ixs else [ixs]) if ixs else []
    return [c["kind"] for l in levels for c in l.get("checks", []) if c["kind"] == "unique_values_eq"]


@known.finding("C03/drop_invalid_rows-aggregate-check-broken-by-dropping")
def _kf_drop_aggregate(family, case, disc):
    """unique_values_eq holds (or is skipped) on the input but fails on the result because rows holding some of the
    required values were dropped for another reason; the check is not re-run on the result."""
    d = disc.detail if isinstance(disc.detail, dict) else {}
    if not (case["spec"].get("drop_invalid_rows") and (_aggregate_checks(case["spec"]) or _index_aggregate_checks(case["spec"]))):
        return False
    if family == "polars" and disc.kind in ("revalidation-changes-result", "revalidation-crashes:ShapeError"):
        # polars: on the second pass the aggregate check fails with a 1-row check output, which drop_invalid_rows
        # broadcasts over (or cannot align with) the frame
        first = d.get("first") or {}
        n_first = len(next(iter((first.get("cells") or {}).values()), []))
        return n_first < sp.table_nrows(case["table"]) or disc.kind.startswith("revalidation-crashes")
    if disc.kind.split(":")[-1] != "DATAFRAME_CHECK":
        return False
    if disc.kind.startswith("returned-object-violates-reference:drop:"):
        errs = d.get("errors", [])
        return bool(errs) and all("unique_values_eq" in str(e[0]) for e in errs)
    if disc.kind.startswith("returned-object-violates-schema:drop:") or disc.kind.startswith("revalidation-of-result-rejected:"):
        checks = d.get("checks", [])
        return bool(checks) and all(c.startswith("unique_values_eq") for c in checks)
    return False


@known.finding("C03/joint-uniqueness-evaluated-before-column-parsers")
def _kf_joint_unique_before_parsers(family, case, disc):
    """DataFrameSchema(unique=[...]) is checked on the data as it is before the Column components run their parsers:
    duplicates that only exist after parsing (abs of 4 and -4) are neither reported nor dropped"""
    spec = case["spec"]
    uq = spec.get("unique") or []
    keys = set(uq if all(isinstance(x, str) for x in uq) else [x for g in uq for x in g])
    parsed = {c["name"] for c in spec.get("columns", []) if c.get("parsers")}
    if family != "pandas" or not (keys & parsed):
        return False
    base = disc.kind.replace(":drop:", ":")
    if base in ("returned-object-violates-schema:DUPLICATES", "returned-object-violates-reference:DUPLICATES",
                "revalidation-of-result-rejected:DUPLICATES"):
        return True
    return disc.kind == "revalidation-changes-result" and bool(spec.get("drop_invalid_rows"))


@known.finding("C03/drop_invalid_rows-coercion-not-reapplied-after-dropping")
def _kf_drop_coerce_again(family, case, disc):
    """the rows whose cells cannot be coerced are dropped, the surviving column keeps its un-coerced dtype (an Int64 column
    whose only null was dropped stays Int64 under Column('int64', coerce=True)); validating the result again coerces it"""
    spec = case["spec"]
    if family != "pandas" or disc.kind != "revalidation-changes-result" or not spec.get("drop_invalid_rows"):
        return False
    if not (spec.get("coerce") or any(c.get("coerce") for c in spec.get("columns", []))):
        return False
    diff = (disc.detail or {}).get("diff") or []
    return bool(diff) and all(str(x.get("path", "")).startswith(".dtypes[") for x in diff)


@known.finding("C03/add_missing_columns-insert-position-ignores-regex-columns")
def _kf_add_missing_regex_order(family, case, disc):
    spec = case["spec"]
    if not (family in ("pandas", "polars") and spec.get("add_missing_columns") and spec.get("ordered")
            and any(c.get("regex") for c in spec.get("columns", []))):
        return False
    return disc.kind.replace(":drop:", ":") in ("returned-object-violates-reference:COLUMN_NOT_ORDERED",
                                                "returned-object-violates-schema:COLUMN_NOT_ORDERED",
                                                "revalidation-of-result-rejected:COLUMN_NOT_ORDERED")


@st.composite
def strat_pandas(draw):
    case = draw(gen.parser_case())
    spec = case["spec"]
    col_parsers = any(c.get("parsers") for c in spec.get("columns", []))
    if spec.get("kind", "dataframe") == "dataframe" and not spec.get("drop_invalid_rows") \
            and draw(st.integers(0, 5)) <= (2 if col_parsers else 0):
        names = [t["name"] for t in case["table"]["columns"]]
        cols = [i for i, c in enumerate(spec["columns"]) if not c.get("regex") and c["name"] in names and names.count(c["name"]) == 1]
        hot = [i for i in cols if spec["columns"][i].get("parsers")] or \
            [i for i in cols if spec["columns"][i]["name"] in case.get("touched", [])]
        if cols:
            case = dict(case, entry="column", entry_col=draw(st.sampled_from(hot or cols)))
    return case


FAMILIES = [
    Family("pandas", evaluate, strategy=strat_pandas, n_quick=1000, n_thorough=4000, shards_quick=4,
           shards_thorough=16,
           required_labels=["op=coerce", "op=default", "op=add_missing", "op=filter", "op=drop", "kind=series",
                            "result-differs-from-input", "outcome=ok"]),
]

from . import plx  # noqa: E402

FAMILIES.append(
    Family("polars", plx.eval_c03,
           strategy=lambda: plx.strat_case(parsers="many", containers=("df", "df", "lf_full"), drop_rate=2, regex_rate=2),
           n_quick=700, n_thorough=3000, shards_quick=3, shards_thorough=12,
           required_labels=["container=lf_full", "outcome=ok", "result-differs-from-input", "op=coerce", "op=default",
                            "op=add_missing"]))

from . import _c03_edited  # noqa: E402

FAMILIES.append(
    Family("edited_result", _c03_edited.eval_edited, strategy=lambda: _c03_edited.strat_edited(strat_pandas), n_quick=500,
           n_thorough=3000, shards_quick=2, shards_thorough=8,
           required_labels=["edited:raw-back", "edited:null-cell", "edited:drop-column", "edited:edit-matters"]))


def selftest():
    refmodel.selftest()
