"""C08 - one schema definition means the same thing on pandas and on polars.

A backend-neutral SchemaSpec restricted to the vocabulary both backends support is rendered to a pandas and to a
polars DataFrameSchema, one TableSpec to a pandas and to a polars DataFrame (explicit dtypes on both sides, None for
null in both).  Oracle: equal verdicts (eager and lazy), equal failing cells as sets of (column, row position, value),
equal parsed outputs up to the null representation and dtype naming; both verdicts are also compared with the
reference model where no parsing option is on, so a common-mode error is not silently accepted.
"""
from __future__ import annotations

import copy
import math

from hypothesis import strategies as st

from .. import fp, gen, known, refmodel, spec as sp
from ..core import Eval, Family

PROPERTY = "C08"
LEVEL = "exploration"
RULE = (
    "Hypothesis: tables over int64/float64/str/bool/datetime columns with nulls, schemas derived from the data (boundary-"
    "placed arguments for every built-in check incl. generated regular expressions), repaired to conforming and re-tightened; "
    "plus parsing options coerce / default / add_missing_columns / strict / ordered. Non-trivial: >=1 built-in check whose "
    "argument is hit by a boundary value or a parsing option, and the case is not rejected for a dtype reason alone."
)
ASSUMPTIONS = [
    "shared vocabulary = DESIGN.md §2 C08; excluded (documented unsupported on polars, not divergence): index schemas, "
    "dataframe-level built-in checks, regex-selected columns, report_duplicates != 'all', unique_column_names, duplicate labels",
    "float NaN vs null: tables use None only (NaN in pandas float columns IS the null); element-wise str dtype: object columns "
    "hold only str/None",
]

PHYS = ["int64", "float64", "object", "bool", "datetime64[ns]"]
REGEX_POOL = ["a", "^a", "a|b", "[ab]+", "b$", ".", "^(a|b)$", "x?", "^a.*c$", "(ab)+", "a|^b", "ab|b$", "[^a]",
              "\\d", "\\d\\d", "\\s", "\\w\\w", "a\\.b", "\\bb"]  # (regex syntax spelled with a backslash only)


@st.composite
def shared_case(draw):
    n = draw(st.integers(0, 5))
    ncols = draw(st.integers(1, 3))
    names = list(draw(st.permutations(["a", "b", "c", "d"])))[:ncols]
    tcols = []
    for nm in names:
        phys = draw(st.sampled_from(["int64", "int64", "float64", "float64", "object", "object", "bool", "datetime64[ns]"]))
        tcols.append({"name": nm, "phys": phys, "cells": draw(gen.cells_strategy(phys, n, mixed_ok=False))})
    table = {"columns": tcols, "index": None}
    scols = []
    for tc in tcols:
        if draw(st.integers(0, 9)) == 0:
            continue
        fs = draw(gen.derived_field(tc["phys"], tc["cells"]))
        if fs.get("dtype") in ("Int64", "string", "object", "int32", "float32", None):
            fs["dtype"] = {"int64": "int64", "float64": "float64", "object": "str", "bool": "bool",
                           "datetime64[ns]": "datetime64[ns]"}[tc["phys"]]
            fs["checks"] = [c for c in fs["checks"]]
        fs.pop("report_duplicates", None)
        for c in fs["checks"]:
            if c["kind"] in ("str_matches", "str_contains"):
                c["args"]["pattern"] = draw(st.sampled_from(REGEX_POOL))
        fs["name"] = tc["name"]
        fs["required"] = draw(st.integers(0, 5)) > 0
        scols.append(fs)
    for _ in range(draw(st.sampled_from([0, 0, 1]))):
        free = [x for x in ["a", "b", "c", "d", "zz"] if x not in names and x not in [c["name"] for c in scols]]
        if free:
            scols.append({"name": draw(st.sampled_from(free)), "dtype": draw(st.sampled_from(["int64", "str"])),
                          "nullable": False, "unique": False, "checks": [], "required": draw(st.integers(0, 2)) == 0})
    if draw(st.integers(0, 3)) == 0 and len(scols) > 1:
        scols = list(draw(st.permutations(scols)))
    spec = {"kind": "dataframe", "columns": scols, "index": None,
            "strict": draw(st.sampled_from([False, False, True, "filter"])), "ordered": draw(st.integers(0, 3)) == 0}
    plain = [c["name"] for c in scols]
    if plain and draw(st.integers(0, 5)) == 0:
        spec["unique"] = list(draw(st.permutations(plain)))[: draw(st.integers(1, min(2, len(plain))))]
    if draw(st.integers(0, 3)) == 0:
        # string focus: one object column over a regex-stress pool with one pattern / length check
        pool = ["a", "b", "ab", "ba", "cb", "xb", "bx", "a\u00e9", "\u00e9", "\u00e9\u00e9b", "", "abc", "aab", "\u00e9", "\u65e5\u672c",
                "a1", "b12", "a b", "a.b", "\\d"]
        cells = draw(st.lists(st.one_of(st.sampled_from(pool), st.sampled_from(pool), st.sampled_from(pool), st.none()),
                              min_size=n, max_size=n))
        kind = draw(st.sampled_from(["str_matches", "str_matches", "str_contains", "str_startswith", "str_endswith", "str_length",
                                     "str_length"]))
        if kind in ("str_matches", "str_contains"):
            args = {"pattern": draw(st.sampled_from(REGEX_POOL))}
        elif kind in ("str_startswith", "str_endswith"):
            args = {"string": draw(st.sampled_from(["a", "b", "ab", "x", ""]))}
        else:
            lo = draw(st.one_of(st.none(), st.integers(0, 3)))
            hi = draw(st.one_of(st.none(), st.integers(0, 3)))
            if lo is None and hi is None:
                lo = 1
            if lo is not None and hi is not None and lo > hi:
                lo, hi = hi, lo
            args = {"min_value": lo, "max_value": hi}
        name = "s"
        table["columns"].append({"name": name, "phys": "object", "cells": cells})
        scols.append({"name": name, "dtype": "str", "nullable": True, "unique": False, "required": True,
                      "checks": [{"kind": kind, "args": args}]})
        case = {"spec": spec, "table": table, "parser_ops": [], "lazy_container": False}
        return _reserved_label(draw, case)
    case = {"spec": spec, "table": table}
    r = draw(st.integers(0, 9))
    if r >= 3:
        case = gen.repair(case)
        if r >= 6:
            case = draw(gen.tighten(case, ops=["nullable", "unique", "dtype", "check", "check", "strict", "ordered",
                                               "required", "joint"]))
    case["parser_ops"] = []
    if draw(st.integers(0, 2)) == 0:
        case = _add_parsers(draw, case)
    case["lazy_container"] = draw(st.integers(0, 3)) == 0
    return _reserved_label(draw, case)


RESERVED_RATE = 11


def _reserved_label(draw, case):
    """now and then a data column is called what an engine or pandera calls a helper column: the meaning of a schema
    does not depend on the labels of the data"""
    if case["table"]["columns"] and draw(st.integers(0, RESERVED_RATE)) == 0:
        from . import plx

        old = draw(st.sampled_from([t["name"] for t in case["table"]["columns"]]))
        new = draw(st.sampled_from(plx.RESERVED_LOOKING))
        if new not in [t["name"] for t in case["table"]["columns"]] + [c["name"] for c in case["spec"]["columns"]]:
            plx.rename_label(case, old, new)
            case["reserved_label"] = new
    return case


def _add_parsers(draw, case):
    case = copy.deepcopy(case)
    spec, table = case["spec"], case["table"]
    tcs = {c["name"]: c for c in table["columns"]}
    plain = [c for c in spec["columns"] if c["name"] in tcs]
    ops = []
    for _ in range(draw(st.integers(1, 2))):
        op = draw(st.sampled_from(["coerce", "coerce", "default", "add_missing", "schema-coerce"]))
        if op in ("coerce", "schema-coerce") and plain:
            c = draw(st.sampled_from(plain))
            tc = tcs[c["name"]]
            if c.get("dtype") == "int64" and tc["phys"] == "int64":
                mode = draw(st.integers(0, 1))
                if mode == 0 and not any(v is None for v in tc["cells"]):
                    tc["phys"], tc["cells"] = "float64", [float(v) for v in tc["cells"]]
                else:
                    tc["phys"], tc["cells"] = "object", [None if v is None else str(v) for v in tc["cells"]]
            elif c.get("dtype") == "float64" and tc["phys"] == "float64" and not any(v is None for v in tc["cells"]) \
                    and all(v == int(v) for v in tc["cells"]):
                tc["phys"], tc["cells"] = "int64", [int(v) for v in tc["cells"]]
            elif c.get("dtype") == "str" and tc["phys"] == "object" and not any(v is None for v in tc["cells"]) \
                    and tc["cells"] and all(isinstance(v, str) and v.lstrip("-").isdigit() for v in tc["cells"]):
                tc["phys"], tc["cells"] = "int64", [int(v) for v in tc["cells"]]
            else:
                continue
            if op == "schema-coerce":
                spec["coerce"] = True
            else:
                c["coerce"] = True
            ops.append(op)
        elif op == "default" and plain:
            c = draw(st.sampled_from(plain))
            tc = tcs[c["name"]]
            nn = [v for v in tc["cells"] if v is not None]
            if tc["phys"] in ("float64", "object", "datetime64[ns]") and nn and tc["cells"] and c.get("dtype"):
                i = draw(st.integers(0, len(tc["cells"]) - 1))
                tc["cells"] = [None if j == i else v for j, v in enumerate(tc["cells"])]
                c["default"] = draw(st.sampled_from(nn))
                c["unique"] = False
                ops.append(op)
        elif op == "add_missing" and plain:
            c = draw(st.sampled_from(plain))
            tc = tcs[c["name"]]
            nn = [v for v in tc["cells"] if v is not None]
            if not nn or not c.get("dtype"):
                continue
            c["default"] = draw(st.sampled_from(nn))
            c["unique"] = False
            c["required"] = True
            table["columns"] = [t for t in table["columns"] if t["name"] != c["name"]]
            tcs.pop(c["name"])
            plain = [p for p in plain if p["name"] != c["name"]]
            spec["add_missing_columns"] = True
            spec["unique"] = None
            ops.append(op)
    case["parser_ops"] = ops
    return case


# ------------------------------------------------------------------------------- readers


def _norm(v):
    if v is None:
        return None
    try:
        import pandas as pd

        if v is pd.NaT or v is pd.NA:
            return None
        if isinstance(v, pd.Timestamp):
            return ("t", v.value)
    except Exception:
        pass
    import datetime as dt

    if isinstance(v, dt.datetime):
        import pandas as pd

        return ("t", pd.Timestamp(v).value)
    if isinstance(v, float) and math.isnan(v):
        return None
    if isinstance(v, bool) or type(v).__name__ == "bool_":
        return ("n", float(bool(v)))
    if isinstance(v, (int, float)) or type(v).__module__ == "numpy":
        try:
            return ("n", float(v))
        except Exception:
            return ("o", repr(v))
    return ("s", v) if isinstance(v, str) else ("o", repr(v))


def out_table_pandas(df):
    return {"columns": [str(c) for c in df.columns],
            "cells": {str(c): [_norm(v) for v in df[c].tolist()] for c in df.columns},
            "kinds": {str(c): _kind_pd(df[c].dtype) for c in df.columns}}


def _kind_pd(dt):
    s = str(dt)
    if s.startswith("int") or s.startswith("Int"):
        return "int"
    if s.startswith("float") or s.startswith("Float"):
        return "float"
    if s in ("bool", "boolean"):
        return "bool"
    if s.startswith("datetime64"):
        return "datetime"
    return "str"


def out_table_polars(df):
    import polars as pl

    if isinstance(df, pl.LazyFrame):
        df = df.collect()

    def kind(t):
        if t.is_integer():
            return "int"
        if t.is_float():
            return "float"
        if t == pl.Boolean:
            return "bool"
        if t.is_temporal():
            return "datetime"
        return "str"
    return {"columns": list(df.columns), "cells": {c: [_norm(v) for v in df[c].to_list()] for c in df.columns},
            "kinds": {c: kind(df.schema[c]) for c in df.columns}}


def failing_cells_pandas(exc, nrows):
    """-> set of (column, row position, value-as-str) for column-level failures; set of frame-level reasons"""
    cells, frame = set(), set()
    fc = exc.failure_cases
    for _, r in fc.iterrows():
        idx = r["index"]
        if r["schema_context"] == "Column" and _reason_of(r["check"]) == "dtype":
            frame.add((str(r["column"]), "dtype"))  # pandas lists the offending cells for the element-wise str dtype
        elif r["schema_context"] == "Column" and idx is not None and not (isinstance(idx, float) and math.isnan(idx)):
            cells.add((str(r["column"]), int(idx), _val_key(r["failure_case"])))
        elif r["schema_context"] == "Column":
            frame.add((str(r["column"]), _reason_of(r["check"])))
        else:
            frame.add((None, _reason_of(r["check"])))
    return cells, frame


def failing_cells_polars(exc):
    cells, frame = set(), set()
    fc = exc.failure_cases
    for r in fc.iter_rows(named=True):
        if r["schema_context"] == "Column" and r["index"] is not None:
            cells.add((str(r["column"]), int(r["index"]), _val_key(r["failure_case"], from_str=True)))
        elif r["schema_context"] == "Column":
            frame.add((str(r["column"]), _reason_of(r["check"])))
        else:
            frame.add((None, _reason_of(r["check"])))
    return cells, frame


def _reason_of(check):
    c = str(check)
    for k in ("dtype", "not_nullable", "field_uniqueness", "column_in_schema", "column_in_dataframe", "column_ordered",
              "multiple_fields_uniqueness", "coerce_dtype"):
        if c.startswith(k):
            return k
    return "check"


def _val_key(v, from_str=False):
    """failure values are compared as canonical strings (polars reports them as Utf8)."""
    n = _norm(v)
    if n is None:
        return "null"
    if n[0] == "t":
        return "t:" + str(n[1])
    if n[0] == "n":
        return "n:" + repr(float(n[1]))
    if from_str and isinstance(v, str):
        s = v
        if s in ("true", "false"):
            return "n:" + repr(1.0 if s == "true" else 0.0)
        try:
            return "n:" + repr(float(s))
        except ValueError:
            pass
        try:
            import pandas as pd

            if len(s) >= 10 and s[4] == "-" and s[7] == "-":
                return "t:" + str(pd.Timestamp(s).value)
        except Exception:
            pass
        return "s:" + s
    return "s:" + str(n[1])


# --------------------------------------------------------------------------------- evaluate


def evaluate(case):
    ev = Eval()
    spec, table = case["spec"], case["table"]
    ops = case.get("parser_ops", [])
    if not table["columns"]:
        ev.skipped = "zero-column table (a polars frame without columns cannot carry a row count)"
        return ev
    try:
        pd_schema, pl_schema = sp.pandas_schema(spec), sp.polars_schema(spec)
        pdf, plf = sp.pandas_frame(table), sp.polars_frame(table, lazy=False)
    except Exception as e:
        ev.skipped = "not buildable on both backends: " + type(e).__name__
        return ev
    SHARED = {"int64", "float64", "str", "bool", "datetime64[ns]", None}
    if any(c.get("dtype") not in SHARED for c in spec["columns"]):
        ev.skipped = "dtype outside the shared vocabulary"
        return ev
    from . import plx

    why = plx.spec_type_inconsistency(spec)
    if why:
        ev.skipped = why + " (implicit precondition of a schema definition)"
        return ev
    if plx.na_false_undefined(spec, table):
        ev.skipped = "ignore_na=False with a predicate that is true on NaN (pandas) / null on null (polars): undefined"
        return ev
    why = plx.temporal_cross_kind(spec, table) or plx.coercion_outside_shared_semantics(spec, table)
    if why:
        ev.skipped = why
        return ev
    ref = None
    if not ops:
        try:
            ref = refmodel.ref_validate(spec, table)
        except refmodel.Undefined as e:
            ev.skipped = "undefined:" + str(e)[:50]
            return ev
    if ref is None:
        # (with parsing options there is no reference run: the same exclusion decided from the spec)
        tcs_ = {t["name"]: t for t in table["columns"]}
        for col in spec["columns"]:
            t_ = tcs_.get(col["name"])
            if (t_ is not None and col.get("checks") and col.get("dtype") in plx._PHYS_OF and not (col.get("coerce") or spec.get("coerce"))
                    and t_["phys"] != plx._PHYS_OF[col["dtype"]]):
                ev.skipped = "a check runs on data of the wrong dtype (outcome undefined)"
                return ev
    ev.labels.append("parsers=" + ("+".join(sorted(set(ops))) or "none"))
    if case.get("reserved_label"):
        ev.labels.append("reserved-looking-label")
    checks = [c["kind"] for col in spec["columns"] for c in col.get("checks", [])]
    for k in set(checks):
        ev.labels.append("check=" + k)
    dtype_only = ref is not None and ref.errors and all(e.reason in ("WRONG_DATATYPE", "<check-on-wrong-dtype>") for e in ref.errors)
    ev.nontrivial = (bool(checks) or bool(ops)) and not dtype_only
    if ref is not None and any(e.reason == "<check-on-wrong-dtype>" for e in ref.errors):
        ev.skipped = "a check runs on data of the wrong dtype (outcome undefined)"
        return ev
    for col in spec["columns"]:
        tc = next((t for t in table["columns"] if t["name"] == col["name"]), None)
        if tc and col.get("dtype") == "str" and tc["phys"] != "object" and all(c is None for c in tc["cells"]):
            ev.skipped = "pandas' element-wise str dtype accepts an empty/all-null column of any physical type (pandas-only convention)"
            return ev
    n = sp.table_nrows(table)
    res = {}
    for lazy in (False, True):
        res[("pd", lazy)] = fp.outcome(lambda: pd_schema.validate(pdf, lazy=lazy))
        res[("pl", lazy)] = fp.outcome(lambda: pl_schema.validate(plf, lazy=lazy))
    for lazy in (False, True):
        mode = "lazy" if lazy else "eager"
        a, b = res[("pd", lazy)], res[("pl", lazy)]
        if "internal" in (a["kind"], b["kind"]) or "usage" in (a["kind"], b["kind"]):
            ev.labels.append("internal-outcome:" + ("pd" if a["kind"] in ("internal", "usage") else "pl"))
            continue
        va, vb = a["kind"] == "ok", b["kind"] == "ok"
        feats = _features(spec, table, ops)
        if va != vb:
            why = "+".join((b if va else a).get("reasons", []))
            ev.add(f"verdict-differs:{'polars-rejects' if va else 'polars-accepts'}:{why}",
                   {"mode": mode, "pandas": a["kind"], "polars": b["kind"], "pandas_reasons": a.get("reasons"),
                    "polars_reasons": b.get("reasons"), "features": feats, "msg": str((b if va else a).get("exc"))[:300]})
            continue
        if ref is not None and va != ref.accept:
            ev.add(f"both-backends-disagree-with-reference:{'accept' if va else 'reject'}",
                   {"mode": mode, "reference": [e.key() for e in ref.errors][:4]})
        if va:
            try:
                ta, tb = out_table_pandas(a["value"]), out_table_polars(b["value"])
            except Exception as e:
                ev.add("parsed-output-unreadable", repr(e)[:200])
                continue
            if ta["columns"] != tb["columns"]:
                ev.add("parsed-output-columns-differ", {"pandas": ta["columns"], "polars": tb["columns"], "features": feats})
            else:
                for c in ta["columns"]:
                    if ta["cells"][c] != tb["cells"][c]:
                        ev.add("parsed-output-values-differ", {"column": c, "pandas": ta["cells"][c][:6], "polars": tb["cells"][c][:6],
                                                              "features": feats})
                        break
                    if ta["kinds"][c] != tb["kinds"][c] and ta["cells"][c]:
                        ev.add("parsed-output-dtype-kind-differs", {"column": c, "pandas": ta["kinds"][c], "polars": tb["kinds"][c],
                                                                   "features": feats})
                        break
        elif lazy and a["kind"] == "SchemaErrors" and b["kind"] == "SchemaErrors":
            try:
                ca, fa = failing_cells_pandas(a["exc"], n)
                cb, fb = failing_cells_polars(b["exc"])
            except Exception as e:
                ev.add("failure-cases-unreadable", repr(e)[:200])
                continue
            if ca != cb:
                for colname in sorted({c for c, _, _ in (ca ^ cb)}):
                    a_c = {x for x in ca if x[0] == colname}
                    b_c = {x for x in cb if x[0] == colname}
                    only_pd, only_pl = sorted(a_c - b_c)[:5], sorted(b_c - a_c)[:5]
                    colspec = next((c for c in spec["columns"] if c["name"] == colname), {})
                    if not only_pd and all(v == "null" for _, _, v in only_pl) and colspec.get("unique"):
                        ev.add("failing-cells-differ:pandas-omits-null-duplicates", {"only_polars": only_pl, "features": feats})
                        continue
                    ev.add("failing-cells-differ:" + ("polars-misses" if only_pd and not only_pl else "polars-extra"
                                                       if only_pl and not only_pd else "both"),
                           {"only_pandas": only_pd, "only_polars": only_pl, "features": feats})
            elif {(c, r) for c, r in fa if r != "check" or (c, "dtype") not in fa} != \
                    {(c, r) for c, r in fb if r != "check" or (c, "dtype") not in fb}:
                fa_, fb_ = set(fa), set(fb)
                mfu = (None, "multiple_fields_uniqueness")
                if mfu in fb_ - fa_ and _joint_dups_only_through_nulls(spec, table):
                    # pandas raises DUPLICATES too but drops the null-holding failure cases from its report
                    # (scored on its own, so that a second difference in the same report keeps its own bucket)
                    ev.add("failing-cells-differ:pandas-omits-null-duplicates", {"joint": True, "features": feats})
                    fb_.discard(mfu)
                if {(c, r) for c, r in fa_ if r != "check" or (c, "dtype") not in fa_} != \
                        {(c, r) for c, r in fb_ if r != "check" or (c, "dtype") not in fb_}:
                    ev.add("frame-level-failures-differ", {"pandas": sorted(map(str, fa_)), "polars": sorted(map(str, fb_)), "features": feats})
    return ev


def _joint_dups_only_through_nulls(spec, table):
    """every duplicated key of the joint-uniqueness subset holds a null"""
    subset = [c for c in (spec.get("unique") or []) if any(t["name"] == c for t in table["columns"])]
    if not subset:
        return False
    cols = [next(t["cells"] for t in table["columns"] if t["name"] == c) for c in subset]
    from collections import Counter

    cnt = Counter(tuple(map(repr, r)) for r in zip(*cols))
    dups = [k for k, v in cnt.items() if v > 1]
    return bool(dups) and all("None" in k for k in dups)


def _added(spec, table):
    names = {t["name"] for t in table["columns"]}
    return sorted(c["name"] for c in spec["columns"] if c["name"] not in names) if spec.get("add_missing_columns") else []


def _features(spec, table, ops):
    f = set(ops)
    for a in _added(spec, table):
        f.add("added:" + a)
    for c in spec["columns"]:
        if c.get("default") is not None:
            f.add("default")
        for ch in c.get("checks", []):
            if ch.get("ignore_na") is False:
                f.add("ignore_na=False")
            if ch["kind"] in ("str_matches",) and "|" in ch["args"].get("pattern", ""):
                f.add("str_matches-alternation")
            if ch["kind"] == "unique_values_eq":
                f.add("unique_values_eq")
    if spec.get("unique"):
        f.add("joint-unique")
    if spec.get("add_missing_columns"):
        f.add("add_missing")
    if any(c is None for t in table["columns"] for c in t["cells"]):
        f.add("has-nulls")
    return sorted(f)


@known.finding("C08/polars-add_missing_columns-reorders-and-drops-columns")
def _kf_add_missing(family, case, disc):
    d = disc.detail if isinstance(disc.detail, dict) else {}
    return (disc.kind == "parsed-output-columns-differ" and case["spec"].get("add_missing_columns")
            and set(d.get("polars", [])) <= set(d.get("pandas", [])))


@known.finding("C08/polars-added-missing-columns-are-not-validated")
def _kf_added_not_validated(family, case, disc):
    d = disc.detail if isinstance(disc.detail, dict) else {}
    added = [f.split(":", 1)[1] for f in d.get("features", []) if f.startswith("added:")]
    if not added:
        return False
    if disc.kind == "failing-cells-differ:polars-misses":
        return all(c in added for c, _, _ in d.get("only_pandas", []))
    if disc.kind.startswith("verdict-differs:polars-accepts:"):
        msg = str(d.get("msg"))
        return any(f"'{a}'" in msg or f'"column": "{a}"' in msg for a in added)
    if disc.kind == "frame-level-failures-differ":
        pd_only = set(d.get("pandas", [])) - set(d.get("polars", []))
        return not (set(d.get("polars", [])) - set(d.get("pandas", []))) and all(any(f"'{a}'" in e for a in added) for e in pd_only)
    return False


@known.finding("C08/polars-unique_values_eq-counts-null-as-a-value")
def _kf_uve_null(family, case, disc):
    d = disc.detail if isinstance(disc.detail, dict) else {}
    if "unique_values_eq" not in d.get("features", []) or "has-nulls" not in d.get("features", []):
        return False
    if disc.kind == "frame-level-failures-differ":
        # both reject for other reasons; polars additionally reports the unique_values_eq check of a null-holding column
        cols = {col["name"] for col in case["spec"]["columns"] for c in col.get("checks", []) if c["kind"] == "unique_values_eq"
                and any(t["name"] == col["name"] and any(v is None for v in t["cells"]) for t in case["table"]["columns"])}
        extra = set(d.get("polars", [])) - set(d.get("pandas", []))
        return not (set(d.get("pandas", [])) - set(d.get("polars", []))) and bool(extra) and \
            all(e in {str((c, "check")) for c in cols} for e in extra)
    return (disc.kind.startswith("verdict-differs:polars-rejects:DATAFRAME_CHECK") and "unique_values_eq" in str(d.get("msg")))


@known.finding("C08/polars-ignore_na-false-accepts-nulls")
def _kf_ignore_na(family, case, disc):
    d = disc.detail if isinstance(disc.detail, dict) else {}
    f = d.get("features", [])
    if "ignore_na=False" not in f or "has-nulls" not in f:
        return False
    if disc.kind == "failing-cells-differ:polars-misses":
        return all(v == "null" for _, _, v in d.get("only_pandas", []))
    return disc.kind.startswith("verdict-differs:polars-accepts:") and set(disc.kind.split(":")[-1].split("+")) <= {"DATAFRAME_CHECK"}


@known.finding("C08/polars-data-column-named-check_output")
def _kf_check_output_label(family, case, disc):
    """polars: pandera's helper column 'check_output' collides with a data column of that name - failing cells are lost
    (the report carries polars' DuplicateError text instead)"""
    return case.get("reserved_label") == "check_output" and disc.kind in ("failing-cells-differ:polars-misses",
                                                                         "frame-level-failures-differ")


@known.finding("C08/pandas-omits-null-duplicates-from-report")
def _kf_pd_null_dups(family, case, disc):
    return disc.kind == "failing-cells-differ:pandas-omits-null-duplicates"


FAMILIES = [
    Family("differential", evaluate, strategy=shared_case, n_quick=1600, n_thorough=5000, shards_quick=4, shards_thorough=16,
           required_labels=["parsers=none", "check=str_matches", "check=in_range", "check=isin"]),
]


def selftest():
    refmodel.selftest()
