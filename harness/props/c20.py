"""C20 - head/tail/sample validate exactly the requested rows and return the whole object.

Oracle: selected positions P = [0..h) U [len-t..len) U positions(sample(n, random_state=r)) are computed
independently (the sample positions by sampling a frame that only carries a hidden row id);
verdict(S, D, head, tail, sample, r) == reference verdict with row-attributable constraints evaluated on
rows P (each selected row once, duplicates in the data preserved) and frame-level constraints on the whole
table; the call returns all of D; same random_state => same outcome; head=len(D) == no option.
"""
from __future__ import annotations

from hypothesis import strategies as st

from .. import fp, gen, known, refmodel, spec as sp
from ..core import Eval, Family
from . import c01

PROPERTY = "C20"
LEVEL = "exploration"
RULE = (
    "C01 generator (repaired / tightened pairs, non-unique and non-default index labels as first-class) x generated "
    "head/tail/sample/random_state with h,t,n <= len(D) incl. 0 and overlapping selections. Non-trivial: 0<|P|<len(D) "
    "and the reference verdict on rows P differs from the verdict on all rows, or the table has duplicated index labels / "
    "duplicated rows inside P. pandas DataFrame/Series and polars DataFrame/LazyFrame."
)
ASSUMPTIONS = c01.ASSUMPTIONS + [
    "pandas .sample(n, random_state=r) picks the same positions for two frames of equal length (used to obtain the "
    "sampled positions from a frame holding only a row id)",
    "row-attributable constraints (checks, uniqueness, nullability, element-wise str dtype, index checks) are evaluated on "
    "the selected rows; column presence, strict, ordered, label uniqueness and physical dtypes on the whole object",
]


def positions(n, opts):
    import pandas as pd

    h, t, k, r = opts.get("head"), opts.get("tail"), opts.get("sample"), opts.get("random_state")
    if h is None and t is None and k is None:
        return None
    P = []
    if h is not None:
        P += list(range(min(h, n)))
    if t is not None:
        P += list(range(max(n - t, 0), n)) if t > 0 else []
    if k is not None:
        P += pd.DataFrame({"_pos": range(n)}).sample(k, random_state=r)["_pos"].tolist()
    return sorted(set(P))


def call_kwargs(opts):
    return {k: opts[k] for k in ("head", "tail", "sample", "random_state") if opts.get(k) is not None}


def evaluate(case):
    ev = Eval()
    spec, table, opts = case["spec"], case["table"], case["opts"]
    n = sp.table_nrows(table)
    P = positions(n, opts)
    rspec = spec
    if spec.get("kind") == "column":
        # a standalone Column validating a frame means: that column, required, nothing else
        rspec = {"kind": "dataframe", "columns": [dict(spec["columns"][0], required=True)], "index": None}
    try:
        ref_sub = refmodel.ref_validate(rspec, table, rows=P, restrict_all=True)
        ref_full = refmodel.ref_validate(rspec, table)
    except refmodel.Undefined as e:
        ev.skipped = "undefined:" + str(e).split(" on ")[0][:40]
        return ev
    schema, data = c01.build(case)
    ix = table.get("index")
    labels = None if ix is None else (list(zip(*[l["cells"] for l in ix["multi"]])) if "multi" in ix else ix["cells"])
    dup_labels = labels is not None and len(set(map(repr, labels))) != len(labels)
    rows = list(zip(*[c["cells"] for c in table["columns"]])) if table["columns"] else []
    dup_rows_in_P = P is not None and len({repr(rows[i]) for i in P}) != len(P) if rows else False
    ev.labels.append("kind=" + spec.get("kind", "dataframe"))
    ev.labels.append("opts=" + ("+".join(k for k in ("head", "tail", "sample") if opts.get(k) is not None) or "none"))
    if dup_labels:
        ev.labels.append("dup-index-labels")
    if dup_rows_in_P:
        ev.labels.append("dup-rows-in-selection")
    partial = P is not None and 0 < len(P) < n
    if partial and ref_sub.accept != ref_full.accept:
        ev.labels.append("verdict-depends-on-selection")
    ev.nontrivial = (partial and ref_sub.accept != ref_full.accept) or ((dup_labels or dup_rows_in_P) and bool(P))
    ev.labels.append("ref=" + ("accept" if ref_sub.accept else "reject"))
    before = fp.snapshot(data)
    kw = call_kwargs(opts)
    outs = {}
    for lazy in (False, True):
        mode = "lazy" if lazy else "eager"
        o = fp.outcome(lambda: schema.validate(data, lazy=lazy, **kw))
        outs[mode] = o
        if o["kind"] in ("internal", "usage"):
            ev.labels.append("internal-outcome")
            continue
        accepted = o["kind"] == "ok"
        if accepted != ref_sub.accept:
            if ref_sub.accept:
                ev.add(f"subsample-rejects-conforming-selection:{mode}", {
                    "opts": opts, "P": P, "pandera": o.get("reasons"), "msg": str(o.get("exc"))[:200]})
            else:
                ev.add(f"subsample-accepts-violating-selection:{mode}", {
                    "opts": opts, "P": P, "dup_labels": dup_labels,
                    "reference_errors": [e.key() for e in ref_sub.errors][:6]})
        elif accepted:
            try:
                got = fp.snapshot(o["value"])
                want = c01.expected_output_snapshot(case, data, ref_sub) if spec.get("kind") != "column" else fp.snapshot(data)
                if got != want:
                    ev.add(f"subsample-result-not-whole-object:{mode}", {"opts": opts, "diff": fp.fp_diff(want, got)})
            except Exception as e:
                ev.add(f"subsample-result-not-comparable:{mode}", repr(e)[:200])
    # determinism with a fixed random_state
    if opts.get("sample") is not None and opts.get("random_state") is not None:
        o2 = fp.outcome(lambda: schema.validate(data, lazy=True, **kw))
        o1 = outs.get("lazy")
        if o1 and o1["kind"] != "internal" and (o1["kind"], o1.get("reasons")) != (o2["kind"], o2.get("reasons")):
            ev.add("same-random_state-different-outcome", {"first": [o1["kind"], o1.get("reasons")],
                                                          "second": [o2["kind"], o2.get("reasons")]})
        elif o1 and o1["kind"] in ("SchemaErrors",) and o2["kind"] == "SchemaErrors":
            try:
                a = o1["exc"].failure_cases.astype(str).values.tolist()
                b = o2["exc"].failure_cases.astype(str).values.tolist()
                if a != b:
                    ev.add("same-random_state-different-report", {"first": a[:4], "second": b[:4]})
            except Exception:
                pass
    # head = len(D) is the same as no option
    if opts.get("head_all_relation"):
        oa = fp.outcome(lambda: schema.validate(data, lazy=True, head=n))
        ob = fp.outcome(lambda: schema.validate(data, lazy=True))
        if oa["kind"] != "internal" and ob["kind"] != "internal" and \
                (oa["kind"], oa.get("reasons")) != (ob["kind"], ob.get("reasons")):
            ev.add("head-all-differs-from-no-option", {"head_all": [oa["kind"], oa.get("reasons")],
                                                     "none": [ob["kind"], ob.get("reasons")], "dup_labels": dup_labels})
    if fp.snapshot(data) != before:
        ev.labels.append("input-mutated")
    return ev


@st.composite
def strategy(draw):
    base = draw(gen.repaired_case(allow_dup_labels=False))
    n = sp.table_nrows(base["table"])
    opt = lambda: st.one_of(st.none(), st.integers(0, n))  # noqa: E731
    which = draw(st.integers(0, 7))
    opts = {"head": None, "tail": None, "sample": None, "random_state": None}
    # (head / tail may exceed the number of rows: all rows are selected then)
    if which in (0, 3, 4, 6):
        opts["head"] = draw(st.integers(0, n + 2))
    if which in (1, 3, 5, 6):
        opts["tail"] = draw(st.integers(0, n + 2))
    if which in (2, 4, 5, 6):
        opts["sample"] = draw(st.integers(0, n))
        opts["random_state"] = draw(st.one_of(st.integers(0, 50), st.integers(0, 50), st.none()))
        if opts["random_state"] is None:
            opts["sample"] = n  # without a seed only "all rows" has a defined selection
    # aim the selection boundary at a violating row: just inside / just outside
    try:
        bad = sorted(refmodel.ref_validate(base["spec"], base["table"]).bad_rows)
    except refmodel.Undefined:
        bad = []
    if bad and draw(st.integers(0, 9)) < 6:
        b = draw(st.sampled_from(bad))
        opts = {"head": None, "tail": None, "sample": None, "random_state": None}
        if draw(st.booleans()):
            opts["head"] = draw(st.sampled_from([b, b + 1]))
        else:
            opts["tail"] = draw(st.sampled_from([n - b - 1, n - b]))
    if n >= 2 and draw(st.integers(0, 5)) == 0:
        # the requested counts add up to (at least) the number of rows while the selections overlap: the union of the
        # selected rows is still a strict subset
        h = draw(st.integers(1, n - 1))
        k = draw(st.integers(n - h, min(n, n - h + 1)))
        opts = {"head": None, "tail": None, "sample": k, "random_state": draw(st.integers(0, 50))}
        opts["head" if draw(st.booleans()) else "tail"] = h
    if draw(st.integers(0, 3)) == 0:
        opts["head_all_relation"] = True
    spec = base["spec"]
    if spec.get("kind", "dataframe") == "dataframe" and draw(st.integers(0, 5)) == 0:
        names = [t["name"] for t in base["table"]["columns"]]
        cols = [c for c in spec["columns"] if not c.get("regex") and c["name"] in names and names.count(c["name"]) == 1]
        if cols:
            spec = {"kind": "column", "columns": [draw(st.sampled_from(cols))]}
    if spec.get("kind") in ("series", "column") and bad and n >= 2 and draw(st.integers(0, 2)) == 0:
        # array-like schemas (SeriesSchema, a standalone Column) draw their sample in a code path of their own: a seeded
        # sample of some of the rows of data with violating rows - the verdict hinges on which rows it draws
        opts = {"head": None, "tail": None, "sample": draw(st.integers(1, n - 1)), "random_state": draw(st.integers(0, 50))}
        if draw(st.integers(0, 3)) == 0:
            opts["head" if draw(st.booleans()) else "tail"] = draw(st.integers(0, 1))
    return {"spec": spec, "table": base["table"], "opts": opts}


# ------------------------------------------------------------------ parsing applies to the whole of D


@st.composite
def strat_parsing(draw):
    """Pairs whose schema parses (coercion, defaults, added / filtered columns, custom parsers) with row-selection options."""
    case = draw(gen.parser_case())
    if case["spec"].get("drop_invalid_rows"):
        case["spec"]["drop_invalid_rows"] = False
    n = sp.table_nrows(case["table"])
    which = draw(st.integers(0, 4))
    opts = {"head": None, "tail": None, "sample": None, "random_state": None}
    if which in (0, 3):
        opts["head"] = draw(st.integers(0, n))
    if which in (1, 3):
        opts["tail"] = draw(st.integers(0, n))
    if which in (2, 4):
        opts["sample"] = draw(st.integers(0, n))
        opts["random_state"] = draw(st.integers(0, 50))
    if which == 4:
        opts["head"] = draw(st.integers(0, n))
    case["opts"] = opts
    return case


def eval_parsing(case):
    """Metamorphic: when validate(D) and validate(D, head/tail/sample) both return, they return the same object - the
    whole of D, parsed - because the options only select which rows the row-level checks look at."""
    ev = Eval()
    spec, table = case["spec"], case["table"]
    schema = sp.pandas_schema(spec)
    series = spec.get("kind") == "series"
    kw = call_kwargs(case["opts"])
    lazy = bool(case.get("lazy"))
    ev.labels += ["parsing:kind=" + spec.get("kind", "dataframe")] + ["parsing:op=" + o for o in sorted(set(case.get("parser_ops", [])))]
    ev.labels += ["parsing:opt=" + k for k in sorted(kw) if k != "random_state"]
    outs = []
    for k in ({}, kw):
        data = sp.pandas_series(table) if series else sp.pandas_frame(table)
        o = fp.outcome(lambda: schema.validate(data, lazy=lazy, **k))
        outs.append(o)
    full, sub = outs
    ev.labels.append("parsing:full=" + full["kind"])
    ev.labels.append("parsing:sub=" + sub["kind"])
    if full["kind"] != "ok" or sub["kind"] != "ok":
        if full["kind"] == "ok" and sub["kind"] in ("SchemaError", "SchemaErrors") and not _has_aggregate_check(spec):
            # every row conforms, so does every selection of rows (checks on a column as a whole apart)
            ev.add("subsample-rejects-what-full-validation-accepts", {"opts": kw, "reasons": sub.get("reasons")})
        return ev
    ev.nontrivial = bool(case.get("parser_ops")) and bool(kw)
    a, b = fp.snapshot(full["value"]), fp.snapshot(sub["value"])
    if a != b:
        cols = None
        try:  # which columns differ (same labels on both sides)
            import pandas as pd

            fa, fb = full["value"], sub["value"]
            if isinstance(fa, pd.DataFrame) and isinstance(fb, pd.DataFrame) and list(fa.columns) == list(fb.columns) \
                    and fa.columns.is_unique and len(fa) == len(fb):
                cols = [str(c) for c in fa.columns if fp.snapshot(fa[c].reset_index(drop=True)) != fp.snapshot(fb[c].reset_index(drop=True))]
                if fp.snapshot(fa.index.to_frame(index=False)) != fp.snapshot(fb.index.to_frame(index=False)):
                    cols.append("<index>")
        except Exception:  # noqa: BLE001
            cols = None
        ev.add("subsampled-validate-returns-differently-parsed-data", {"opts": kw, "ops": case.get("parser_ops"),
                                                                       "differing_columns": cols, "diff": fp.fp_diff(a, b)[:4]})
    return ev


def _has_aggregate_check(spec):
    comps = list(spec.get("columns", []))
    ix = spec.get("index")
    if ix:
        comps += ix["multi"] if "multi" in ix else [ix]
    return any(c["kind"] == "unique_values_eq" for comp in comps for c in comp.get("checks", [])) or \
        any(c["kind"] == "unique_values_eq" for c in spec.get("checks", []))


@known.finding("C20/pandas-column-level-parsers-skip-unselected-rows")
def _kf_column_parsers(family, case, disc):
    if family != "parsing" or disc.kind != "subsampled-validate-returns-differently-parsed-data":
        return False
    cols = (disc.detail or {}).get("differing_columns")
    with_parsers = {str(c["name"]) for c in case["spec"]["columns"] if c.get("parsers")}
    return bool(cols) and set(cols) <= with_parsers


@known.finding("C20/pandas-subsample-dedups-by-index-label")
def _kf_label_dedup(family, case, disc):
    ix = case["table"].get("index")
    if ix is None:
        return False
    labels = list(zip(*[l["cells"] for l in ix["multi"]])) if "multi" in ix else ix["cells"]
    dup = len(set(map(repr, labels))) != len(labels)
    return dup and disc.kind.split(":")[0] in ("subsample-accepts-violating-selection", "head-all-differs-from-no-option",
                                               "subsample-rejects-conforming-selection")


FAMILIES = [
    Family("pandas", evaluate, strategy=strategy, n_quick=1200, n_thorough=5000, shards_quick=4, shards_thorough=16,
           required_labels=["dup-index-labels", "verdict-depends-on-selection", "opts=sample", "kind=series", "kind=column"]),
]

from . import plx  # noqa: E402

FAMILIES.append(
    Family("parsing", eval_parsing, strategy=strat_parsing, n_quick=700, n_thorough=3000, shards_quick=3,
           shards_thorough=12, required_labels=["parsing:op=default", "parsing:op=coerce", "parsing:opt=head",
                                                "parsing:opt=sample", "parsing:sub=ok"]))

FAMILIES.append(
    Family("polars", plx.eval_c20, strategy=plx.strat_c20, n_quick=700, n_thorough=3000, shards_quick=3, shards_thorough=12,
           required_labels=["container=lf_full", "verdict-depends-on-selection", "opts=head", "opts=tail"]))


# ---------------------------------------------------------------------- polars_unseeded family


@st.composite
def strat_polars_unseeded(draw):
    n = draw(st.integers(2, 6))
    return {"values": [draw(st.sampled_from([-3, -2, -1, 1, 2, 3])) for _ in range(n)], "sample": draw(st.integers(0, n)),
            "container": draw(st.sampled_from(["df", "df", "lf"])), "three_checks": draw(st.booleans())}


def eval_polars_unseeded(case):
    """sample=k without a random_state on polars: whichever rows are drawn, ONE selection is validated.  Every row fails
    exactly one of two complementary checks (> 0, < 0), so a lazy run must report exactly k failing rows - a selection that
    is drawn again for every check reports any number between 0 and 2k."""
    import polars as pl
    import pandera.polars as pap

    ev = Eval()
    vals, k = case["values"], case["sample"]
    checks = [pap.Check.gt(0), pap.Check.lt(0)] + ([pap.Check.ne(0)] if case["three_checks"] else [])
    schema = pap.DataFrameSchema({"a": pap.Column(pl.Int64, checks)})
    frame = pl.DataFrame({"a": vals})
    if case["container"] == "lf":
        frame = frame.lazy()
    ev.labels += ["container=" + case["container"], "sample=" + ("0" if k == 0 else "all" if k == len(vals) else "some")]
    ev.nontrivial = 0 < k < len(vals) and len({v > 0 for v in vals}) == 2
    from pandera.config import ValidationDepth, config_context

    with config_context(validation_depth=ValidationDepth.SCHEMA_AND_DATA):
        o = fp.outcome(lambda: schema.validate(frame, lazy=True, sample=k))
    if o["kind"] in ("internal", "usage"):
        ev.add(f"internal-exception:{o.get('exc_type')}@{o.get('where')}", {"msg": o.get("msg", "")[:200], "sample": k})
        return ev
    if k == 0:
        if o["kind"] != "ok":
            ev.add("empty-selection-rejected", {"reasons": o.get("reasons")})
        return ev
    if o["kind"] != "SchemaErrors":
        ev.add("selection-with-failing-rows-accepted", {"sample": k, "values": vals})
        return ev
    fc = o["exc"].failure_cases
    got = fc.filter(pl.col("check").is_in(["greater_than(0)", "less_than(0)"])).height
    if got != k:
        ev.add("unseeded-sample-not-one-selection", {"sample": k, "failing_rows_reported": got, "values": vals})
    return ev


FAMILIES.append(
    Family("polars_unseeded", eval_polars_unseeded, strategy=strat_polars_unseeded, n_quick=150, n_thorough=1000, shards_quick=2,
           shards_thorough=4, required_labels=["container=lf", "sample=some", "sample=all"]))


def selftest():
    refmodel.selftest()
