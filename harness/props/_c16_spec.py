"""C16: ModelSpec -> (a) class source text, (b) the expected schema by ordinary class semantics.

ModelSpec (JSON):
  {"backend": "pandas"|"polars",
   "classes": [{"name": "M0", "bases": [idx...],
                "fields":  [{"attr","ann": tag|None,"style": plain|series|index|kw,"optional": bool,"field": None|{Field kwargs}}],
                "config":  None | {"style": plain|parent|base, "opts": {...}, "extras": {...}},
                "methods": [{"meth","kind": check|dfcheck|parser|dfparser|plain, "targets":[...], "regex", "name", "op","k","kw":{}}]}]}
  targets: "x" / 2020 (public name), {"ref": attr} (FieldInfo of the same class body), {"pref": [clsidx, attr]} (Parent.attr)

The expected schema is computed *only* from the spec:
  * attribute lookup along the C3 MRO (most derived definition wins) for fields, Field objects, methods, Config options;
  * annotations merged base-first (typing.get_type_hints), so a redefined field keeps the position of its first definition;
  * re-annotating a field without assigning a Field gives it a fresh default Field (docs: inheritance "completely
    overrides previous settings");
  * public name = alias if given else attribute name; Optional[...] => required=False;
  * a @check / @parser method applies to the public names it lists (regex=True: re.match against the model's field names).
"""
from __future__ import annotations

import re

from ..core import HarnessError

PD_DT = {
    "int": dict(ann="int", kind="int", phys="int64"),
    "float": dict(ann="float", kind="float", phys="float64"),
    "str": dict(ann="str", kind="str", phys="object"),
    "bool": dict(ann="bool", kind="bool", phys="bool"),
    "Int64": dict(ann="pd.Int64Dtype", kind="int", phys="Int64"),
    "int32": dict(ann="pa.Int32", kind="int", phys="int32"),
    "float32": dict(ann="np.float32", kind="float", phys="float32"),
    "dttz": dict(ann='Annotated[pd.DatetimeTZDtype, "ns", "UTC"]', obj='pd.DatetimeTZDtype("ns", "UTC")', kind="dt",
                 phys="dttz"),
}
PL_DT = {
    "int": dict(ann="int", kind="int", phys="Int64"),
    "float": dict(ann="float", kind="float", phys="Float64"),
    "str": dict(ann="str", kind="str", phys="String"),
    "bool": dict(ann="bool", kind="bool", phys="Boolean"),
    "pl.Int64": dict(ann="pl.Int64", kind="int", phys="Int64"),
    "pl.Int32": dict(ann="pl.Int32", kind="int", phys="Int32"),
    "pl.Float32": dict(ann="pl.Float32", kind="float", phys="Float32"),
    "pl.Utf8": dict(ann="pl.Utf8", kind="str", phys="String"),
}


def dt_table(backend):
    return PD_DT if backend == "pandas" else PL_DT


CHECK_METHOD = {
    "eq": "equal_to", "ne": "not_equal_to", "gt": "greater_than", "ge": "greater_than_or_equal_to",
    "lt": "less_than", "le": "less_than_or_equal_to", "in_range": "in_range", "isin": "isin", "notin": "notin",
    "str_contains": "str_contains", "str_endswith": "str_endswith", "str_length": "str_length",
    "str_matches": "str_matches", "str_startswith": "str_startswith", "c16_le": "c16_le",
}
FIELD_OPTION_KEYS = ("nullable", "unique", "coerce", "regex", "title", "description", "default", "metadata")
CONFIG_DEFAULTS = {
    "dtype": None, "coerce": False, "strict": False, "ordered": False, "unique": None, "title": None,
    "description": None, "unique_column_names": False, "add_missing_columns": False, "drop_invalid_rows": False,
    "metadata": None,
}
MULTIINDEX_DEFAULTS = {"multiindex_name": None, "multiindex_coerce": False, "multiindex_unique": None,
                       "multiindex_strict": False, "multiindex_ordered": True}


# --------------------------------------------------------------------------- MRO


def mro(classes, i):
    """C3 linearisation of class i (indices, most derived first), computed by Python itself."""
    made = {}

    def mk(j):
        if j not in made:
            made[j] = type(f"X{j}", tuple(mk(b) for b in classes[j]["bases"]) or (object,), {"_i": j})
        return made[j]

    try:
        return [c._i for c in mk(i).__mro__ if c is not object]
    except TypeError as e:  # generator produced an inconsistent hierarchy
        raise HarnessError(f"C16 generator: invalid hierarchy {[(c['name'], c['bases']) for c in classes]}: {e}")


def public(attr, fk):
    a = (fk or {}).get("alias")
    return attr if a is None else a


def effective(spec, i):
    """What class i *is* by ordinary class semantics."""
    classes = spec["classes"]
    order = list(reversed(mro(classes, i)))  # root first
    ann, fld, meth = {}, {}, {}
    opts, extras = {}, {}
    own_name = None
    for c in order:
        cs = classes[c]
        for f in cs["fields"]:
            if f["ann"] is not None:
                ann[f["attr"]] = {"ann": f["ann"], "style": f["style"], "optional": bool(f.get("optional")), "cls": c}
                fld[f["attr"]] = (dict(f["field"] or {}), c)
            elif f["field"] is not None:
                fld[f["attr"]] = (dict(f["field"]), c)
        for m in cs["methods"]:
            meth[m["meth"]] = (m, c)
        cfg = cs.get("config")
        if cfg:
            opts.update(cfg.get("opts") or {})
            for k, v in (cfg.get("extras") or {}).items():
                extras[k] = v
    cfg = classes[i].get("config")
    if cfg and "name" in (cfg.get("opts") or {}):
        own_name = cfg["opts"]["name"]
    fields = []
    for attr, a in ann.items():
        if attr not in fld:
            raise HarnessError(f"C16 resolver: annotated field {attr} without Field")
        fk, fcls = fld[attr]
        fields.append({"attr": attr, "name": public(attr, fk), "ann": a["ann"], "style": a["style"],
                       "optional": a["optional"], "field": fk, "ann_cls": a["cls"], "field_cls": fcls})
    missing = [a for a in fld if a not in ann]
    return {"fields": fields, "methods": meth, "opts": opts, "extras": extras, "own_name": own_name,
            "missing_annotations": missing, "mro": list(reversed(order))}


def target_names(spec, cidx, targets):
    """Public names a decorator's positional arguments denote (evaluated where the method is defined)."""
    out = []
    for t in targets:
        if isinstance(t, dict) and "ref" in t:
            # FieldInfo object assigned in the same class body: its own alias / attribute name
            f = next((f for f in spec["classes"][cidx]["fields"] if f["attr"] == t["ref"] and f["field"] is not None), None)
            if f is None:
                raise HarnessError(f"C16 generator: ref to {t['ref']} without Field in class {cidx}")
            nm = public(f["attr"], f["field"])
        elif isinstance(t, dict) and "pref" in t:
            pc, attr = t["pref"]
            eff = effective(spec, pc)
            f = next((f for f in eff["fields"] if f["attr"] == attr), None)
            if f is None:
                raise HarnessError(f"C16 generator: pref to unknown {attr}")
            nm = f["name"]
        else:
            nm = t
        if nm not in out:
            out.append(nm)
    return out


def expected(spec, i):
    """Expected schema description of class i, or {"error": "SchemaInitError", "why": ...}."""
    eff = effective(spec, i)
    backend = spec["backend"]
    DT = dt_table(backend)
    if eff["missing_annotations"]:
        return {"error": "SchemaInitError", "why": "missing annotations"}
    names = [f["name"] for f in eff["fields"]]
    if len(set(map(repr, names))) != len(names):
        raise HarnessError(f"C16 generator: duplicate public names {names}")
    col_checks = {repr(n): [] for n in names}
    col_parsers = {repr(n): [] for n in names}
    df_checks, df_parsers = [], []
    for mname, (m, c) in eff["methods"].items():
        kind = m["kind"]
        tag = f"{spec['classes'][c]['name']}.{mname}"
        if kind in ("check", "parser"):
            tnames = target_names(spec, c, m["targets"])
            if m.get("regex"):
                matched = []
                for pat in tnames:
                    for n in names:
                        if isinstance(n, str) and re.compile(pat).match(n) and n not in matched:
                            matched.append(n)
            else:
                matched = tnames
            for n in matched:
                if repr(n) not in col_checks:
                    return {"error": "SchemaInitError", "why": f"{kind} {mname} targets non-existing field {n!r}",
                            "tag": tag}
                (col_checks if kind == "check" else col_parsers)[repr(n)].append({"m": m, "tag": tag})
        elif kind == "dfcheck":
            df_checks.append({"m": m, "tag": tag})
        elif kind == "dfparser":
            df_parsers.append({"m": m, "tag": tag})
    cols, idx = [], []
    for f in eff["fields"]:
        d = DT[f["ann"]]
        fk = f["field"]
        if (f["style"] == "kw") != bool(fk.get("dtype_kwargs")):
            # a diamond / mixin combined the bare `pd.DatetimeTZDtype` annotation of one class with the Field of
            # another (or vice versa): not a valid dtype declaration, outside the property's domain
            return {"error": "outside-domain", "why": "dtype_kwargs and parametrised annotation come from different classes"}
        ent = {"name": f["name"], "attr": f["attr"], "dt": f["ann"], "kind": d["kind"], "phys": d["phys"], "field": fk,
               "required": not f["optional"], "checks": col_checks[repr(f["name"])],
               "parsers": col_parsers[repr(f["name"])], "style": f["style"]}
        if f["style"] == "index":
            if f["optional"]:
                return {"error": "SchemaInitError", "why": "Optional index"}
            idx.append(ent)
        else:
            if fk.get("check_name") is False:
                return {"error": "SchemaInitError", "why": "check_name=False on a column"}
            cols.append(ent)
    opts = dict(CONFIG_DEFAULTS)
    mi = dict(MULTIINDEX_DEFAULTS)
    for k, v in eff["opts"].items():
        if k in opts:
            opts[k] = v
        elif k in mi:
            mi[k] = v
    return {"columns": cols, "index": idx, "opts": opts, "multiindex": mi, "extras": eff["extras"],
            "df_checks": df_checks, "df_parsers": df_parsers, "own_name": eff["own_name"], "mro": eff["mro"]}


# ------------------------------------------------------------------------ rendering


def _lit(v):
    """JSON value -> Python literal ({"$tuple": [...]}, {"$ellipsis": true} for Config extras)."""
    if isinstance(v, dict):
        if "$tuple" in v:
            return "(" + "".join(_lit(x) + ", " for x in v["$tuple"]) + ")"
        if "$ellipsis" in v:
            return "..."
        return "{" + ", ".join(f"{_lit(k)}: {_lit(x)}" for k, x in v.items()) + "}"
    if isinstance(v, list):
        return "[" + ", ".join(_lit(x) for x in v) + "]"
    return repr(v)


def _ann_src(backend, f):
    DT = dt_table(backend)
    d = DT[f["ann"]]
    style = f["style"]
    if style == "kw":
        if f["ann"] != "dttz":
            raise HarnessError("style kw only for dttz")
        a = "pd.DatetimeTZDtype"
    elif style == "plain":
        a = d["ann"]
    elif style == "series":
        a = f"Series[{d['ann']}]"
    elif style == "index":
        a = f"Index[{d['ann']}]"
    else:
        raise HarnessError(f"unknown style {style}")
    if not f.get("optional"):
        return a
    sp_ = f.get("opt_spelling", "Optional")
    return f"Union[{a}, None]" if sp_ == "Union" else f"{a} | None" if sp_ == "pep604" else f"Optional[{a}]"


def _target_src(spec, t):
    if isinstance(t, dict) and "ref" in t:
        return t["ref"]
    if isinstance(t, dict) and "pref" in t:
        return f"{spec['classes'][t['pref'][0]]['name']}.{t['pref'][1]}"
    return repr(t)


def render_class(spec, i):
    backend = spec["backend"]
    pa = "pa" if backend == "pandas" else "pap"
    cs = spec["classes"][i]
    bases = ", ".join(spec["classes"][b]["name"] for b in cs["bases"]) or f"{pa}.DataFrameModel"
    L = [f"class {cs['name']}({bases}):"]
    for f in cs["fields"]:
        fk = f["field"]
        fsrc = None if fk is None else f"{pa}.Field(" + ", ".join(f"{k}={_lit(v)}" for k, v in fk.items()) + ")"
        if f["ann"] is None:
            L.append(f"    {f['attr']} = {fsrc}")
        elif fsrc is None:
            L.append(f"    {f['attr']}: {_ann_src(backend, f)}")
        else:
            L.append(f"    {f['attr']}: {_ann_src(backend, f)} = {fsrc}")
    cfg = cs.get("config")
    if cfg:
        style = cfg.get("style", "plain")
        if style == "parent" and cs["bases"]:
            head = f"    class Config({spec['classes'][cs['bases'][0]]['name']}.Config):"
        elif style == "base":
            head = "    class Config(_BaseConfig):"
        else:
            head = "    class Config:"
        L.append(head)
        body = [f"        {k} = {_cfg_lit(backend, k, v)}" for k, v in (cfg.get("opts") or {}).items()]
        body += [f"        {k} = {_lit(v)}" for k, v in (cfg.get("extras") or {}).items()]
        L += body or ["        pass"]
    for m in cs["methods"]:
        kind, tag = m["kind"], f"{cs['name']}.{m['meth']}"
        kw = dict(m.get("kw") or {})
        if m.get("name") is not None:
            kw = {"name": m["name"], **kw}
        kws = "".join(f", {k}={_lit(v)}" for k, v in kw.items())
        if kind in ("check", "parser"):
            args = ", ".join(_target_src(spec, t) for t in m["targets"])
            if m.get("regex"):
                kws = ", regex=True" + kws
            L.append(f"    @{pa}.{kind}({args}{kws})")
        elif kind == "dfcheck":
            L.append(f"    @{pa}.dataframe_check" + (f"({kws[2:]})" if kws else ""))
        elif kind == "dfparser":
            L.append(f"    @{pa}.dataframe_parser")
        L.append(f"    def {m['meth']}(cls, x):")
        if kind == "check":
            fn = "col" if backend == "pandas" else "pl_col"
            L.append(f"        return _rt.{fn}(cls, {tag!r}, x, {m['op']!r}, {m['k']!r})")
        elif kind == "dfcheck":
            fn = "dfc" if backend == "pandas" else "pl_dfc"
            L.append(f"        return _rt.{fn}(cls, {tag!r}, x, {m['op']!r}, {m['k']!r})")
        elif kind == "parser":
            L.append(f"        return _rt.par(cls, {tag!r}, x, {m['k']!r})")
        elif kind == "dfparser":
            L.append(f"        return _rt.dfp(cls, {tag!r}, x, {m['k']!r})")
        else:
            L.append("        return True")
    if len(L) == 1:
        L.append("    pass")
    return "\n".join(L) + "\n"


def _cfg_lit(backend, k, v):
    if k == "dtype" and v is not None:
        return dt_table(backend)[v]["ann"]
    return _lit(v)


PRELUDE = {
    "pandas": ("import numpy as np, pandas as pd, pandera as pa\n"
               "from typing import Optional, Annotated, Union\n"
               "from pandera.typing import Series, Index\n"
               "from pandera.api.pandas.model_config import BaseConfig as _BaseConfig\n"
               "from harness.props import _c16_rt as _rt\n"),
    "polars": ("import polars as pl, pandera as pa, pandera.polars as pap\n"
               "from typing import Optional, Union\n"
               "from pandera.typing.polars import Series\n"
               "from pandera.api.polars.model_config import BaseConfig as _BaseConfig\n"
               "from harness.props import _c16_rt as _rt\n"),
}


def render(spec):
    return PRELUDE[spec["backend"]] + "\n" + "\n".join(render_class(spec, i) for i in range(len(spec["classes"])))


# ------------------------------------------------------------ expected object-API schema


def _mods(backend):
    import pandera as pa

    if backend == "pandas":
        return pa, pa
    import pandera.polars as pap

    return pap, pa


def _dtype_obj(backend, tag, ns):
    d = dt_table(backend)[tag]
    return eval(d.get("obj", d["ann"]), ns)  # noqa: S307 - fixed vocabulary


def field_checks(fk):
    import pandera as pa

    ckw = {"ignore_na": fk.get("ignore_na", True), "raise_warning": fk.get("raise_warning", False),
           "n_failure_cases": fk.get("n_failure_cases")}
    out = []
    for key, meth in CHECK_METHOD.items():
        v = fk.get(key)
        if v is None:
            continue
        ctor = getattr(pa.Check, meth)
        out.append(ctor(**v, **ckw) if isinstance(v, dict) else ctor(v, **ckw))
    return out


def _custom_check(backend, ent, target_cls):
    import pandera as pa
    from . import _c16_rt as rt

    m, tag = ent["m"], ent["tag"]
    if m["kind"] == "check":
        f = rt.col if backend == "pandas" else rt.pl_col
    else:
        f = rt.dfc if backend == "pandas" else rt.pl_dfc
    fn = lambda x, _f=f, _t=tag, _op=m["op"], _k=m["k"]: _f(target_cls, _t, x, _op, _k)  # noqa: E731
    kw = dict(m.get("kw") or {})
    return pa.Check(fn, name=m.get("name") or m["meth"], **kw)


def _custom_parser(ent, target_cls):
    import pandera as pa
    from . import _c16_rt as rt

    m, tag = ent["m"], ent["tag"]
    f = rt.par if m["kind"] == "parser" else rt.dfp
    fn = lambda x, _f=f, _t=tag, _k=m["k"]: _f(target_cls, _t, x, _k)  # noqa: E731
    kw = dict(m.get("kw") or {})
    return pa.Parser(fn, name=m.get("name") or m["meth"], **kw)


def extras_checks(extras):
    import pandera as pa

    out = []
    for name, v in extras.items():
        if isinstance(v, dict) and "$tuple" in v:
            out.append(getattr(pa.Check, name)(*v["$tuple"]))
        elif isinstance(v, dict) and "$ellipsis" in v:
            out.append(getattr(pa.Check, name)())
        elif isinstance(v, dict):
            out.append(getattr(pa.Check, name)(**v))
        else:
            out.append(getattr(pa.Check, name)(v))
    return out


def build_expected(spec, exp, ns, target_cls, name):
    """The object-API schema with 'the same columns, checks and options'."""
    backend = spec["backend"]
    mod, pa = _mods(backend)
    cols = {}
    for c in exp["columns"]:
        fk = c["field"]
        dtype = _dtype_obj(backend, c["dt"], ns)
        checks = field_checks(fk) + [_custom_check(backend, e, target_cls) for e in c["checks"]]
        kw = dict(nullable=fk.get("nullable", False), unique=fk.get("unique", False), coerce=fk.get("coerce", False),
                  regex=fk.get("regex", False), required=c["required"], name=c["name"], title=fk.get("title"),
                  description=fk.get("description"), default=fk.get("default"), metadata=fk.get("metadata"))
        if backend == "pandas":
            kw["parsers"] = [_custom_parser(e, target_cls) for e in c["parsers"]]
        cols[c["name"]] = mod.Column(dtype, checks=checks, **kw)
    index = None
    if exp["index"]:
        single = len(exp["index"]) == 1
        comps = []
        for c in exp["index"]:
            fk = c["field"]
            cn = fk.get("check_name")
            nm = c["name"]
            if cn is False or (cn is None and single):
                nm = None
            comps.append(pa.Index(_dtype_obj(backend, c["dt"], ns),
                                  checks=field_checks(fk) + [_custom_check(backend, e, target_cls) for e in c["checks"]],
                                  nullable=fk.get("nullable", False), unique=fk.get("unique", False),
                                  coerce=fk.get("coerce", False), name=nm, title=fk.get("title"),
                                  description=fk.get("description"), default=fk.get("default")))
        if single:
            index = comps[0]
        else:
            mi = exp["multiindex"]
            index = pa.MultiIndex(comps, coerce=mi["multiindex_coerce"], strict=mi["multiindex_strict"],
                                  name=mi["multiindex_name"], ordered=mi["multiindex_ordered"],
                                  unique=mi["multiindex_unique"])
    o = exp["opts"]
    checks = [_custom_check(backend, e, target_cls) for e in exp["df_checks"]] + extras_checks(exp["extras"])
    kw = dict(checks=checks, dtype=None if o["dtype"] is None else _dtype_obj(backend, o["dtype"], ns),
              coerce=o["coerce"], strict=o["strict"], name=name, ordered=o["ordered"], unique=o["unique"],
              title=o["title"], description=o["description"], unique_column_names=o["unique_column_names"],
              add_missing_columns=o["add_missing_columns"], drop_invalid_rows=o["drop_invalid_rows"],
              metadata=o["metadata"])
    if backend == "pandas":
        kw["index"] = index
        kw["parsers"] = [_custom_parser(e, target_cls) for e in exp["df_parsers"]]
    return mod.DataFrameSchema(cols, **kw)
