"""C10, polars engine: dtype specs, own element classifier (see _c10_pandas for the vocabulary).

polars columns are typed, so the "mixed value pool" is a typed source column (String / Int64 / Float64 /
Boolean) whose elements are convertible, unconvertible or null with respect to the target dtype.  polars has no
coerce_value: grey elements are judged by a singleton strict coercion through the same entry point.
"""
from __future__ import annotations

import datetime
import decimal
import math
import re

from . import _c10_values as V
from ._c10_pandas import BAD_STR, EXACT, FAIL, FLOAT_MAX, GREY, INT_BOUNDS, NULL_OK, _INT_RE, _NUMSTR, _float_exact

PL_INTS = ["Int8", "Int16", "Int32", "Int64", "UInt8", "UInt16", "UInt32", "UInt64"]
PL_CATS = [["a", "b"], ["1", "a", "abc"], ["x"]]
_DT_RE = re.compile(r"^\d{4}-\d{2}-\d{2}T\d{2}:\d{2}:\d{2}$")
_DATE_RE = re.compile(r"^\d{4}-\d{2}-\d{2}$")

PHYS = ["String", "Int64", "Float64", "Boolean"]


def all_specs():
    out = [{"k": "int", "name": n} for n in PL_INTS]
    out += [{"k": "float", "name": "Float32"}, {"k": "float", "name": "Float64"}]
    out += [{"k": "bool", "name": "Bool"}, {"k": "string", "name": "String"}, {"k": "binary", "name": "Binary"},
            {"k": "date", "name": "Date"}, {"k": "time", "name": "Time"}]
    out += [{"k": "datetime", "name": "DateTime[us]", "tz": None, "unit": "us"},
            {"k": "datetime", "name": "DateTime[ns]", "tz": None, "unit": "ns"},
            {"k": "datetime", "name": "DateTime[us,UTC]", "tz": "UTC", "unit": "us"}]
    out += [{"k": "duration", "name": "Timedelta[us]", "unit": "us"}, {"k": "duration", "name": "Timedelta[ms]", "unit": "ms"}]
    out += [{"k": "decimal", "name": "Decimal(5,2)", "p": 5, "s": 2}, {"k": "decimal", "name": "Decimal(10,0)", "p": 10, "s": 0}]
    out += [{"k": "categorical", "name": "Categorical"}]
    for i, c in enumerate(PL_CATS):
        out.append({"k": "enum", "name": f"Enum{i}", "cats": c})
        out.append({"k": "category", "name": f"Category{i}", "cats": c})
    return out


def build_dtype(spec):
    from pandera.engines import polars_engine as ple

    k = spec["k"]
    if k in ("int", "float", "bool", "string", "binary", "date", "time"):
        return getattr(ple, spec["name"])()
    if k == "datetime":
        return ple.DateTime(time_zone=spec["tz"], time_unit=spec["unit"])
    if k == "duration":
        return ple.Timedelta(time_unit=spec["unit"])
    if k == "decimal":
        return ple.Decimal(spec["p"], spec["s"])
    if k == "categorical":
        return ple.Categorical()
    if k == "enum":
        return ple.Enum(list(spec["cats"]))
    if k == "category":
        return ple.Category(list(spec["cats"]))
    raise ValueError(spec)


def pl_phys(name):
    import polars as pl

    return {"String": pl.String, "Int64": pl.Int64, "Float64": pl.Float64, "Boolean": pl.Boolean}[name]


def own(spec, phys, v):
    if v is None:
        return (NULL_OK, None)
    k = spec["k"]
    if isinstance(v, float) and math.isnan(v):
        return (GREY, None)  # NaN is a value, not a null, in polars
    if k == "int":
        lo, hi = INT_BOUNDS[spec["name"].lower()]
        if phys == "Boolean":
            return (EXACT, int(v))
        if phys == "Int64":
            return (EXACT, v) if lo <= v <= hi else (FAIL, None)
        if phys == "Float64":
            if not math.isinf(v) and v == int(v) and abs(v) < 2 ** 53 and lo <= int(v) <= hi:
                return (EXACT, int(v))
            return (GREY, None)
        if phys == "String":
            if v in BAD_STR:
                return (FAIL, None)
            if _INT_RE.match(v) and lo <= int(v) <= hi:
                return (EXACT, int(v))
            return (GREY, None)
    if k == "float":
        fname = spec["name"].lower()
        if phys == "Boolean":
            return (EXACT, float(v))
        if phys in ("Int64", "Float64"):
            return (EXACT, float(v)) if _float_exact(fname, v) else (GREY, None)
        if phys == "String":
            if v in BAD_STR:
                return (FAIL, None)
            if v in _NUMSTR and _float_exact(fname, _NUMSTR[v]):
                return (EXACT, _NUMSTR[v])
            return (GREY, None)
    if k == "bool":
        if phys == "Boolean":
            return (EXACT, v)
        if phys == "Int64" and v in (0, 1):
            return (EXACT, bool(v))
        return (GREY, None)
    if k == "string":
        if phys == "String":
            return (EXACT, v)
        if phys == "Int64":
            return (EXACT, str(v))
        if phys == "Boolean":
            return (EXACT, "true" if v else "false")
        return (GREY, None)
    if k == "binary":
        if phys == "String":
            return (EXACT, v.encode())
        return (GREY, None)
    if k == "date":
        if phys == "String":
            if v in BAD_STR:
                return (FAIL, None)
            if _DATE_RE.match(v):
                try:
                    return (EXACT, datetime.date.fromisoformat(v))
                except ValueError:
                    return (FAIL, None)
        return (GREY, None)
    if k == "datetime":
        if phys == "String":
            if v in BAD_STR:
                return (FAIL, None)
            if _DT_RE.match(v) and spec["tz"] is None:
                try:
                    return (EXACT, datetime.datetime.fromisoformat(v))
                except ValueError:
                    return (FAIL, None)
        return (GREY, None)
    if k in ("time",):
        if phys == "String" and v in BAD_STR:
            return (FAIL, None)
        return (GREY, None)
    if k == "duration":
        if phys == "String" and v in BAD_STR:
            return (FAIL, None)
        if phys == "Int64" and abs(v) < 2 ** 40:
            return (EXACT, datetime.timedelta(**{"microseconds" if spec["unit"] == "us" else "milliseconds": v}))
        return (GREY, None)
    if k == "decimal":
        p, s = spec["p"], spec["s"]
        d = None
        if phys == "Int64":
            d = decimal.Decimal(v)
        elif phys == "Boolean":
            return (GREY, None)
        elif phys == "String":
            if v in BAD_STR:
                return (FAIL, None)
            if v in _NUMSTR:
                d = decimal.Decimal(v)
        if d is None:
            return (GREY, None)
        sign, digits, exp = d.as_tuple()
        scale = max(0, -exp)
        int_digits = max(1, len(digits) + exp) if d != 0 else 1
        # pandera casts through Float64 first: stay well inside the exactly representable range
        if scale <= s and int_digits + s <= p and int_digits <= 9:
            return (EXACT, d)
        if int_digits + s > p and int_digits <= 15:
            return (FAIL, None)  # the integer part does not fit into Decimal(p, s)
        return (GREY, None)
    if k == "categorical":
        if phys == "String":
            return (EXACT, v)
        return (GREY, None)
    if k in ("enum", "category"):
        if phys == "String":
            return (EXACT, v) if v in spec["cats"] else (FAIL, None)
        return (GREY, None)
    return (GREY, None)


def same_value(spec, got, exp):
    if got is None:
        return False
    try:
        if spec["k"] == "float":
            return isinstance(got, float) and got == exp
        if spec["k"] == "int":
            return isinstance(got, int) and not isinstance(got, bool) and got == exp
        if spec["k"] == "decimal":
            return isinstance(got, decimal.Decimal) and got == exp
        if spec["k"] == "datetime":
            return isinstance(got, datetime.datetime) and got.replace(tzinfo=None) == exp
        return type(got) is type(exp) and got == exp
    except Exception:
        return False


def vkey(v):
    """value key for polars python values."""
    if v is None:
        return "null"
    if isinstance(v, float) and math.isnan(v):
        return "n:nan"
    return V.key(v)
