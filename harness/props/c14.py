"""C14 - an inferred schema accepts the data it was inferred from.

For a generated pandas DataFrame / Series D (JSON TableSpec, see _c14_build.py):

  S = infer_schema(D)                       must not raise
  S describes D                             column labels (order), index / series names
  S.validate(D)                             accepts, returns the same values (and dtypes of typed columns)
  every inferred ge / le bound is tight     bound == min / max of the non-null data, (a) under exact Python
                                            comparison of the JSON cells and (b) under pandas' own ==
  inferred isin of a categorical            == its categories
  from_yaml(to_yaml(S)), from_json(to_json(S))   dump / load do not raise, accept D, same values

Families
  grid    exhaustive enumeration: every column kind x cell pattern (empty, all-null, extremes, with null,
          sub-second / tz / unit variants) x container (frame+range index, frame+named index, series, index level)
  frame   Hypothesis: frames of 0-4 columns x 0-5 rows, Index / MultiIndex of the same kinds, labels str/int
  series  Hypothesis: single Series (infer_series_schema), named / unnamed, any index
"""
from __future__ import annotations

import math

from hypothesis import strategies as st

from .. import fp, known
from ..core import Eval, Family, HarnessError
from . import _c14_build as B

PROPERTY = "C14"
LEVEL = "exploration"
RULE = (
    "grid enumerates kind x cell-pattern x container completely (exhaustive); frame/series are Hypothesis-generated "
    "TableSpecs (0-4 columns, 0-5 rows, boundary-biased cells: dtype limits, +-2**53+-1, inf, NaN, NaT, sub-second and "
    "tz-aware timestamps, empty / all-null columns, unused categories, Index/MultiIndex levels of the same kinds, str/int "
    "labels). Non-trivial: the object has a null cell, an extreme value (|int| >= 2**53 or a dtype limit, inf, "
    "subnormal, sub-second / tz-aware / non-ns timestamp, near-limit timedelta, complex) or a non-default index. "
    "Distinct = hash of the canonical JSON case."
)
ASSUMPTIONS = [
    "pandas constructors build the frame described by the JSON case (builder self-checks every column dtype)",
    "exact min/max are computed in Python over the JSON cells (int / float / integer nanoseconds); float32 rounding via numpy",
    "'unchanged values' = cell-wise == with null==null and bool-ness preserved; dtype must be unchanged for non-object "
    "columns in the direct leg; after YAML/JSON only verdict and values are compared (property says 'same verdict')",
    "duplicate column labels are outside the domain (a DataFrameSchema is a dict keyed by label); JSON leg skipped for "
    "non-string column labels (JSON objects cannot carry them)",
    "object columns hold only None/bool/int/float/str cells",
]

GE, LE = "greater_than_or_equal_to", "less_than_or_equal_to"


# ------------------------------------------------------------------------ generators

INT_POOL = [0, 1, -1, 2, 5, -5, 100, 2**53, 2**53 + 1, 2**53 - 1, -(2**53), -(2**53) - 1, 2**53 + 3, 2**62 + 1,
            2**63 - 1, -(2**63), 2**63 - 2, 2**64 - 1, 2**64 - 2, 2**63, 2**31 - 1, -(2**31), 127, -128, 255, 32767, 65535]
FLOAT_POOL = [0.0, -0.0, 1.0, -1.0, 1.5, 0.1, -2.5, 3.0, float(2**53), float(2**53 + 2), -float(2**53), 1e308, -1e308,
              5e-324, 2.2250738585072014e-308, float(2**63), float(2**64), 16777217.0, 1e-7, "inf", "-inf"]
Y2020 = 1577836800 * 10**9
DT_POOL = [0, 1, -1, 10**9, Y2020, Y2020 + 1, Y2020 + 500_000_000, Y2020 + 123_456_000, Y2020 - 1, Y2020 + 86400 * 10**9,
           -(10**18), B.TS_MIN, B.TS_MAX, B.TS_MAX - 1, 253370764800 * 10**9 // 100, 951782400 * 10**9, 951782400 * 10**9 + 999_999_999]
TD_POOL = [0, 1, -1, 10**9, -(10**9), 86400 * 10**9, 3600 * 10**9 + 1, B.TS_MIN, B.TS_MAX, 500_000_000, 10**6]
STR_POOL = ["", "a", "b", "A", "ab", " ", "1", "1.5", "nan", "None", "é", "x y", "True", "日本", "a\nb", "2020-01-01"]
TZ_LO, TZ_HI = -9223200000 * 10**9, 9223200000 * 10**9  # > 1 day inside the Timestamp limits, whole seconds
TZS = ["UTC", "Europe/Berlin", "US/Eastern", "Asia/Kolkata"]
COL_NAMES = ["a", "b", "c", "d", "col 1", "é", "0", "x.y", "A", "index", "name"]

COLUMN_KINDS = (["int64"] * 5 + ["float64"] * 5 + ["int8", "int16", "int32", "uint8", "uint16", "uint32", "uint64", "float32"]
                + ["bool"] * 2 + ["str"] * 4 + ["object"] * 4 + ["category"] * 3 + ["datetime"] * 6 + ["timedelta"] * 3
                + ["Int64"] * 2 + ["Int8", "UInt8", "UInt64", "Int32", "Float64", "Float32", "boolean", "string", "string"]
                + ["complex128"])
INDEX_KINDS = (["int64"] * 4 + ["float64"] * 2 + ["str"] * 4 + ["category"] * 2 + ["datetime"] * 3 + ["timedelta"] * 2
               + ["int8", "uint8", "uint64", "bool", "Int64", "string", "object", "float32"])


def _ints(kind):
    lo, hi = B.NP_INTS.get(kind) or B.EXT_INTS[kind]
    pool = [v for v in INT_POOL if lo <= v <= hi] + [lo, hi]
    return st.one_of(st.sampled_from(pool), st.integers(max(lo, -6), min(hi, 6)), st.integers(lo, hi))


def _floats(kind):
    width = 32 if kind.lower() == "float32" else 64
    return st.one_of(st.sampled_from(FLOAT_POOL),
                     st.floats(allow_nan=False, allow_infinity=False, width=width),
                     st.integers(-5, 5).map(float))


def _dt_cells(unit):
    m = B.UNIT_NS[unit]
    base = st.one_of(st.sampled_from(DT_POOL), st.integers(B.TS_MIN, B.TS_MAX),
                     st.integers(0, 4 * 10**18), st.integers(-3, 3).map(lambda d: Y2020 + d * 86400 * 10**9))
    if m == 1:
        return base
    return base.map(lambda v: (v // m) * m if (v // m) * m >= B.TS_MIN else ((v // m) + 1) * m)


def _cells(draw, elem, n, null, mode):
    """n cells; mode: plain (no nulls) | nulls (some) | allnull."""
    if mode == "allnull":
        return [null] * n
    cells = draw(st.lists(elem, min_size=n, max_size=n))
    if mode == "nulls" and n:
        mask = draw(st.lists(st.booleans(), min_size=n, max_size=n))
        if not any(mask):
            mask[draw(st.integers(0, n - 1))] = True
        cells = [null if m else c for c, m in zip(cells, mask)]
    return cells


OBJ_FLAVOURS = ["ints", "ints", "floats", "int-float", "bools", "mixed", "mixed", "bigint", "str-int", "bool-int", "ints-nan"]


@st.composite
def column(draw, n, name, kinds=COLUMN_KINDS):
    kind = draw(st.sampled_from(kinds))
    col = {"name": name, "kind": kind}
    nullable_kind = kind not in B.NP_INTS and kind not in ("bool", "complex128")
    mode = draw(st.sampled_from(["plain"] * 5 + ["nulls"] * 3 + ["allnull"])) if nullable_kind else "plain"
    if kind in B.NP_INTS:
        col["cells"] = _cells(draw, _ints(kind), n, None, "plain")
    elif kind in B.EXT_INTS:
        col["cells"] = _cells(draw, _ints(kind), n, None, mode)
    elif kind in B.NP_FLOATS:
        col["cells"] = _cells(draw, _floats(kind), n, "nan", mode)
    elif kind in B.EXT_FLOATS:
        col["cells"] = _cells(draw, _floats(kind), n, None, mode)
    elif kind == "bool":
        col["cells"] = _cells(draw, st.booleans(), n, None, "plain")
    elif kind == "boolean":
        col["cells"] = _cells(draw, st.booleans(), n, None, mode)
    elif kind in ("str", "string"):
        col["cells"] = _cells(draw, st.one_of(st.sampled_from(STR_POOL), st.text(max_size=3)), n, None, mode)
    elif kind == "object":
        fl = draw(st.sampled_from(OBJ_FLAVOURS))
        small = st.integers(-5, 5)
        elem = {
            "ints": st.one_of(small, st.sampled_from([2**53 + 1, -(2**53) - 1, 2**63 - 1, -(2**63)])),
            "floats": st.one_of(st.sampled_from([0.5, -1.5, 1e308, float(2**53)]), small.map(lambda i: i + 0.5)),
            "int-float": st.one_of(small, small.map(lambda i: i + 0.5)),
            "bools": st.booleans(),
            "mixed": st.one_of(small, st.booleans(), st.sampled_from(STR_POOL), small.map(lambda i: i + 0.25)),
            "bigint": st.one_of(small, st.sampled_from([2**63, 2**64, 2**70, -(2**63) - 1])),
            "str-int": st.one_of(small, st.sampled_from(["a", "1", ""])),
            "bool-int": st.one_of(small, st.booleans()),
            "ints-nan": small,
        }[fl]
        col["flavour"] = fl
        col["cells"] = _cells(draw, elem, n, {"f": "nan"} if fl == "ints-nan" else None, mode)
    elif kind == "category":
        if draw(st.integers(0, 2)) == 0:
            # a few category sets come back again and again, listed in another order (what was inferred for one frame
            # must not leak into what is inferred for the next)
            cats = list(draw(st.permutations(draw(st.sampled_from([STR_POOL[:2], STR_POOL[:3], [1, 2, 3], [0, 5]])))))
        elif draw(st.booleans()):
            cats = draw(st.lists(st.sampled_from(STR_POOL), min_size=1, max_size=4, unique=True))
        else:
            cats = draw(st.lists(st.integers(-3, 9), min_size=1, max_size=4, unique=True))
        col["categories"] = cats
        col["ordered"] = draw(st.booleans())
        col["cells"] = _cells(draw, st.integers(0, len(cats) - 1), n, None, mode)
    elif kind == "datetime":
        col["tz"] = draw(st.sampled_from([None] * 8 + TZS))
        col["unit"] = draw(st.sampled_from(["ns"] * 8 + ["s", "ms", "us"]))
        elem = _dt_cells(col["unit"])
        if draw(st.integers(0, 9)) < 4:  # whole seconds only: stays behind the known sub-second YAML truncation
            elem = elem.map(lambda v: max((v // 10**9) * 10**9, -9223372036 * 10**9))
            col["whole_seconds"] = True
        if col["tz"]:  # local wall time must stay representable (pandas cannot even print the limits in a shifted zone)
            elem = elem.map(lambda v: min(max(v, TZ_LO), TZ_HI))
        col["cells"] = _cells(draw, elem, n, None, mode)
    elif kind == "timedelta":
        col["cells"] = _cells(draw, st.one_of(st.sampled_from(TD_POOL), st.integers(B.TS_MIN, B.TS_MAX),
                                              st.integers(-5, 5).map(lambda d: d * 3600 * 10**9)), n, None, mode)
    elif kind == "complex128":
        part = st.one_of(st.integers(-3, 3).map(float), st.sampled_from([0.5, "inf", 1e308]))
        zero_im = draw(st.booleans())
        col["cells"] = _cells(draw, st.tuples(part, st.just(0.0) if zero_im else part).map(list), n, None, "plain")
    return col


@st.composite
def index_levels(draw, n, allow_none=True):
    shape = draw(st.sampled_from((["range"] * 5 if allow_none else []) + ["single"] * 3 + ["multi"] * 2))
    if shape == "range":
        return None
    k = 1 if shape == "single" else draw(st.integers(2, 3))
    naming = draw(st.sampled_from(["named"] * 4 + ["unnamed"] * 2 + ["partial", "int"]))
    names = draw(st.lists(st.sampled_from(["k", "j", "i", "idx", "a", "level 0"]), min_size=k, max_size=k, unique=True))
    if naming == "unnamed":
        names = [None] * k
    elif naming == "partial":
        names = [nm if i % 2 == 0 else None for i, nm in enumerate(names)]
    elif naming == "int":
        names = list(range(k))
    if k == 1 and n >= 1 and draw(st.integers(0, 3)) == 0:
        # a RangeIndex with its own start and step, stop anywhere behind the last label
        start = draw(st.integers(-3, 6))
        step = draw(st.sampled_from([2, 3, 3, 5, 1, -1, -2, -3]))
        r = draw(st.integers(1, abs(step)))
        return [{"name": names[0], "kind": "int64", "cells": [start + step * i for i in range(n)], "range": [start, step, r]}]
    return [draw(column(n, nm, INDEX_KINDS)) for nm in names]


@st.composite
def frame_case(draw):
    n = draw(st.sampled_from([0, 1, 1, 2, 2, 2, 3, 3, 4, 5]))
    ncols = draw(st.sampled_from([0] + [1] * 8 + [2] * 8 + [3] * 5 + [4] * 3))
    labelling = draw(st.sampled_from(["str"] * 8 + ["int", "mixed"]))
    if labelling == "str":
        names = draw(st.lists(st.sampled_from(COL_NAMES), min_size=ncols, max_size=ncols, unique=True))
    elif labelling == "int":
        names = draw(st.lists(st.integers(-1, 9), min_size=ncols, max_size=ncols, unique=True))
    else:
        names = draw(st.lists(st.one_of(st.integers(0, 3), st.sampled_from(["a", "b", "z"])), min_size=ncols,
                              max_size=ncols, unique_by=repr))
    cols = [draw(column(n, nm)) for nm in names]
    case = {"shape": "frame", "columns": cols, "index": draw(index_levels(n))}
    if not cols:
        case["nrows"] = n
    return case


@st.composite
def series_case(draw):
    n = draw(st.sampled_from([0, 1, 1, 2, 2, 3, 3, 4, 5]))
    name = draw(st.sampled_from([None, None, "s", "a", "col 1", 0, 3]))
    return {"shape": "series", "columns": [draw(column(n, name))], "index": draw(index_levels(n))}


# --- grid: finite, enumerated completely


def _grid_columns():
    """(tag, colspec-without-name) for every kind x cell pattern."""
    out = []

    def add(tag, kind, cells, **kw):
        out.append((f"{kind}/{tag}", dict(kind=kind, cells=cells, **kw)))

    for kind, (lo, hi) in list(B.NP_INTS.items()) + list(B.EXT_INTS.items()):
        add("empty", kind, [])
        add("limits", kind, [lo, hi, 0])
        add("one", kind, [hi])
        add("small", kind, [3, 1, 2])
        if hi > 2**53:
            add("beyond-2p53", kind, [2**53 + 1, 2**53 + 3])
            add("beyond-2p53-neg", kind, [2**53 + 1, 5] if lo == 0 else [-(2**53) - 1, 5])
        if kind in B.EXT_INTS:
            add("with-null", kind, [1, None, 7])
            add("all-null", kind, [None, None])
    for kind in B.NP_FLOATS + B.EXT_FLOATS:
        null = "nan" if kind in B.NP_FLOATS else None
        add("empty", kind, [])
        add("small", kind, [1.5, -2.25, 0.0])
        add("inf", kind, ["inf", "-inf", 1.0])
        add("only-inf", kind, ["inf", "inf"])
        add("tenth", kind, [0.1, 0.2, 0.30000000000000004])
        add("huge", kind, [3.0e38, -3.0e38] if kind.lower() == "float32" else [1e308, -1e308, 5e-324])
        add("negzero", kind, [-0.0, 0.0])
        add("with-null", kind, [1.5, null, -1.0])
        add("all-null", kind, [null, null])
    add("empty", "bool", [])
    add("both", "bool", [True, False])
    add("one", "bool", [True])
    add("empty", "boolean", [])
    add("with-null", "boolean", [True, None, False])
    add("all-null", "boolean", [None])
    for kind in ("str", "string"):
        add("empty", kind, [])
        add("plain", kind, ["a", "", "é"])
        add("numeric-looking", kind, ["1", "2.5", "nan"])
        add("with-null", kind, ["a", None])
        add("all-null", kind, [None, None])
    add("empty", "object", [])
    add("ints", "object", [2, 1, 3])
    add("ints-null", "object", [2, None, 3])
    add("floats", "object", [2.5, 1.0])
    add("int-float", "object", [1, 2.5])
    add("bools", "object", [True, False])
    add("bools-null", "object", [True, None])
    add("mixed", "object", [1, "a", None, 2.5, True])
    add("bigint", "object", [2**70, 1])
    add("int-beyond-2p53", "object", [2**53 + 1, 1])
    add("all-null", "object", [None, None])
    add("ints-nan", "object", [{"f": "nan"}, 1, 2])
    add("floats-nan", "object", [{"f": "nan"}, 1.5])
    for cats in (["x", "y", "z"], [3, 1, 2]):
        for ordered in (False, True):
            t = ("str" if isinstance(cats[0], str) else "int") + ("-ordered" if ordered else "")
            add(f"{t}-empty", "category", [], categories=cats, ordered=ordered)
            add(f"{t}-unused", "category", [0, 1, 0], categories=cats, ordered=ordered)
            add(f"{t}-with-null", "category", [2, None], categories=cats, ordered=ordered)
            add(f"{t}-all-null", "category", [None, None], categories=cats, ordered=ordered)
    for tz in (None, "UTC", "Europe/Berlin"):
        t = tz or "naive"
        add(f"{t}-empty", "datetime", [], tz=tz, unit="ns")
        add(f"{t}-whole-seconds", "datetime", [Y2020, Y2020 + 86400 * 10**9], tz=tz, unit="ns")
        add(f"{t}-subsecond-max", "datetime", [Y2020, Y2020 + 86400 * 10**9 + 1], tz=tz, unit="ns")
        add(f"{t}-subsecond-min", "datetime", [Y2020 + 500_000_000, Y2020 + 86400 * 10**9], tz=tz, unit="ns")
        add(f"{t}-with-null", "datetime", [Y2020, None], tz=tz, unit="ns")
        add(f"{t}-all-null", "datetime", [None, None], tz=tz, unit="ns")
        add(f"{t}-limits", "datetime", [B.TS_MIN, B.TS_MAX] if tz in (None, "UTC") else [TZ_LO + 1, TZ_HI - 1], tz=tz, unit="ns")
        add(f"{t}-epoch", "datetime", [0, -1], tz=tz, unit="ns")
    for unit in ("s", "ms", "us"):
        add(f"unit-{unit}", "datetime", [Y2020, Y2020 + 3 * B.UNIT_NS[unit]], tz=None, unit=unit)
        add(f"unit-{unit}-null", "datetime", [Y2020, None], tz=None, unit=unit)
    add("empty", "timedelta", [])
    add("small", "timedelta", [10**9, -(10**9), 0])
    add("ns", "timedelta", [1, 2])
    add("limits", "timedelta", [B.TS_MIN, B.TS_MAX])
    add("with-null", "timedelta", [86400 * 10**9, None])
    add("all-null", "timedelta", [None, None])
    add("real", "complex128", [[1.0, 0.0], [3.0, 0.0]])
    add("imag", "complex128", [[1.0, 2.0]])
    add("empty", "complex128", [])
    return out


def enum_grid(tier):
    for tag, col in _grid_columns():
        n = len(col["cells"])
        yield {"shape": "frame", "grid": tag, "columns": [dict(col, name="a")], "index": None}
        yield {"shape": "frame", "grid": tag, "columns": [dict(col, name="a"), {"name": "b", "kind": "int64", "cells": list(range(n))}],
               "index": [{"name": "k", "kind": "str", "cells": [f"r{i}" for i in range(n)]}]}
        yield {"shape": "series", "grid": tag, "columns": [dict(col, name="s")], "index": None}
        yield {"shape": "series", "grid": tag, "columns": [dict(col, name=None)], "index": None}
        if col["kind"] != "complex128":
            yield {"shape": "frame", "grid": tag, "columns": [{"name": "b", "kind": "int64", "cells": list(range(n))}],
                   "index": [dict(col, name="k")]}
            yield {"shape": "frame", "grid": tag, "columns": [{"name": "b", "kind": "int64", "cells": list(range(n))}],
                   "index": [dict(col, name="k"), {"name": "j", "kind": "int64", "cells": list(range(n))}]}
    # zero-column frames
    yield {"shape": "frame", "grid": "zero-columns", "columns": [], "index": None, "nrows": 0}
    yield {"shape": "frame", "grid": "zero-columns", "columns": [], "index": None, "nrows": 2}
    yield {"shape": "frame", "grid": "zero-columns", "columns": [], "index": [{"name": "k", "kind": "str", "cells": ["x", "y"]}]}


# -------------------------------------------------------------------------- oracle


def _kind_class(kind):
    if kind in B.NP_INTS or kind in B.EXT_INTS:
        return "int"
    if kind in B.NP_FLOATS or kind in B.EXT_FLOATS:
        return "float"
    return kind


def _components(case):
    """[(where, colspec)] in the order: columns, index levels."""
    out = [("column" if case["shape"] == "frame" else "series", c) for c in case["columns"]]
    out += [("index", lv) for lv in (case.get("index") or [])]
    return out


def _kinds_of_name(case, name):
    """kinds of the generated components a failing schema component (known by name only) may belong to"""
    kinds = {c["kind"] for where, c in _components(case)
             if c.get("name") == name and type(c.get("name")) is type(name)}
    levels = case.get("index") or []
    if isinstance(name, int) and not isinstance(name, bool) and len(levels) > 1 and 0 <= name < len(levels) \
            and levels[name].get("name") is None:
        kinds.add(levels[name]["kind"])  # pandera reports an unnamed MultiIndex level under its position
    return sorted(kinds)


def _kind_of_name(case, name):
    kinds = _kinds_of_name(case, name)
    return kinds[0] if len(kinds) == 1 else "?"


def _err_summary(case, o):
    """(bucket suffix, detail) for a SchemaError/SchemaErrors/internal outcome."""
    if o["kind"] in ("SchemaError", "SchemaErrors"):
        exc = o["exc"]
        errs = getattr(exc, "schema_errors", None) or [exc]
        e0 = errs[0]
        sname = getattr(getattr(e0, "schema", None), "name", None)
        chk = getattr(e0, "check", None)
        chk_name = getattr(chk, "name", None) or (str(chk)[:60] if chk is not None else None)
        reason = (o.get("reasons") or ["?"])[0]
        kind = _kind_of_name(case, sname)
        suffix = f"{reason}:{kind}"
        return suffix, {"reason": reason, "component": repr(sname), "component_kind": kind,
                        "candidate_kinds": _kinds_of_name(case, sname), "check": chk_name,
                        "message": str(exc)[:400]}
    return f"raised:{o.get('exc_type')}", {"exc_type": o.get("exc_type"), "msg": o.get("msg"), "where": o.get("where")}


def _py(x):
    item = getattr(x, "item", None)
    if callable(item) and type(x).__module__.startswith("numpy"):
        try:
            return item()
        except Exception:
            return x
    return x


def _stat_exact(stat, kind):
    """Inferred statistic -> exact Python value comparable with B.exact_bounds, or a marker string."""
    import pandas as pd

    if kind in ("datetime", "timedelta"):
        if isinstance(stat, (pd.Timestamp, pd.Timedelta)) and stat is not pd.NaT:
            try:
                return int(stat.value)
            except (OverflowError, ValueError):
                # (a bound that cannot be expressed in nanoseconds can never equal a ns-valued minimum / maximum)
                return f"<{type(stat).__name__}:{stat!r}>"
        return f"<{type(stat).__name__}:{stat!r}>"
    v = _py(stat)
    if isinstance(v, bool) or not isinstance(v, (int, float)):
        return f"<{type(v).__name__}:{v!r}>"
    return v


def _schema_components(case, S, ev):
    """Pair each generated component with the inferred schema component: [(where, colspec, component)]."""
    import pandera as pa

    pairs = []
    if case["shape"] == "series":
        return [("series", case["columns"][0], S)]
    try:
        cols = S.columns
        for c in case["columns"]:
            if c["name"] in cols and type(next(k for k in cols if k == c["name"])) is type(c["name"]):
                pairs.append(("column", c, cols[c["name"]]))
        levels = case.get("index")
        if levels and S.index is not None:
            comps = list(S.index.indexes) if isinstance(S.index, pa.MultiIndex) else [S.index]
            if len(comps) == len(levels):
                pairs += [("index", lv, comp) for lv, comp in zip(levels, comps)]
    except Exception as e:  # a mutant may hand back anything
        ev.add("schema-structure-unreadable", {"type": type(e).__name__, "msg": str(e)[:200]})
    return pairs


def _check_structure(case, D, S, ev):
    import pandas as pd
    import pandera as pa

    if case["shape"] == "series":
        if not isinstance(S, pa.SeriesSchema):
            ev.add("infer-wrong-schema-type", {"expected": "SeriesSchema", "observed": type(S).__name__})
            return False
        if not (S.name is None and D.name is None) and not (B.cell_equal(S.name, D.name) and type(S.name) is type(D.name)):
            ev.add("structure:series-name", {"expected": repr(D.name), "observed": repr(S.name)})
        return True
    if not isinstance(S, pa.DataFrameSchema):
        ev.add("infer-wrong-schema-type", {"expected": "DataFrameSchema", "observed": type(S).__name__})
        return False
    try:
        got = [repr(k) for k in S.columns]
    except Exception:
        got = None
    exp = [repr(k) for k in D.columns]
    if got != exp:
        ev.add("structure:column-labels", {"expected": exp, "observed": got})
    ix = S.index
    if ix is None:
        ev.add("structure:index-missing", {"expected": [repr(n) for n in D.index.names]})
    else:
        multi = isinstance(D.index, pd.MultiIndex)
        if multi != isinstance(ix, pa.MultiIndex):
            ev.add("structure:index-type", {"expected": "MultiIndex" if multi else "Index", "observed": type(ix).__name__})
        else:
            names = [c.name for c in ix.indexes] if multi else [ix.name]
            if [repr(n) for n in names] != [repr(n) for n in D.index.names]:
                ev.add("structure:index-names", {"expected": [repr(n) for n in D.index.names],
                                                 "observed": [repr(n) for n in names]})
    return True


def _check_tightness(case, S, ev):
    import pandas as pd

    for where, col, comp in _schema_components(case, S, ev):
        try:
            checks = list(comp.checks or [])
        except Exception:
            continue
        kind = col["kind"]
        cls = _kind_class(kind)
        exp = B.exact_bounds(col)
        names = []
        for chk in checks:
            name = getattr(chk, "name", None)
            stats = getattr(chk, "statistics", None) or {}
            names.append(name)
            if name in (GE, LE):
                which = "ge" if name == GE else "le"
                key = "min_value" if name == GE else "max_value"
                if key not in stats:
                    ev.add(f"bound-check-without-statistic:{which}", {"component": repr(col["name"]), "statistics": repr(stats)[:200]})
                    continue
                stat = stats[key]
                ev.labels.append(f"bounds:{cls}")
                if exp is not None:
                    want = exp[0] if which == "ge" else exp[1]
                    got = _stat_exact(stat, kind)
                    if isinstance(got, str) or got != want:
                        ev.add(f"bound-not-tight-exact:{which}:{cls}",
                               {"where": where, "component": repr(col["name"]), "kind": kind, "expected": want,
                                "observed": got, "observed_repr": repr(stat)[:80]})
                # the schema's own comparison: some non-null value equals the bound under pandas ==
                # (object columns are compared after coercion by the schema, not as Python objects: skipped)
                try:
                    vals = pd.Series(B.build_array(col)).dropna()
                    own = bool((vals == stat).any()) if len(vals) and kind != "object" else None
                except Exception:
                    own = None
                    ev.labels.append("own-comparison-unavailable")
                if own is False:
                    ev.add(f"bound-not-tight-own:{which}:{cls}",
                           {"where": where, "component": repr(col["name"]), "kind": kind, "bound": repr(stat)[:80],
                            "cells": col["cells"][:6]})
            elif name == "isin" and kind == "category":
                allowed = stats.get("allowed_values")
                try:
                    ok = sorted(map(repr, allowed)) == sorted(map(repr, col["categories"]))
                except Exception:
                    ok = False
                if not ok:
                    ev.add("isin-not-the-categories", {"component": repr(col["name"]), "expected": col["categories"],
                                                       "observed": repr(allowed)[:200]})
        if GE in names or LE in names:
            if not (GE in names and LE in names):
                ev.add("bound-pair-incomplete", {"component": repr(col["name"]), "checks": names})


def _leg(case, ev, leg, schema, ref, strict_dtype):
    """validate a fresh copy of D with `schema`; record rejection / crash / changed values."""
    D = B.build(case)
    o = fp.outcome(lambda: schema.validate(D))
    if o["kind"] != "ok":
        suffix, detail = _err_summary(case, o)
        ev.add(f"{leg}-rejects-own-data:{suffix}", detail)
        return False
    d = B.value_diff(o["value"], ref, strict_dtype)
    if d:
        ev.add(f"{leg}-changed-data:{d['what']}", d)
    return True


def evaluate(case):
    import pandas as pd
    import pandera as pa
    from pandera.schema_inference.pandas import infer_schema

    ev = Eval()
    D = B.build(case)
    ref = B.build(case)
    comps = _components(case)
    # builder self-check: the case means what it says
    for where, c in comps:
        if where == "index":
            continue
        got = str(D.dtype if case["shape"] == "series" else D[c["name"]].dtype)
        want = B.expected_dtype_str(c)
        if got != want and not (want == "string" and got.startswith("string")):
            raise HarnessError(f"builder produced dtype {got} for kind {want}")
    if B.value_diff(D, ref, True) is not None:
        raise HarnessError("two builds of the same case differ")

    # ---- labels / non-triviality
    ev.labels.append("shape=" + case["shape"])
    levels = case.get("index")
    ev.labels.append("index=" + ("range" if not levels else "single" if len(levels) == 1 else "multi"))
    n = B.nrows(case)
    if n == 0:
        ev.labels.append("zero-rows")
    if case["shape"] == "frame" and not case["columns"]:
        ev.labels.append("zero-columns")
    if any(not isinstance(c["name"], str) for w, c in comps if w == "column"):
        ev.labels.append("int-column-label")
    nontrivial = bool(levels)
    for where, c in comps:
        pre = "ix-" if where == "index" else ""
        ev.labels.append(f"{pre}kind={c['kind']}")
        if n and B.all_null(c):
            ev.labels.append(pre + "all-null")
            nontrivial = True
        elif B.has_null(c):
            ev.labels.append(pre + "null")
            nontrivial = True
        if B.is_extreme(c):
            ev.labels.append(pre + "extreme")
            nontrivial = True
        if c["kind"] == "datetime":
            if c.get("tz"):
                ev.labels.append("tz-aware")
            if any(x is not None and x % 10**9 for x in c["cells"]):
                ev.labels.append("subsecond")
        if c["kind"] in B.NP_INTS or c["kind"] in B.EXT_INTS or c["kind"] == "object":
            if any(isinstance(x, int) and not isinstance(x, bool) and abs(x) > 2**53 for x in c["cells"]):
                ev.labels.append("int-beyond-2**53")
    ev.nontrivial = nontrivial
    if case.get("grid"):
        ev.labels.append("grid")

    # ---- infer
    o = fp.outcome(lambda: infer_schema(D))
    if o["kind"] != "ok":
        ev.labels.append("outcome=infer-raised")
        ev.add(f"infer-raised:{o.get('exc_type') or o['kind']}",
               {"exc_type": o.get("exc_type") or o["kind"], "msg": o.get("msg") or str(o.get("exc"))[:300],
                "where": o.get("where")})
        return ev
    S = o["value"]
    if B.value_diff(D, ref, True) is not None:
        ev.add("infer-modified-its-input", B.value_diff(D, ref, True))
    if not _check_structure(case, D, S, ev):
        return ev

    # ---- direct leg
    accepted = _leg(case, ev, "inferred-schema", S, ref, strict_dtype=True)
    ev.labels.append("outcome=accept" if accepted else "outcome=reject")
    _check_tightness(case, S, ev)

    # ---- serialisation legs (DataFrameSchema only: SeriesSchema has no to_yaml/to_json); "same verdict" is
    # only meaningful behind an accepting direct leg (a rejection is already reported above)
    if case["shape"] == "frame" and accepted:
        from pandera.io import from_json, from_yaml, to_json, to_yaml

        legs = [("yaml", to_yaml, from_yaml)]
        if all(isinstance(c["name"], str) for c in case["columns"]):
            legs.append(("json", to_json, from_json))
        else:
            ev.labels.append("json-leg-skipped:non-string-labels")
        for fmt, dump, load in legs:
            o = fp.outcome(lambda: dump(S))
            if o["kind"] != "ok" or not isinstance(o.get("value"), str):
                ev.labels.append(f"{fmt}=dump-failed")
                ev.add(f"{fmt}-dump-raised:{o.get('exc_type') or o['kind']}",
                       {"exc_type": o.get("exc_type") or o["kind"], "msg": o.get("msg") or repr(o.get("value"))[:200],
                        "where": o.get("where")})
                continue
            text = o["value"]
            o = fp.outcome(lambda: load(text))
            if o["kind"] != "ok" or not isinstance(o.get("value"), pa.DataFrameSchema):
                ev.labels.append(f"{fmt}=load-failed")
                ev.add(f"{fmt}-load-raised:{o.get('exc_type') or o['kind']}",
                       {"exc_type": o.get("exc_type") or o["kind"], "msg": o.get("msg") or repr(o.get("value"))[:200],
                        "where": o.get("where"), "text": text[:600]})
                continue
            ok = _leg(case, ev, fmt + "-roundtrip", o["value"], ref, strict_dtype=False)
            ev.labels.append(f"{fmt}=" + ("accept" if ok else "reject"))
    return ev


# ------------------------------------------------------------------ known findings
# Each predicate matches the trigger (features of the case) AND the symptom (bucket kind + detail).


def _comps(case, kind=None):
    return [c for _, c in _components(case) if kind is None or c["kind"] == kind]


def _nonnull(c):
    return [x for x in c["cells"] if not B.is_null_cell(c["kind"], x)]


@known.finding("C14/zero-column-frame")
def _k_zero_columns(family, case, disc):
    return (disc.kind == "infer-raised:AttributeError" and case["shape"] == "frame" and not case["columns"]
            and "items" in str(disc.detail.get("msg")))


@known.finding("C14/object-alias-not-understood")
def _k_alias(family, case, disc):
    if disc.kind != "infer-raised:TypeError":
        return False
    msg = str(disc.detail.get("msg"))
    objs = [c for c in _comps(case) if c["kind"] in ("str", "object")]
    if "'empty' not understood" in msg:  # zero-length object array
        return B.nrows(case) == 0 and bool(objs)
    if "'integer-na' not understood" in msg:  # object array of ints and NaN (None becomes NaN in a MultiIndex level)
        return any(B.has_null(c) and _nonnull(c)
                   and all(isinstance(x, int) and not isinstance(x, bool) for x in _nonnull(c)) for c in objs)
    return False


@known.finding("C14/multiindex-object-level-with-null-seen-as-float64")
def _k_multiindex_object_null(family, case, disc):
    """An object MultiIndex level holding ints and a null is inferred as `object`, but validation reads the level back
    through get_level_values(), which pandas returns as float64 -> the inferred schema rejects its own data."""
    if not disc.kind.startswith("inferred-schema-rejects-own-data:WRONG_DATATYPE:"):
        return False
    if len(case.get("index") or []) < 2:
        return False
    msg = str(disc.detail.get("message"))
    trigger = any(c["kind"] == "object" and B.has_null(c) and _nonnull(c)
                  and all(isinstance(x, (int, float)) and not isinstance(x, bool) for x in _nonnull(c))
                  for c in (case.get("index") or []))
    return trigger and "to have type object, got float64" in msg


@known.finding("C14/int-bounds-through-float")
def _k_int_float(family, case, disc):
    if not disc.kind.startswith("bound-not-tight-exact:") or disc.kind.split(":")[-1] not in ("int", "object"):
        return False
    exp, got = disc.detail.get("expected"), disc.detail.get("observed")
    return (isinstance(exp, int) and not isinstance(exp, bool) and isinstance(got, float) and abs(exp) > 2**53
            and not math.isinf(got) and got == float(exp) and got != exp)


def _rejection(disc, leg_prefixes, kinds, any_check_error=False):
    """symptom helper: '<leg>-rejects-own-data:<reason>:<kind>' where a bound check failed (DATAFRAME_CHECK) or
    failed and then crashed while its failure cases were reshaped (CHECK_ERROR from reshape_failure_cases)."""
    parts = disc.kind.split(":")
    if len(parts) != 3 or parts[0] not in [p + "-rejects-own-data" for p in leg_prefixes]:
        return False
    d = disc.detail or {}
    if parts[1] == "CHECK_ERROR":
        # (any_check_error: the failing bound check of this component is the finding; where its failure cases crash
        # afterwards - e.g. a MultiIndex with a null in a categorical level being turned into tuples - does not matter)
        if not any_check_error and "reshape_failure_cases" not in str(d.get("message")):
            return False
    elif parts[1] != "DATAFRAME_CHECK":
        return False
    cand = d.get("candidate_kinds") or []
    return parts[2] in kinds or (parts[2] == "?" and any(k in kinds for k in cand))


@known.finding("C14/complex-bounds")
def _k_complex(family, case, disc):
    cols = _comps(case, "complex128")
    if not cols:
        return False
    if disc.kind in ("bound-not-tight-own:ge:complex128", "bound-not-tight-own:le:complex128"):
        return True
    return _rejection(disc, ["inferred-schema"], ["complex128"], any_check_error=True) and disc.detail.get("check") in (GE, LE)


@known.finding("C14/object-int-beyond-int64")
def _k_object_bigint(family, case, disc):
    if not disc.kind.startswith("inferred-schema-rejects-own-data:DATATYPE_COERCION:"):
        return False
    if disc.kind.split(":")[-1] not in ("object", "?"):
        return False
    trigger = any(any(isinstance(x, int) and not isinstance(x, bool) and not -(2**63) <= x < 2**63 for x in c["cells"])
                  for c in _comps(case, "object"))
    return trigger and "int64" in str(disc.detail.get("check"))


@known.finding("C14/uint64-extension-min-max-through-float")
def _k_uint64_ext(family, case, disc):
    """pandas' masked UInt64 min()/max() go through float64 once a value needs the top bit: the inferred bound is pandas'
    (inexact) minimum / maximum, off by the float rounding"""
    if not disc.kind.startswith("bound-not-tight-exact:") or not disc.kind.endswith(":int"):
        return False
    d = disc.detail if isinstance(disc.detail, dict) else {}
    if d.get("kind") != "UInt64":
        return False
    cols = [c for c in _comps(case, "UInt64")]
    big = any(isinstance(x, int) and not isinstance(x, bool) and x >= 2 ** 63 for c in cols for x in c["cells"])
    exp, obs = d.get("expected"), d.get("observed")
    return big and isinstance(exp, int) and isinstance(obs, int) and exp != obs and float(exp) == float(obs)


@known.finding("C14/tz-aware-bounds-not-serialisable")
def _k_tz_dump(family, case, disc):
    if disc.kind not in ("yaml-dump-raised:RepresenterError", "json-dump-raised:TypeError"):
        return False
    trigger = any(c.get("tz") and _nonnull(c) for c in _comps(case, "datetime"))
    return trigger and "Timestamp" in str(disc.detail.get("msg"))


@known.finding("C14/subsecond-datetime-bounds-truncated")
def _k_subsecond(family, case, disc):
    if not _rejection(disc, ["yaml-roundtrip", "json-roundtrip"], ["datetime"]):
        return False
    if disc.detail.get("check") != LE:  # truncation floors: only the upper bound can move below the data
        return False
    return any(not c.get("tz") and _nonnull(c) and max(_nonnull(c)) % 10**9 for c in _comps(case, "datetime"))


# ------------------------------------------------------------------------ selftest


def selftest():
    """Calibration of the oracle's own pieces on literal examples."""
    import numpy as np
    import pandas as pd

    c = {"name": "a", "kind": "int64", "cells": [2**53 + 1, -3]}
    if B.exact_bounds(c) != (-3, 2**53 + 1) or (2**53 + 1) == float(2**53 + 1):
        raise HarnessError("exact_bounds / exact int-float comparison is off")
    c = {"name": "a", "kind": "float64", "cells": [1.5, "nan", "-inf"]}
    if B.exact_bounds(c) != (-math.inf, 1.5) or not B.has_null(c):
        raise HarnessError("float bounds / null detection is off")
    c = {"name": "a", "kind": "datetime", "cells": [Y2020 + 1, None], "tz": "Europe/Berlin", "unit": "ns"}
    arr = B.build_array(c)
    if arr[0].value != Y2020 + 1 or arr[1] is not pd.NaT or str(arr.dtype) != "datetime64[ns, Europe/Berlin]":
        raise HarnessError("datetime builder is off")
    a = pd.DataFrame({"a": [1.0, np.nan]})
    if B.value_diff(a, pd.DataFrame({"a": [1.0, np.nan]}), True) is not None:
        raise HarnessError("value_diff: NaN != NaN")
    if B.value_diff(pd.DataFrame({"a": [1.0, 2.0]}), a, True) is None:
        raise HarnessError("value_diff misses a changed value")
    if B.value_diff(pd.DataFrame({"a": [1, 0]}), pd.DataFrame({"a": [True, False]}), False) is None:
        raise HarnessError("value_diff misses bool -> int")
    if B.value_diff(a.astype("float32"), a, True) is None or B.value_diff(a.astype("float32"), a, False) is not None:
        raise HarnessError("value_diff dtype strictness is off")
    if B.value_diff(a.rename_axis("k"), a, True) is None:
        raise HarnessError("value_diff misses an index name change")
    n = len(list(enum_grid("quick")))
    if n < 500:
        raise HarnessError(f"grid unexpectedly small: {n}")


FAMILIES = [
    Family("grid", evaluate, enumerate=enum_grid, shards_quick=4, shards_thorough=8, exhaustive=True,
           required_labels=["zero-columns", "all-null", "zero-rows", "tz-aware", "subsecond", "int-beyond-2**53",
                            "kind=complex128", "bounds:int", "bounds:float", "bounds:datetime", "yaml=accept", "json=accept"]),
    Family("frame", evaluate, strategy=frame_case, n_quick=900, n_thorough=8000, shards_quick=4, shards_thorough=16,
           required_labels=["index=multi", "index=single", "null", "all-null", "extreme", "zero-rows", "kind=category",
                            "kind=datetime", "kind=timedelta", "kind=object", "ix-null", "int-column-label",
                            "outcome=accept", "yaml=accept", "json=accept"]),
    Family("series", evaluate, strategy=series_case, n_quick=500, n_thorough=4000, shards_quick=2, shards_thorough=8,
           required_labels=["index=multi", "null", "extreme", "outcome=accept"]),
]
