"""C05 - schemas are observationally immutable: no operation leaves hidden state.

A *case* is a JSON history ``{"schema": <spec>, "probes": [<table>...], "ops": [{"op": ...}, ...]}``.
``evaluate`` builds the schema S from the spec, records

  fp0  = structural fingerprint of S (harness.fp, not pandera's __eq__)
  V0   = verdict of a *freshly built* S on every probe (eager and lazy)
  O0   = output of observation ops (repr / to_yaml / ...) on a freshly built S

and then interprets the history step by step.  After every step:

  * fingerprint(S) == fp0, else ``state-changed:<op>:<path>`` - and the *impact* of the leaked state is
    measured on copies of the mutated schema (``impact-verdict`` / ``impact-to_yaml`` / ``impact-strategy``:
    what an innocent next caller would observe); S is then rebuilt from the spec, so the search continues
    behind the defect and every discrepancy is attributed to exactly one operation;
  * S == deepcopy snapshot taken before the history (pandera's own __eq__), else ``eq-snapshot-false``;
  * every ``validate`` op is itself a verdict probe: its outcome must equal V0, else
    ``verdict-changed:no-state-change`` (state that lives outside the schema object graph);
  * observation ops must return what they return on a fresh schema, else ``observation-changed``;
  * transforming methods must return a new object (``transform-returned-receiver``); the returned schema is
    then used for a validation and dropped - the receiver must not notice.
  * at teardown all probes are validated once more against V0.
"""
from __future__ import annotations

import copy
import pickle
import re
import threading

from .. import fp, known
from ..core import Eval, Family, HarnessError

fp.MAX_DEPTH = max(fp.MAX_DEPTH, 20)  # MultiIndex -> Index -> Check -> statistics -> options nests deep

PROPERTY = "C05"
LEVEL = "exploration"
RULE = (
    "Hypothesis-generated histories: a schema spec (DataFrameSchema 60%, DataFrameModel-backed 20%, SeriesSchema 20%; "
    "regex columns, tz-agnostic DateTime, built-in/custom/registered checks, Index/MultiIndex, frame dtype, strict/"
    "ordered/coerce/unique/add_missing_columns/drop_invalid_rows), 2-4 probe tables derived from the spec (about 3/4 "
    "of the columns physically conforming, labels for 1-3 regex matches, missing/extra/reordered columns), and 2-12 "
    "operations with generated arguments (validate eager/lazy, component/index validate, coerce_dtype, to_yaml/json/"
    "script, statistics, strategy/draw/example, repr/str/eq/copy/deepcopy/pickle, dtypes/get_dtypes/get_metadata, all "
    "transforming methods, model to_schema/subclass/to_yaml). Non-trivial: the history contains a rejected validation "
    "followed by >=1 other operation, or a serialisation/statistics call followed by a validation/strategy call. "
    "Family fresh_process: enumerated matrix (check list x snapshot kind x first operation x passing/failing frame), "
    "each case in its own interpreter that has not validated anything yet (quick: the validate column + a seed-rotated "
    "sample, thorough: all 120); non-trivial = schema has checks and the first operation is not repr. "
    "Distinct = hash of the canonical JSON case."
)
ASSUMPTIONS = [
    "schema state is observed through harness.fp.fingerprint (object graph: __dict__/dataclass fields/slots, check "
    "functions by module.qualname); state stored elsewhere is only seen through verdicts and observation outputs",
    "the reference verdict/observation is pandera's own answer on a freshly built, never used schema of the same spec "
    "(the property is history-independence, not correctness of the verdict: that is C01)",
    "a verdict is outcome class + reason codes + check names + failure-case counts (+ value snapshot of the returned "
    "object on success); error messages are not compared",
    "after a detected state change the schema is rebuilt from its spec (single-operation attribution); interactions "
    "of two leaks are not explored",
    "model_edit_returned models a caller using a public property setter on the object returned by Model.to_schema()",
]

VALIDATE_LIKE = ("validate", "component_validate", "index_validate")
SERIALISE = ("to_yaml", "to_json", "to_script", "statistics", "model_to_yaml")
TRANSFORMS = ("add_columns", "remove_columns", "update_column", "update_columns", "rename_columns", "select_columns",
              "set_index", "reset_index", "component_update_checks", "update_checks")


# ------------------------------------------------------------------------ helpers


def norm_path(p):
    """fp_diff path -> stable bucket component: drop list positions, dict wrappers, private underscores"""
    p = re.sub(r"\[\d+\]", "", p)
    p = p.replace(".dict", "").replace(".set", "")
    p = p.replace(".len", "")
    parts = [x.lstrip("_") for x in p.split(".") if x]
    return ".".join(parts) or "<root>"


def area(p):
    """coarse, stable location of a state change (bucket key): one root cause -> one area"""
    parts = norm_path(p).split(".")
    if "statistics" in parts:
        return ".".join(parts[: parts.index("statistics") + 1])
    if parts[0] in ("columns", "index", "indexes"):
        return ".".join(parts[:2])
    return parts[0]


def _safe(fn, default=None):
    try:
        return fn()
    except Exception:
        return default


def _n_cases(fc):
    try:
        return int(len(fc))
    except Exception:
        return repr(fc)[:40]


def _err_item(e):
    return [
        getattr(getattr(e, "reason_code", None), "name", str(getattr(e, "reason_code", None))),
        str(getattr(e, "check", None))[:80],
        _n_cases(getattr(e, "failure_cases", None)),
    ]


def normalise(o):
    """harness.fp.outcome -> comparable JSON verdict"""
    k = o["kind"]
    if k == "ok":
        return {"kind": "accept", "out": _safe(lambda: fp.snapshot(o["value"]), "<unsnapshotable>")}
    if k == "SchemaError":
        return {"kind": "reject", "errors": [_safe(lambda: _err_item(o["exc"]), ["?"])]}
    if k == "SchemaErrors":
        errs = _safe(lambda: sorted((_err_item(e) for e in o["exc"].schema_errors), key=repr), ["?"])
        return {"kind": "reject", "errors": errs}
    if k == "usage":
        return {"kind": "usage", "type": o.get("exc_type")}
    return {"kind": "internal", "type": o.get("exc_type"), "where": o.get("where")}


def transition(a, b):
    if a["kind"] != b["kind"]:
        return f"{a['kind']}->{b['kind']}"
    return {"accept": "accept-output", "reject": "reject-details"}.get(a["kind"], a["kind"] + "-details")


def short(v):
    if isinstance(v, dict) and "out" in v:
        v = dict(v)
        v["out"] = "<snapshot>"
    return v


def in_thread(fn):
    """Hypothesis refuses .example()/nested @given inside a running test of the same thread; its context is
    thread-local, so nested use runs in a helper thread (the caller blocks: no concurrency)."""
    box = {}

    def run():
        try:
            box["v"] = fn()
            box["kind"] = "ok"
        except BaseException as e:  # noqa: BLE001
            box["kind"] = "raised:" + type(e).__name__
            box["msg"] = str(e)[:200]

    t = threading.Thread(target=run)
    t.start()
    t.join()
    return box


def draw_once(make_strategy, seed=0):
    """One generation attempt from a pandera strategy with a fixed seed (ok | rejected | raised:<Type>).
    A full ``@given`` run costs up to 1000 attempts on over-constrained schemas; one attempt is enough to see
    whether leaked state breaks synthesis."""
    from random import Random

    from hypothesis.control import BuildContext
    from hypothesis.errors import UnsatisfiedAssumption
    from hypothesis.internal.conjecture.data import ConjectureData, StopTest

    def body():
        strat = make_strategy()
        data = ConjectureData(random=Random(seed), prefix=(), max_choices=4000)
        try:
            with BuildContext(data, wrapped_test=None):
                data.draw(strat)
        except (StopTest, UnsatisfiedAssumption):
            return "rejected"
        return "drawn"

    r = in_thread(body)
    if r["kind"] == "ok":
        return {"kind": r["v"]}
    return {"kind": r["kind"]}


# ------------------------------------------------------------------------- holder


class Holder:
    """The schema under test, rebuilt from the spec on demand."""

    def __init__(self, spec):
        from . import _c05_build as B

        self.B = B
        self.spec = spec
        self.kind = spec["kind"]
        self.info = {}  # what the last op actually passed (for details / known-finding triggers)
        self.rebuild()

    def rebuild(self):
        B = self.B
        if self.kind == "frame":
            self.Model, self._S = None, B.build_frame_schema(self.spec)
        elif self.kind == "series":
            self.Model, self._S = None, B.build_series_schema(self.spec)
        else:
            self.Model = B.build_model(self.spec)
            self._S = None
            self.Model.to_schema()

    @property
    def S(self):
        return self._S if self.Model is None else self.Model.to_schema()

    def obj(self, table):
        return self.B.build_series(table) if self.kind == "series" else self.B.build_frame(table)

    def validate(self, table, lazy, via="validate"):
        obj = self.obj(table)
        if self.Model is not None:
            return fp.outcome(lambda: self.Model.validate(obj, lazy=lazy))
        if via == "call":
            return fp.outcome(lambda: self._S(obj, lazy=lazy))
        return fp.outcome(lambda: self._S.validate(obj, lazy=lazy))


def validate_with(schema, obj, lazy):
    return normalise(fp.outcome(lambda: schema.validate(obj, lazy=lazy)))


# ---------------------------------------------------------------------- the ops


def _col_key(S, k):
    keys = list(S.columns)
    return keys[k % len(keys)] if keys else None


def run_op(h, op, probes, snapshot0):
    """Perform one operation on h.S.  Returns (outcome_label, observation|None, result_schema|None, verdict|None).
    Exceptions raised by pandera are outcomes, not discrepancies (C06 is about those)."""
    import pandera as pa

    name = op["op"]
    S = h.S
    h.info = {}
    obs = None
    res = None
    verdict = None
    out = "ok"

    def attempt(fn):
        nonlocal out
        try:
            return fn()
        except Exception as e:  # noqa: BLE001
            out = "raised:" + type(e).__name__
            return None

    if name == "validate":
        verdict = normalise(h.validate(probes[op["probe"]], op["lazy"], op.get("via", "validate")))
        out = verdict["kind"]
    elif name == "component_validate":
        key = _col_key(S, op["col"])
        if key is None:
            return "noop", None, None, None
        obj = h.obj(probes[op["probe"]])
        comp = S.columns[key]
        verdict = normalise(fp.outcome(lambda: comp.validate(obj, lazy=op["lazy"])))
        out = verdict["kind"]
        verdict = None  # only whole-schema validations are compared against V0
    elif name == "index_validate":
        if getattr(S, "index", None) is None:
            return "noop", None, None, None
        obj = h.obj(probes[op["probe"]])
        out = normalise(fp.outcome(lambda: S.index.validate(obj, lazy=op["lazy"])))["kind"]
    elif name == "coerce_dtype":
        obj = h.obj(probes[op["probe"]])
        attempt(lambda: S.coerce_dtype(obj))
    elif name == "statistics":
        from pandera import schema_statistics as ss

        if h.kind == "series":
            obs = attempt(lambda: repr(ss.get_series_schema_statistics(S)))
        else:
            obs = attempt(lambda: repr(ss.get_dataframe_schema_statistics(S)))
    elif name in ("to_yaml", "to_json", "to_script"):
        obs = attempt(getattr(S, name))
    elif name == "model_to_yaml":
        obs = attempt(h.Model.to_yaml)
    elif name == "strategy":
        attempt(lambda: S.strategy(size=2))
    elif name == "draw":
        out = draw_once(lambda: S.strategy(size=op.get("size", 1)))["kind"]
        obs = out
    elif name in ("example", "model_example"):
        out = draw_once(lambda: S.strategy(size=op.get("size", 1)))["kind"]
        if out == "drawn":
            target = S if name == "example" else h.Model
            out = in_thread(lambda: target.example(size=op.get("size", 1)))["kind"]
    elif name == "repr":
        obs = attempt(lambda: repr(S))
    elif name == "str":
        obs = attempt(lambda: str(S))
    elif name == "eq":
        attempt(lambda: S == snapshot0)
        attempt(lambda: S != snapshot0)
    elif name == "copy":
        def copy_and_edit():
            dup = copy.copy(S)
            if op.get("edit") == "name":
                dup.name = "renamed-copy"
            elif op.get("edit") == "coerce":
                dup.coerce = not dup.coerce
        attempt(copy_and_edit)
    elif name == "deepcopy":
        attempt(lambda: copy.deepcopy(S))
    elif name == "pickle":
        attempt(lambda: pickle.loads(pickle.dumps(S)))
    elif name == "dtypes":
        obs = attempt(lambda: repr(S.dtypes))
    elif name == "get_dtypes":
        obj = h.obj(probes[op["probe"]])
        attempt(lambda: S.get_dtypes(obj))
    elif name == "get_metadata":
        obs = attempt(lambda: repr(S.get_metadata()))
    elif name == "properties":
        if h.kind == "series":
            attempt(lambda: S.properties)
        else:
            for c in list(S.columns.values()):
                attempt(lambda c=c: c.properties)
    elif name == "add_columns":
        res = attempt(lambda: S.add_columns({"zz": pa.Column(int, pa.Check.ge(0))}))
    elif name in ("remove_columns", "select_columns"):
        key = _col_key(S, op["col"])
        res = attempt(lambda: getattr(S, name)([key]))
    elif name in ("update_column", "update_columns"):
        key = _col_key(S, op["col"])
        col = S.columns.get(key)
        prop = op["prop"]
        val = {"nullable": not getattr(col, "nullable", False), "coerce": not getattr(col, "coerce", False),
               "unique": not getattr(col, "unique", False), "checks": [pa.Check.ge(0)], "dtype": "float64"}[prop]
        if name == "update_column":
            res = attempt(lambda: S.update_column(key, **{prop: val}))
        else:
            res = attempt(lambda: S.update_columns({key: {prop: val}}))
    elif name == "rename_columns":
        key = _col_key(S, op["col"])
        res = attempt(lambda: S.rename_columns({key: f"{key}_r"}))
    elif name == "set_index":
        key = _col_key(S, op["col"])
        res = attempt(lambda: S.set_index([key], drop=op["drop"], append=op["append"]))
    elif name == "reset_index":
        ix = getattr(S, "index", None)
        names = _safe(lambda: list(ix.names), None) or ([getattr(ix, "name", None)] if ix is not None else [])
        level = {"all": None, "empty": [], "first": names[:1]}[op["level"]]
        h.info = {"level": level}
        res = attempt(lambda: S.reset_index(level=level, drop=op["drop"]))
    elif name == "component_update_checks":
        key = _col_key(S, op["col"])
        if key is None:
            return "noop", None, None, None
        res = attempt(lambda: S.columns[key].update_checks([pa.Check.ge(0)]))
    elif name == "update_checks":
        res = attempt(lambda: S.update_checks([pa.Check.ge(0)]))
    elif name == "model_to_schema":
        attempt(h.Model.to_schema)
    elif name == "model_subclass":
        def sub():
            child = type("C05Child", (h.Model,), {"__annotations__": {"zz": int}, "__module__": __name__})
            child.to_schema()
            _safe(lambda: child.validate(h.obj(probes[0]), lazy=True))
        attempt(sub)
    elif name == "model_empty":
        # further class-level entry points of a model: each builds something from the compiled schema
        attempt(lambda: h.Model.empty())
    elif name == "model_json_schema":
        attempt(lambda: h.Model.to_json_schema())
    elif name == "model_get_metadata":
        attempt(lambda: h.Model.get_metadata())
    elif name == "model_edit_returned":
        def edit():
            handed_out = h.Model.to_schema()  # the caller's own schema object, as far as the API says
            if op["attr"] == "strict":
                handed_out.strict = not handed_out.strict
            else:
                handed_out.coerce = not handed_out.coerce  # public property setter
        attempt(edit)
    else:
        raise HarnessError(f"unknown op {name!r}")
    return out, obs, res, verdict


OBSERVED = ("repr", "str", "to_yaml", "to_json", "to_script", "statistics", "dtypes", "get_metadata", "model_to_yaml", "draw")


# --------------------------------------------------------------------- evaluate

_WARM = [False]


def warm_up():
    """Built-in check implementations for pandas register lazily on the first validation of the process, which
    grows the process-wide Dispatcher objects (and makes a deep copy taken earlier compare unequal: that effect is
    the subject of the separate, process-isolated family ``fresh_process``).  Histories start after it."""
    if _WARM[0]:
        return
    import pandas as pd
    import pandera as pa

    pa.DataFrameSchema({"w": pa.Column(int, pa.Check.ge(0))}, index=pa.Index(int)).validate(pd.DataFrame({"w": [1]}))
    pa.SeriesSchema(int).validate(pd.Series([1]))
    _WARM[0] = True


def evaluate(case):
    warm_up()
    ev = Eval()
    spec = case["schema"]
    probes = case["probes"]
    ops = case["ops"]
    kind = spec["kind"]
    ev.labels.append(f"kind={kind}")

    import pandera.errors as pe

    try:
        h = Holder(spec)
    except (pe.SchemaInitError, pe.SchemaDefinitionError, pe.BaseStrategyOnlyError) as e:
        ev.skipped = f"schema-build-refused:{type(e).__name__}"
        return ev
    fp0 = fp.fingerprint(h.S)
    other = Holder(spec)
    if fp.fingerprint(other.S) != fp0:
        raise HarnessError("C05 builder is not deterministic: two builds of one spec differ: "
                           + repr(fp.fp_diff(fp0, fp.fingerprint(other.S)))[:600])
    snapshot0 = _safe(lambda: copy.deepcopy(h.S))
    eq0 = snapshot0 is not None and _safe(lambda: bool(h.S == snapshot0), False)
    if not eq0:
        ev.labels.append("eq0-false")

    cols = spec["columns"]
    has_regex = any(c.get("regex") for c in cols)
    has_agn = any(str(c.get("dtype", "")).startswith("dt_agnostic") for c in cols)
    has_checks = any(c.get("checks") for c in cols) or bool(spec.get("checks"))
    if has_regex:
        ev.labels.append("has_regex")
    if has_agn:
        ev.labels.append("has_tz_agnostic")
    if not has_regex and not has_agn:
        ev.labels.append("no_known_state_trigger")

    # reference answers come from a schema that has never been used for anything else: a spare holder that is
    # re-used only while its own fingerprint is still pristine (else rebuilt)
    spare = [other]

    def fresh_holder():
        if fp.fingerprint(spare[0].S) != fp0:
            spare[0] = Holder(spec)
        return spare[0]

    v0_cache = {}

    def V0(j, lazy):
        k = (j, bool(lazy))
        if k not in v0_cache:
            v0_cache[k] = normalise(fresh_holder().validate(probes[j], lazy))
        return v0_cache[k]

    o0_cache = {}

    def O0(op):
        k = repr(sorted(op.items()))
        if k not in o0_cache:
            out, obs, _, _ = run_op(fresh_holder(), op, probes, snapshot0)
            o0_cache[k] = (out, obs)
        return o0_cache[k]

    impact_seen = set()

    def impact(label, areas, step):
        """what would the next caller observe on the mutated schema?  (once per op/area per case)"""
        key = (label.split("/")[0], tuple(areas))
        if key in impact_seen:
            return
        first = not impact_seen
        impact_seen.add(key)
        mut = _safe(lambda: copy.deepcopy(h.S))
        if mut is None:
            return

        def emit(sym, detail):
            for a in areas:  # one disc per area: every root cause keeps its own bucket
                ev.add(f"{sym}:{label}:{a}", dict(detail, areas=areas))

        changed = []
        for j in range(len(probes)):
            for lazy in (False, True):
                m = _safe(lambda: copy.deepcopy(mut))
                if m is None:
                    continue
                v = validate_with(m, h.obj(probes[j]), lazy)
                if v != V0(j, lazy):
                    changed.append({"probe": j, "lazy": lazy, "transition": transition(V0(j, lazy), v),
                                    "before": short(V0(j, lazy)), "after": short(v)})
        if changed:
            emit("impact-verdict", {"step": step, "changed": changed[:3], "n": len(changed)})
        if kind != "series":
            y0 = fp.outcome(fresh_holder().S.to_yaml)
            y1 = fp.outcome(copy.deepcopy(mut).to_yaml)
            a = y0.get("value") if y0["kind"] == "ok" else y0["kind"] + ":" + str(y0.get("exc_type"))
            b = y1.get("value") if y1["kind"] == "ok" else y1["kind"] + ":" + str(y1.get("exc_type"))
            if a != b:
                emit("impact-to_yaml", {"step": step, "fresh": str(a)[-400:], "mutated": str(b)[-400:]})
        if first:
            d0 = draw_once(lambda: fresh_holder().S.strategy(size=1))
            d1 = draw_once(lambda: copy.deepcopy(mut).strategy(size=1))
            if d0 != d1:
                emit("impact-strategy", {"step": step, "fresh": d0, "mutated": d1})

    seen_reject_at = None
    seen_serialise_at = None
    fail_then_op = False
    ser_then_use = False

    def after_step(i, op, label, outcome):
        cur = fp.fingerprint(h.S)
        if cur != fp0:
            diffs = fp.fp_diff(fp0, cur, limit=12)
            areas = sorted({area(d["path"]) for d in diffs}) or ["<unlocated>"]
            areas = [a for a in areas if not any(b != a and a.startswith(b + ".") for b in areas)]
            noticed = (not _safe(lambda: bool(h.S == snapshot0), True)) if eq0 else None
            for a in areas:
                ev.add(f"state-changed:{label}:{a}",
                       {"step": i, "op": op, "info": dict(h.info), "outcome": outcome, "areas": areas,
                        "diff": [d for d in diffs if area(d["path"]).startswith(a)][:3], "pandera_eq_noticed": noticed})
            impact(label, areas, i)
            h.rebuild()
            if fp.fingerprint(h.S) != fp0:
                raise HarnessError("C05: rebuilt schema does not match the initial fingerprint")
        elif eq0 and not _safe(lambda: bool(h.S == snapshot0), False):
            ev.add(f"eq-snapshot-false:no-state-change:{label}", {"step": i, "op": op})

    for i, op in enumerate(ops):
        name = op["op"]
        ev.labels.append(f"op={name}")
        out, obs, res, verdict = run_op(h, op, probes, snapshot0)
        label = f"{name}/{out}" if name in VALIDATE_LIKE else name
        if name in VALIDATE_LIKE:
            ev.labels.append(f"{name}={out}")
        elif out.startswith("raised"):
            ev.labels.append(f"raised:{name}")
        # non-triviality bookkeeping
        if seen_reject_at is not None:
            fail_then_op = True
        if seen_serialise_at is not None and name in ("validate", "component_validate", "strategy", "draw", "example"):
            ser_then_use = True
        if name in VALIDATE_LIKE and out == "reject":
            seen_reject_at = i
        if name in SERIALISE:
            seen_serialise_at = i
        # verdict of S on D is the same at every point of the history
        if verdict is not None:
            want = V0(op["probe"], op["lazy"])
            if verdict != want:
                ev.add(f"verdict-changed:no-state-change:{transition(want, verdict)}",
                       {"step": i, "op": op, "fresh_schema": short(want), "this_schema": short(verdict)})
        # observations are history independent
        if name in OBSERVED and out != "noop":
            out0, obs0 = O0(op)
            if (out0, obs0) != (out, obs):
                ev.add(f"observation-changed:no-state-change:{name}",
                       {"step": i, "op": op, "fresh_schema": [out0, str(obs0)[-300:]], "this_schema": [out, str(obs)[-300:]]})
        # transforming methods: new object; use it and drop it
        if name in TRANSFORMS and res is not None:
            if res is h.S:
                ev.add(f"transform-returned-receiver:{name}", {"step": i, "op": op, "info": dict(h.info)})
            else:
                tv = op.get("then_validate")
                if tv is not None and tv < len(probes):
                    obj = h.obj(probes[tv])
                    _safe(lambda: res.validate(obj, lazy=True))
        after_step(i, op, label, out)

    # teardown: every probe once more (alternating eager / lazy)
    for j in range(len(probes)):
        lazy = j % 2 == 0
        v = normalise(h.validate(probes[j], lazy))
        if v != V0(j, lazy):
            ev.add(f"verdict-changed:no-state-change:{transition(V0(j, lazy), v)}",
                   {"step": "teardown", "probe": j, "lazy": lazy, "fresh_schema": short(V0(j, lazy)), "this_schema": short(v)})
        ev.labels.append("teardown=" + v["kind"])
        after_step("teardown", {"op": "validate", "probe": j, "lazy": lazy}, f"validate/{v['kind']}", v["kind"])

    if fail_then_op:
        ev.labels.append("fail-then-op")
    if ser_then_use:
        ev.labels.append("serialise-then-use")
    if len(ops) >= 8:
        ev.labels.append("history>=8")
    ev.nontrivial = fail_then_op or ser_then_use
    return ev


# ------------------------------------------------------------------ known findings
# Each predicate matches the trigger (features of the case / of the operation that was running) AND the symptom
# (discrepancy kind: which operation changed which part of the schema).


def _disc_parts(disc):
    """kind = '<symptom>:<op label>:<areas>' -> (symptom, op name, outcome, [areas])"""
    bits = disc.kind.split(":", 2)
    if len(bits) != 3:
        return None, None, None, []
    opname, _, outcome = bits[1].partition("/")
    return bits[0], opname, outcome, bits[2].split("+")


STATE_SYMPTOMS = ("state-changed", "impact-verdict", "impact-to_yaml", "impact-strategy")


def _all_checks(spec):
    out = list(spec.get("checks", []))
    for c in spec["columns"]:
        out += c.get("checks", [])
    ix = spec.get("index")
    for i in (ix if isinstance(ix, list) else [ix] if ix else []):
        out += i.get("checks", [])
    return out


SERIALISABLE = set(["gt", "ge", "lt", "le", "eq", "ne", "in_range", "isin", "notin", "str_matches", "str_contains",
                    "str_startswith", "str_endswith", "str_length", "unique_values_eq", "registered"])


@known.finding("C05/parse-checks-aliases-statistics")
def _k_statistics(family, case, disc):
    sym, opname, _, areas = _disc_parts(disc)
    return (sym in STATE_SYMPTOMS and opname in ("statistics", "to_yaml", "to_json", "to_script", "model_to_yaml")
            and len(areas) == 1 and areas[0].endswith("checks.statistics")
            and any(c["kind"] in SERIALISABLE for c in _all_checks(case["schema"])))


@known.finding("C05/datetime-tz-agnostic-check-rewrites-dtype")
def _k_tz(family, case, disc):
    sym, opname, _, areas = _disc_parts(disc)
    return (sym in STATE_SYMPTOMS
            and opname in ("validate", "component_validate", "coerce_dtype", "get_dtypes", "update_checks",
                           "component_update_checks")  # the shallow copies made by update_checks share the dtype object
            and areas in (["columns.dtype"], ["dtype"])
            and any(str(c.get("dtype")).startswith("dt_agnostic") for c in case["schema"]["columns"]))


@known.finding("C05/shallow-copy-shares-instance-dict")
def _k_copy(family, case, disc):
    sym, opname, _, areas = _disc_parts(disc)
    if sym not in STATE_SYMPTOMS:
        return False
    if opname == "copy":
        return areas in (["coerce"], ["name"])
    if opname == "update_checks":
        return areas == ["checks"]
    if opname == "component_update_checks":
        return areas == ["columns.checks"]
    return False


@known.finding("C05/multiindex-coerce-flag-not-restored")
def _k_mi(family, case, disc):
    sym, opname, _, areas = _disc_parts(disc)
    ix = case["schema"].get("index")
    return (sym in STATE_SYMPTOMS and opname == "validate" and areas == ["index.coerce"] and isinstance(ix, list)
            and any(i.get("coerce") for i in ix))


@known.finding("C05/reset-index-empty-level-returns-receiver")
def _k_reset(family, case, disc):
    return (disc.kind == "transform-returned-receiver:reset_index"
            and isinstance(disc.detail, dict) and disc.detail.get("info", {}).get("level") == [])


@known.finding("C05/model-to-schema-hands-out-cached-object")
def _k_model(family, case, disc):
    sym, opname, _, areas = _disc_parts(disc)
    return (sym in STATE_SYMPTOMS and opname == "model_edit_returned" and case["schema"]["kind"] == "model"
            and areas in (["strict"], ["coerce"]))


# ------------------------------------------------------------- family fresh_process
# State that lives outside the schema object graph and changes once per process (lazy registration of the pandas
# implementations of built-in checks) can only be observed from a process that has not validated anything yet:
# each case runs in its own interpreter.

_FRESH = r"""
import json, sys, copy, pickle, warnings
warnings.filterwarnings("ignore")
import pandas as pd, pandera as pa
case = json.loads(sys.argv[1])
sys.path.insert(0, case["root"])
from harness.props import _c05_build as B
S = B.build_frame_schema(case["schema"])
via = case["snapshot_via"]
if via == "deepcopy":
    snap = copy.deepcopy(S)
elif via == "add_remove_columns":
    snap = S.add_columns({"zz": pa.Column(int)}).remove_columns(["zz"])
elif via == "rebuild":
    snap = B.build_frame_schema(case["schema"])
out = {"eq_before": bool(S == snap)}
df = B.build_frame(case["probe"])
op = case["first_op"]
try:
    if op == "validate":
        S.validate(df, lazy=True)
    elif op == "other_schema_validate":
        pa.DataFrameSchema({"q": pa.Column(int, pa.Check.isin([1]))}).validate(pd.DataFrame({"q": [1]}))
    elif op == "to_yaml":
        S.to_yaml()
    elif op == "strategy":
        S.strategy(size=1)
    elif op == "repr":
        repr(S)
    out["op"] = "ok"
except Exception as e:
    out["op"] = type(e).__name__
out["eq_after"] = bool(S == snap)
out["eq_new_deepcopy"] = bool(S == copy.deepcopy(S))
print("RESULT " + json.dumps(out))
"""


def enum_fresh(tier):
    import os

    seed = int(os.environ.get("VERIF_SEED", "1") or 1)
    checks = [[{"kind": "gt", "args": [0]}], [{"kind": "isin", "args": [[1, 2]]}, {"kind": "len_le_3", "args": []}],
              [{"kind": "len_le_3", "args": []}], []]
    probes = [[1, 2], [-1, 2]]
    cases = []
    for ci, checks_ in enumerate(checks):
        for via in ("deepcopy", "add_remove_columns", "rebuild"):
            for op in ("validate", "other_schema_validate", "to_yaml", "strategy", "repr"):
                for pi, cells in enumerate(probes):
                    cases.append({
                        "schema": {"kind": "frame", "columns": [{"name": "a", "regex": False, "dtype": "int64", "checks": checks_,
                                                                  "nullable": False, "unique": False, "coerce": False,
                                                                  "required": True}], "checks": [], "index": None},
                        "probe": {"n": 2, "columns": [{"name": "a", "phys": "int64", "cells": cells}], "index": None},
                        "snapshot_via": via, "first_op": op})
    if tier == "thorough":
        yield from cases
        return
    # quick: the validate column of the matrix for every check list / snapshot kind + a rotating rest
    must = [c for c in cases if c["first_op"] == "validate" and c["probe"]["columns"][0]["cells"][0] == 1]
    rest = [c for c in cases if c not in must]
    yield from must
    yield from rest[seed % 13::13]


def eval_fresh(case):
    import json
    import os
    import subprocess
    import sys

    from ..core import ROOT

    ev = Eval()
    ev.labels += [f"fresh:first_op={case['first_op']}", f"fresh:via={case['snapshot_via']}"]
    ev.nontrivial = bool(case["schema"]["columns"][0]["checks"]) and case["first_op"] != "repr"
    p = subprocess.run([sys.executable, "-W", "ignore", "-c", _FRESH, json.dumps(dict(case, root=ROOT))],
                       env=dict(os.environ), capture_output=True, text=True, timeout=600)
    line = next((ln for ln in p.stdout.splitlines() if ln.startswith("RESULT ")), None)
    if line is None:
        raise HarnessError(f"fresh_process subprocess produced no result: rc={p.returncode} {p.stderr[-800:]}")
    out = json.loads(line[len("RESULT "):])
    if not out["eq_before"]:
        ev.skipped = "snapshot-not-equal-initially"
        return ev
    if not out["eq_after"]:
        ev.add(f"eq-snapshot-false:fresh-process:{case['first_op']}", dict(out, via=case["snapshot_via"]))
    if not out["eq_new_deepcopy"]:
        ev.add(f"eq-new-deepcopy-false:fresh-process:{case['first_op']}", out)
    return ev


@known.finding("C05/deepcopy-owns-stale-check-dispatcher")
def _k_dispatcher(family, case, disc):
    return (family == "fresh_process" and disc.kind == "eq-snapshot-false:fresh-process:validate"
            and case["snapshot_via"] in ("deepcopy", "add_remove_columns", "rebuild")  # the constructor deep-copies too
            and any(c["kind"] in BUILTIN_KINDS for c in case["schema"]["columns"][0]["checks"]))


BUILTIN_KINDS = ("gt", "ge", "lt", "le", "eq", "ne", "in_range", "isin", "notin", "str_matches", "str_contains",
                 "str_startswith", "str_endswith", "str_length", "unique_values_eq")


def strat_history():
    from . import _c05_gen as G

    return G.history()


FAMILIES = [
    Family("history", evaluate, strategy=strat_history, n_quick=200, n_thorough=1800, shards_quick=8, shards_thorough=16,
           required_labels=["kind=frame", "kind=model", "kind=series", "validate=accept", "validate=reject",
                            "fail-then-op", "serialise-then-use", "op=statistics", "op=to_yaml", "op=to_script",
                            "op=rename_columns", "op=component_validate", "has_regex", "has_tz_agnostic",
                            "no_known_state_trigger"]),
    Family("fresh_process", eval_fresh, enumerate=enum_fresh, shards_quick=4, shards_thorough=8),
]

from . import c05_polars as _plh  # noqa: E402

FAMILIES += _plh.FAMILIES


# ---------------------------------------------------------------------- selftest


def selftest():
    """Calibration: the oracle must notice a planted state change and stay silent on a pure history."""
    case = {
        "schema": {"kind": "frame", "columns": [{"name": "a", "regex": False, "dtype": "int64", "nullable": False,
                                                 "unique": False, "coerce": False, "required": True,
                                                 "checks": [{"kind": "gt", "args": [0]}]}],
                   "strict": False, "ordered": False, "coerce": False, "name": None, "checks": [], "index": None},
        "probes": [{"n": 2, "columns": [{"name": "a", "phys": "int64", "cells": [1, 2]}], "index": None},
                   {"n": 2, "columns": [{"name": "a", "phys": "int64", "cells": [-1, 2]}], "index": None}],
        "ops": [{"op": "validate", "probe": 1, "lazy": True, "via": "validate"}, {"op": "repr"},
                {"op": "validate", "probe": 0, "lazy": False, "via": "call"}, {"op": "deepcopy"}],
    }
    ev = evaluate(case)
    # (discrepancies on this plain history would be pandera's, not the harness's: they are reported by the
    # generated search / replays as violations, never as a harness error)
    if ev.skipped or not ev.nontrivial:
        raise HarnessError(f"C05 selftest: calibration history not evaluated: {ev.skipped} nontrivial={ev.nontrivial}")
    planted = dict(case, ops=[{"op": "_planted"}, {"op": "validate", "probe": 0, "lazy": False}])
    orig = globals()["run_op"]

    def run_op_planted(h, op, probes, snapshot0):
        if op["op"] == "_planted":
            h.S.columns["a"].nullable = True
            h.S.columns["a"].checks[0].statistics["min_value"] = 5
            return "ok", None, None, None
        return orig(h, op, probes, snapshot0)

    globals()["run_op"] = run_op_planted
    try:
        ev = evaluate(planted)
    finally:
        globals()["run_op"] = orig
    kinds = [d.kind for d in ev.discs]
    if not {"state-changed:_planted:columns.nullable", "state-changed:_planted:columns.checks.statistics"} <= set(kinds):
        raise HarnessError(f"C05 selftest: planted state change not detected: {kinds}")
