"""C02 - lazy and eager validation agree; the lazy error report is exact.

Oracle per generated (S, D):
  (a) raises(lazy) <=> raises(eager)
  (b) the eager error's (reason, schema name, check) is among the lazy run's schema_errors
  (c) error_counts[r] == #{e in schema_errors : e.reason_code == r} and their sum == len(schema_errors)
  (d) report == reference: for column / index constraints the multiset of (column, constraint, row label, value)
      equals the reference model's offending cells; frame-level constraints have exactly one scalar entry
      (index None); row-wise dataframe checks and joint uniqueness are compared on row labels.
"""
from __future__ import annotations

import math
from collections import Counter

from hypothesis import strategies as st

from .. import fp, gen, known, refmodel, spec as sp
from ..core import Eval, Family
from . import c01

PROPERTY = "C02"
LEVEL = "exploration"
RULE = (
    "Same generator as C01 but biased to several simultaneous violations (60% unrepaired draws). Non-trivial: the "
    "reference error set contains >=2 distinct reason codes. Distinct = hash of the canonical JSON case."
)
ASSUMPTIONS = c01.ASSUMPTIONS + [
    "failure cases are read from SchemaErrors.failure_cases (columns schema_context, column, check, check_number, "
    "failure_case, index); values are compared after normalising null/NaN/NaT/NA and numeric types",
    "checks that ran on a column whose dtype constraint is violated are not scored (documented semantics undefined)",
]


def norm_value(v, days=False):
    """Normalise a reported / reference cell value for comparison."""
    try:
        import pandas as pd

        if v is None or v is pd.NaT or v is pd.NA:
            return "null"
        if isinstance(v, pd.Timestamp):
            d = v - pd.Timestamp(sp.EPOCH)
            return ("n", d / pd.Timedelta(days=1))
    except Exception:
        pass
    if isinstance(v, float) and math.isnan(v):
        return "null"
    if isinstance(v, (bool,)) or type(v).__name__ in ("bool_", "bool"):
        return ("n", float(bool(v)))  # bools are reported as 0/1 once mixed with other failure cases
    try:
        import numpy as np

        if isinstance(v, np.generic):
            v = v.item()
            if isinstance(v, bool):
                return ("n", float(v))
    except Exception:
        pass
    if isinstance(v, bool):
        return ("n", float(v))
    if isinstance(v, (int, float)):
        return ("n", float(v))
    if isinstance(v, str):
        return ("s", v)
    return ("o", repr(v))


def labels_of(table):
    n = sp.table_nrows(table)
    ix = table.get("index")
    if ix is None:
        return [("n", float(i)) for i in range(n)]
    if "multi" in ix:
        # pandera documents MultiIndex labels in the report as str(tuple(label))
        out = []
        for i in range(n):
            raw = tuple(l["cells"][i] for l in ix["multi"])
            out.append("null" if any(c is None for c in raw) else ("s", str(raw)))
        return out
    return [norm_value(c) if ix["phys"] != "datetime64[ns]" else ("n", float(c)) if c is not None else "null"
            for c in ix["cells"]]


def constraint_id(check, check_number):
    c = str(check)
    if c == "not_nullable":
        return "null"
    if c == "field_uniqueness":
        return "dup"
    if c.startswith("dtype("):
        return "dtype"
    if c.startswith("field_name"):
        return "name"
    if c.startswith("no_regex_column_match"):
        return "regex-nomatch"
    if check_number is not None and not (isinstance(check_number, float) and math.isnan(check_number)):
        return ("check", int(check_number))
    return ("other", c)


def ref_cid(e):
    if e.check == "not_nullable":
        return "null"
    if e.check == "field_uniqueness":
        return "dup"
    if e.check == "dtype":
        return "dtype"
    if e.check == "field_name":
        return "name"
    if e.check == "no_regex_column_match":
        return "regex-nomatch"
    if isinstance(e.check, tuple) and isinstance(e.check[0], int):
        return ("check", e.check[0])
    return ("other", str(e.check))


def reported_cells(fc):
    """failure_cases frame -> Counter of (context, column, constraint, label, value)"""
    out = Counter()
    for _, r in fc.iterrows():
        ctx = r["schema_context"]
        lab = r["index"]
        if not isinstance(lab, tuple) and norm_value(lab) == "null":
            lab = None  # scalar entry (None is stored as NaN / NaT depending on the column dtype)
        out[(ctx, r["column"], constraint_id(r["check"], r["check_number"]),
             None if lab is None else (tuple(norm_value(x) for x in lab) if isinstance(lab, tuple) else norm_value(lab)),
             norm_value(r["failure_case"]))] += 1
    return out


def evaluate(case):
    ev = Eval()
    spec, table = case["spec"], case["table"]
    try:
        ref = refmodel.ref_validate(spec, table)
    except refmodel.Undefined as e:
        ev.skipped = "undefined:" + str(e).split(" on ")[0][:40]
        return ev
    if any(l == "null" or (isinstance(l, tuple) and "null" in l) for l in labels_of(table)):
        ev.skipped = "null-index-label (scalar entries and null labels are indistinguishable in the report)"
        return ev
    schema, data = c01.build(case)
    ev.labels.append("kind=" + spec.get("kind", "dataframe"))
    ev.labels.append(f"ref_errors={min(len(ref.errors), 5)}")
    ev.nontrivial = len(ref.reasons) >= 2
    if ev.nontrivial:
        ev.labels.append("multi-reason")
    eager = fp.outcome(lambda: schema.validate(data, lazy=False))
    lazy = fp.outcome(lambda: schema.validate(data, lazy=True))
    if "internal" in (eager["kind"], lazy["kind"]) or "usage" in (eager["kind"], lazy["kind"]):
        ev.labels.append("internal-or-usage-outcome")
        return ev
    # (a)
    if (eager["kind"] == "ok") != (lazy["kind"] == "ok"):
        ev.add("lazy-eager-verdict-differ", {"eager": eager["kind"], "lazy": lazy["kind"],
                                             "eager_reasons": eager.get("reasons"), "lazy_reasons": lazy.get("reasons")})
        return ev
    if eager["kind"] == "ok":
        ev.labels.append("both-accept")
        return ev
    if eager["kind"] != "SchemaError":
        ev.add("eager-raised-not-SchemaError", {"kind": eager["kind"]})
    if lazy["kind"] != "SchemaErrors":
        ev.add("lazy-raised-not-SchemaErrors", {"kind": lazy["kind"]})
        return ev
    ee, le = eager["exc"], lazy["exc"]
    # (b)
    def ident(x):
        return (getattr(x.reason_code, "name", str(x.reason_code)), repr(getattr(x.schema, "name", None)), str(x.check))
    lazy_ids = [ident(x) for x in le.schema_errors]
    eid = ident(ee)
    if eid not in lazy_ids:
        # MultiIndex errors are re-wrapped with the MultiIndex as schema (name None) in the lazy run:
        # compare on (reason, check) there
        if (eid[0], eid[2]) not in [(a, c) for a, _, c in lazy_ids]:
            ev.add("eager-error-not-among-lazy-errors:" + eid[0], {"eager": eid, "lazy": lazy_ids[:12]})
    if any(a == "CHECK_ERROR" for a, _, _ in lazy_ids) and any(e.reason == "<check-on-wrong-dtype>" for e in ref.errors):
        ev.labels.append("check-crashed-on-wrong-dtype-data")  # expected: not scored
        return ev
    if any(a == "CHECK_ERROR" for a, _, _ in lazy_ids):
        # a built-in check crashed inside pandera: the report cannot name the offending cells
        ev.add("builtin-check-crashed-in-report", {"errors": [i for i in lazy_ids if i[0] == "CHECK_ERROR"][:3],
                                                   "crash": [str(x.failure_cases)[:160] for x in le.schema_errors
                                                             if getattr(x.reason_code, "name", "") == "CHECK_ERROR"][:3]})
        return ev
    # (c)
    try:
        counts = dict(le.error_counts)
        actual = Counter(getattr(x.reason_code, "name", str(x.reason_code)) for x in le.schema_errors)
        if {k: v for k, v in counts.items() if v} != dict(actual):
            ev.add("error_counts-mismatch", {"error_counts": counts, "by_reason": dict(actual)})
        if sum(counts.values()) != len(le.schema_errors):
            ev.add("error_counts-sum-mismatch", {"sum": sum(counts.values()), "n": len(le.schema_errors)})
    except Exception as e:
        ev.add("error_counts-unreadable", repr(e)[:200])
    # (d)
    series = spec.get("kind") == "series"
    names = [c["name"] for c in table["columns"]]
    if len(set(names)) != len(names):
        ev.labels.append("dup-labels: report exactness not scored")
        return ev
    if not series:
        _, per = refmodel.expand_columns(spec, names)
        flat = [x for m in per for x in m]
        if len(set(flat)) != len(flat):
            ev.labels.append("overlapping-column-specs: report exactness not scored")
            return ev
    try:
        rep = reported_cells(le.failure_cases)
    except Exception as e:
        ev.add("failure_cases-unreadable", repr(e)[:300])
        return ev
    if spec.get("int_labels"):
        # integer column labels are digit strings in the case and in the reference: compare in that spelling (a label
        # reported as anything else - e.g. the regex pattern of the column schema - stays what it is and will not match)
        ev.labels.append("int-labels")
        def _s(col):  # (the report's "column" column is float when it also holds the None of frame-level entries: 0 -> 0.0)
            import numbers

            if isinstance(col, numbers.Real) and not isinstance(col, bool) and float(col).is_integer():
                return str(int(col))
            return col

        rep = Counter({(ctx, _s(col), cid, lab, val): k for (ctx, col, cid, lab, val), k in rep.items()})
    labels = labels_of(table)
    series = spec.get("kind") == "series"
    tcols = {c["name"]: c for c in table["columns"]}
    def _is_index(w):
        return w == "<index>" or (isinstance(w, tuple) and bool(w) and w[0] == "<index>")

    bad_dtype_cols = {repr("<series>" if series else e.where) for e in ref.errors
                      if e.reason in ("<check-on-wrong-dtype>",) and not _is_index(e.where)}
    want = Counter()
    frame_level_want = Counter()
    rowwise_want = {}
    for e in ref.errors:
        if e.reason == "<check-on-wrong-dtype>":
            continue
        w = e.where
        is_index = w == "<index>" or (isinstance(w, tuple) and w and w[0] == "<index>")
        if is_index:
            continue  # index components: compared separately (positions vs labels)
        if w is None and not series:
            if e.rows is None:
                frame_level_want[e.reason] += 1
            else:
                rowwise_want[e.key()] = sorted(map(repr, (labels[i] for i in e.rows)))
            continue
        ctx = "SeriesSchema" if series else "Column"
        if series:
            w = "<series>"
        days = (table["columns"][0] if series else tcols.get(w, {})).get("phys") == "datetime64[ns]"
        if e.rows is None:
            want[(ctx, w, ref_cid(e), None, None)] += 1
        else:
            for i, v in zip(e.rows, e.values):
                nv = "null" if v is None else (("n", float(v)) if days else norm_value(v))
                want[(ctx, w, ref_cid(e), labels[i], nv)] += 1
    ev.labels.append("report-compared")
    if any(e.rows is not None and len(e.rows) >= 3 for e in ref.errors):
        ev.labels.append("report-compared:error-with>=3-cells")
    got = Counter()
    for (ctx, col, cid, lab, val), k in rep.items():
        if ctx not in ("Column", "SeriesSchema"):
            continue
        if series:
            col = "<series>"
        if repr(col) in bad_dtype_cols and isinstance(cid, tuple) and cid[0] == "check":
            continue
        if lab is None:
            got[(ctx, col, cid, None, None)] += k  # scalar entry: value (e.g. dtype name) not compared
        else:
            got[(ctx, col, cid, lab, val)] += k
    if want != got:
        missing = list((want - got).items())[:6]
        extra = list((got - want).items())[:6]
        kinds = sorted({str(m[0][2] if not isinstance(m[0][2], tuple) else m[0][2][0]) for m in missing + extra})
        side = "missing" if missing else "extra"
        if missing and not extra and all(m[0][2] == "dup" and m[0][4] == "null" for m in missing):
            kinds = ["dup-null"]
        ev.add(f"report-cells-differ:{side}:" + kinds[0], {"missing_from_report": missing, "not_in_reference": extra})
    # flat Index component: the failing "cells" are the labels themselves
    ixs, ixt = spec.get("index"), table.get("index")
    if ixs is not None and "multi" not in ixs and (ixt is None or "multi" not in ixt):
        ix_bad_dtype = any(e.reason == "<check-on-wrong-dtype>" and _is_index(e.where) for e in ref.errors)
        want_ix, got_ix, got_ix_pos = Counter(), Counter(), Counter()
        for e in ref.errors:
            if not _is_index(e.where) or e.reason == "<check-on-wrong-dtype>":
                continue
            if e.rows is None:
                want_ix[(ref_cid(e), None, None)] += 1
            else:
                for i in e.rows:
                    want_ix[(ref_cid(e), labels[i], labels[i])] += 1
        for (ctx, col, cid, lab, val), k in rep.items():
            if ctx != "Index":
                continue
            if ix_bad_dtype and isinstance(cid, tuple) and cid[0] == "check":
                continue
            if lab is None:
                got_ix[(cid, None, None)] += k
                got_ix_pos[(cid, None, None)] += k
            else:
                v = val if (ixt or {}).get("phys") != "datetime64[ns]" else val
                got_ix[(cid, lab, v)] += k
                # the same entry if `index` were a position into the frame
                pos = int(lab[1]) if isinstance(lab, tuple) and lab[0] == "n" and float(lab[1]).is_integer() else None
                if pos is not None and 0 <= pos < len(labels):
                    got_ix_pos[(cid, labels[pos], v)] += k
                else:
                    got_ix_pos[(cid, lab, v)] += k
        if want_ix != got_ix:
            if want_ix == got_ix_pos:
                ev.add("index-error-reports-position-not-label", {"reference": list(want_ix.items())[:4],
                                                                  "reported": list(got_ix.items())[:4]})
            elif series and not (got_ix - want_ix) and not any(c == "Index" for (c, *_r) in rep) \
                    and any(not _is_index(e.where) for e in ref.errors):
                ev.add("series-lazy-report-omits-index-errors", {"missing_from_report": list((want_ix - got_ix).items())[:5]})
            else:
                ev.add("index-report-cells-differ", {"missing_from_report": list((want_ix - got_ix).items())[:5],
                                                     "not_in_reference": list((got_ix - want_ix).items())[:5]})
    # joint uniqueness: one entry per (key column, offending row) carrying the row's label and the cell
    if not series:
        want_j = Counter()
        skip_j = False
        for e in ref.errors:
            if e.reason != "DUPLICATES" or e.rows is None:
                continue
            subset = e.check[1] if isinstance(e.check, tuple) and len(e.check) > 1 else ()
            for c in subset:
                tc = tcols.get(c)
                if tc is None:
                    skip_j = True
                    continue
                for i in e.rows:
                    v = tc["cells"][i]
                    if v is None:
                        skip_j = True  # (null key cells are dropped from the report: recorded finding, not scored here)
                    days = tc.get("phys") == "datetime64[ns]"
                    want_j[(repr(c) if not spec.get("int_labels") else repr(c), labels[i], ("n", float(v)) if days and v is not None else norm_value(v))] += 1
        got_j = Counter()
        for (ctx, col, cid, lab, val), k in rep.items():
            if ctx == "DataFrameSchema" and lab is not None and isinstance(cid, tuple) and cid[0] == "other" \
                    and str(cid[1]).startswith("multiple_fields_uniqueness"):
                got_j[(repr(col), lab, val)] += k
        if (want_j or got_j) and not skip_j:
            ev.labels.append("joint-unique-report-compared")
            if want_j != got_j:
                ev.add("joint-uniqueness-report-cells-differ", {"missing_from_report": list((want_j - got_j).items())[:5],
                                                                "not_in_reference": list((got_j - want_j).items())[:5]})
    # frame-level scalar entries
    rep_frame = Counter()
    for (ctx, col, cid, lab, val), k in rep.items():
        if ctx in ("DataFrameSchema",) and lab is None:
            rep_frame[cid if not isinstance(cid, tuple) else cid[1]] += k
    # strict and ordered are evaluated in one pass that stops at its first violation
    if frame_level_want.get("COLUMN_NOT_IN_SCHEMA") and frame_level_want.get("COLUMN_NOT_ORDERED"):
        del frame_level_want["COLUMN_NOT_ORDERED"]
    nframe = sum(frame_level_want.values())
    if not series and sum(rep_frame.values()) != nframe:
        ev.add("frame-level-entries-count", {"reference": dict(frame_level_want), "reported": {str(k): v for k, v in rep_frame.items()}})
    return ev


def strategy():
    return st.one_of(gen.case_strategy(), gen.case_strategy(), gen.repaired_case())


def eval_depths(case):
    """(a) and (b) hold at every validation depth: under SCHEMA_ONLY / DATA_ONLY lazy validation raises exactly when
    eager validation raises, and the eager error is one of the collected ones (no reference model involved)."""
    from pandera.config import ValidationDepth, config_context

    ev = Eval()
    spec, table = case["spec"], case["table"]
    schema, data = c01.build(case)
    ev.labels.append("kind=" + spec.get("kind", "dataframe"))
    for depth in ("SCHEMA_ONLY", "DATA_ONLY"):
        def run(lazy):
            def call():
                with config_context(validation_depth=getattr(ValidationDepth, depth)):
                    return schema.validate(data, lazy=lazy)
            return fp.outcome(call)
        eager, lazy = run(False), run(True)
        if "internal" in (eager["kind"], lazy["kind"]) or "usage" in (eager["kind"], lazy["kind"]):
            ev.labels.append("internal-or-usage-outcome")
            continue
        ev.labels.append(f"{depth}:" + ("accept" if eager["kind"] == "ok" else "reject"))
        if eager["kind"] != "ok":
            ev.nontrivial = True
        if (eager["kind"] == "ok") != (lazy["kind"] == "ok"):
            ev.add(f"lazy-eager-verdict-differ:{depth}", {"eager": eager["kind"], "lazy": lazy["kind"],
                                                         "eager_reasons": eager.get("reasons"), "lazy_reasons": lazy.get("reasons")})
            continue
        if eager["kind"] == "ok":
            continue
        if lazy["kind"] != "SchemaErrors" or eager["kind"] != "SchemaError":
            ev.add(f"wrong-error-class:{depth}", {"eager": eager["kind"], "lazy": lazy["kind"]})
            continue

        def ident(x):
            return (getattr(x.reason_code, "name", str(x.reason_code)), str(x.check))
        ids = [ident(x) for x in lazy["exc"].schema_errors]
        if ident(eager["exc"]) not in ids:
            ev.add(f"eager-error-not-among-lazy-errors:{depth}:" + ident(eager["exc"])[0], {"eager": ident(eager["exc"]), "lazy": ids[:10]})
        try:
            counts = {k: v for k, v in dict(lazy["exc"].error_counts).items() if v}
            actual = dict(Counter(getattr(x.reason_code, "name", str(x.reason_code)) for x in lazy["exc"].schema_errors))
            if counts != actual:
                ev.add(f"error_counts-mismatch:{depth}", {"error_counts": counts, "by_reason": actual})
        except Exception as e:
            ev.add(f"error_counts-unreadable:{depth}", repr(e)[:200])
    return ev


# ------------------------------------------------------------------ the lazy report when a coercion fails midway


@st.composite
def strat_lazy_coerce(draw):
    """A dataframe pair with row-level violations (tighten), an Index(int64, coerce=True) and one numeric column
    with coerce=True holding a cell that cannot be coerced.  Two variants of the data are derived: index labels as
    digit strings (the schema has to coerce them) and the same labels as integers (coerced by hand beforehand)."""
    import copy

    base = draw(gen.case_strategy(allow_dup_labels=False, allow_frame_checks=False))
    case = copy.deepcopy(gen.repair(base))
    for _ in range(draw(st.integers(0, 2))):
        case = draw(gen.tighten(case, ops=gen.ROW_OPS))
    spec, table = case["spec"], case["table"]
    if spec.get("kind", "dataframe") != "dataframe":
        return {"skip": "not-a-dataframe-pair"}
    n = sp.table_nrows(table)
    tcs = {c["name"]: c for c in table["columns"]}
    cands = [c for c in spec["columns"] if not c.get("regex") and c["name"] in tcs and c.get("dtype") in ("int64", "float64")
             and tcs[c["name"]]["phys"] in ("int64", "float64") and tcs[c["name"]]["cells"]]
    if n == 0:
        return {"skip": "empty"}
    labels = draw(st.lists(st.integers(-3, 30), min_size=n, max_size=n, unique=draw(st.booleans())))
    spec["index"] = {"name": None, "dtype": "int64", "nullable": False, "unique": False, "coerce": True,
                     "checks": [{"kind": "greater_than_or_equal_to", "args": {"min_value": draw(st.integers(-3, 12))}}]
                     if draw(st.booleans()) else []}
    table["index"] = {"name": None, "phys": "int64", "cells": labels}
    bad_col = None
    if cands and draw(st.integers(0, 4)) > 0:
        c = draw(st.sampled_from(cands))
        t = tcs[c["name"]]
        i = draw(st.integers(0, len(t["cells"]) - 1))
        t["cells"] = [draw(st.sampled_from(["x", "1.5.1", ""])) if j == i else (None if v is None else str(v))
                      for j, v in enumerate(t["cells"])]
        t["phys"] = "object"
        c["coerce"] = True
        bad_col = c["name"]
    if draw(st.integers(0, 5)) == 0:
        spec["coerce"] = True
    return {"spec": spec, "table": table, "bad_col": bad_col}


def _coercion_entry(cid):
    return isinstance(cid, tuple) and cid[0] == "other" and str(cid[1]).startswith("coerce_dtype")


def eval_lazy_coerce(case):
    """Metamorphic: coercing a coercible index by hand before validating does not change what lazy validation
    reports (same errors, same cells under the same - coerced - row labels).  The labels of the cells a *failed*
    coercion names are those of the data as it was when the coercion ran; they are compared up to int(label)."""
    import copy

    ev = Eval()
    if case.get("skip"):
        ev.skipped = case["skip"]
        return ev
    spec, table = case["spec"], case["table"]
    t_str = copy.deepcopy(table)
    t_str["index"]["phys"], t_str["index"]["cells"] = "object", [str(v) for v in table["index"]["cells"]]
    schema = sp.pandas_schema(spec)
    outs = {}
    for name, t in (("by-hand", table), ("by-schema", t_str)):
        data = sp.pandas_frame(t)
        o = fp.outcome(lambda: schema.validate(data, lazy=True))
        if o["kind"] in ("internal", "usage"):
            ev.labels.append("internal-or-usage-outcome")
            return ev
        outs[name] = o
    a, b = outs["by-hand"], outs["by-schema"]
    ev.labels.append("lazy_coerce:" + a["kind"])
    if case.get("bad_col"):
        ev.labels.append("lazy_coerce:column-coercion-fails")
    if a["kind"] != b["kind"]:
        ev.add("index-coerced-by-schema-changes-verdict", {"by-hand": a["kind"], "by-schema": b["kind"],
                                                           "by-schema-reasons": b.get("reasons")})
        return ev
    if a["kind"] == "ok":
        return ev

    def ids(o):
        return sorted((getattr(x.reason_code, "name", str(x.reason_code)), repr(getattr(x.schema, "name", None)),
                       str(x.check)) for x in o["exc"].schema_errors)

    def cells(o):
        out = Counter()
        for (ctx, col, cid, lab, val), k in reported_cells(o["exc"].failure_cases).items():
            if _coercion_entry(cid) and isinstance(lab, tuple) and lab[0] == "s":
                try:
                    lab = ("n", float(int(lab[1])))
                except ValueError:
                    pass
            out[(ctx, repr(col), repr(cid), lab, val)] += k
        return out

    ev.nontrivial = bool(case.get("bad_col")) and len(a["exc"].schema_errors) >= 2
    if ev.nontrivial:
        ev.labels.append("lazy_coerce:failed-coercion-plus-other-errors")
    if ids(a) != ids(b):
        ev.add("index-coerced-by-schema-changes-lazy-errors", {"by-hand": ids(a)[:8], "by-schema": ids(b)[:8]})
        return ev
    ca, cb = cells(a), cells(b)
    if ca != cb:
        ev.add("index-coerced-by-schema-changes-reported-cells", {"only-by-hand": list((ca - cb).items())[:5],
                                                                  "only-by-schema": list((cb - ca).items())[:5]})
    if dict(a["exc"].error_counts) != dict(b["exc"].error_counts):
        ev.add("index-coerced-by-schema-changes-error-counts", {"by-hand": dict(a["exc"].error_counts),
                                                                "by-schema": dict(b["exc"].error_counts)})
    return ev


FAMILIES = [
    Family("report", evaluate, strategy=strategy, n_quick=1200, n_thorough=5000, shards_quick=4, shards_thorough=16,
           required_labels=["multi-reason", "both-accept", "kind=series"]),
]

from . import plx  # noqa: E402

FAMILIES.append(
    Family("depths", eval_depths, strategy=strategy, n_quick=600, n_thorough=3000, shards_quick=3, shards_thorough=12,
           required_labels=["SCHEMA_ONLY:reject", "DATA_ONLY:reject", "DATA_ONLY:accept"]))

FAMILIES.append(
    Family("int_labels", evaluate, strategy=lambda: strategy().flatmap(gen.int_labelled), n_quick=500, n_thorough=3000,
           shards_quick=2, shards_thorough=8, required_labels=["int-labels", "report-compared", "multi-reason"]))

FAMILIES.append(
    Family("lazy_coerce", eval_lazy_coerce, strategy=strat_lazy_coerce, n_quick=500, n_thorough=3000, shards_quick=2,
           shards_thorough=8, required_labels=["lazy_coerce:failed-coercion-plus-other-errors", "lazy_coerce:ok"]))

FAMILIES.append(
    Family("polars_report", plx.eval_c02, strategy=lambda: plx.strat_case(parsers="none", containers=("df", "df", "lf_full"), nan_rate=2),
           n_quick=700, n_thorough=3000, shards_quick=3, shards_thorough=12,
           required_labels=["container=lf_full", "report-compared", "multi-reason"]))


# ---- family value_kinds (round 8): the values the report names are the cells themselves, whatever the element kind ----
_VK_POOLS = {
    "tz_berlin": lambda pd: [pd.Timestamp(f"2021-03-{27 + i} 12:30", tz="Europe/Berlin") for i in range(5)],
    "tz_utc": lambda pd: [pd.Timestamp(f"2021-01-0{i + 1} 01:00", tz="UTC") for i in range(5)],
    "naive_dt": lambda pd: [pd.Timestamp(f"2021-01-0{i + 1} 23:00") for i in range(5)],
    "timedelta": lambda pd: [pd.Timedelta(hours=i + 1) for i in range(5)],
    "Int64": lambda pd: [1, 2, 3, 40, 50],
    "category": lambda pd: ["a", "b", "c", "d", "e"],
    "object_str": lambda pd: ["a", "b", "c", "d", "e"],
    "float": lambda pd: [0.5, 1.5, 2.5, 3.5, 4.5],
}


@st.composite
def strat_value_kinds(draw):
    n = draw(st.integers(1, 6))
    return {"kind": draw(st.sampled_from(sorted(_VK_POOLS))), "cells": draw(st.lists(st.integers(0, 4), min_size=n, max_size=n)),
            "allowed": draw(st.lists(st.integers(0, 4), min_size=1, max_size=4, unique=True)),
            "labels": draw(st.lists(st.integers(-5, 40), min_size=n, max_size=n, unique=True)),
            "entry": draw(st.sampled_from(["column", "series"])), "other_col": draw(st.booleans())}


def _vk_norm(v):
    import pandas as pd

    if isinstance(v, pd.Timestamp):
        return ("ts", v.value, str(v.tz))
    if isinstance(v, pd.Timedelta):
        return ("td", v.value)
    if hasattr(v, "item"):
        v = v.item()
    return (type(v).__name__, v)


def eval_value_kinds(case):
    """Oracle: every (label, value) a report names is a cell of the validated column - the value found under that
    label, of the same kind (a tz-aware timestamp stays tz-aware, same zone) - and the named labels are exactly the
    labels whose cell is outside the allowed set; eager and lazy name the same cells."""
    import pandas as pd
    import pandera as pa

    ev = Eval()
    pool = _VK_POOLS[case["kind"]](pd)
    vals = [pool[i] for i in case["cells"]]
    dtype = {"Int64": "Int64", "category": "category", "object_str": object}.get(case["kind"])
    ser = pd.Series(vals, index=case["labels"], name="x", dtype=dtype)
    allowed = [pool[i] for i in case["allowed"]]
    check = pa.Check.isin(allowed)
    if case["entry"] == "series":
        schema, data, get = pa.SeriesSchema(None, checks=check, name="x"), ser, (lambda lab: ser.at[lab])
    else:
        data = pd.DataFrame({"x": ser})
        if case["other_col"]:
            data["y"] = range(len(ser))
        schema, get = pa.DataFrameSchema({"x": pa.Column(None, checks=check)}), (lambda lab: data.at[lab, "x"])
    expected = sorted((lab, _vk_norm(pool[i])) for lab, i in zip(case["labels"], case["cells"]) if i not in case["allowed"])
    ev.labels.append("value_kinds:" + case["kind"])
    ev.labels.append("value_kinds:" + ("some-fail" if expected else "all-pass"))
    ev.nontrivial = bool(expected)
    seen = {}
    for mode in ("eager", "lazy"):
        o = fp.outcome(lambda: schema.validate(data, lazy=(mode == "lazy")))
        if o["kind"] in ("internal", "usage"):
            ev.add("value_kinds:outcome-not-in-channel", {"mode": mode, "outcome": o["kind"], "case": case})
            return ev
        if (o["kind"] == "ok") != (not expected):
            ev.add("value_kinds:wrong-verdict", {"mode": mode, "outcome": o["kind"], "expected_failures": len(expected)})
            return ev
        if o["kind"] == "ok":
            continue
        fc = o["exc"].failure_cases
        named = sorted((row["index"], _vk_norm(row["failure_case"])) for _, row in fc.iterrows())
        for lab, v in named:
            if lab not in case["labels"]:
                ev.add("value_kinds:reported-label-not-in-data", {"mode": mode, "label": repr(lab)})
            elif _vk_norm(get(lab)) != v:
                ev.add("value_kinds:reported-value-is-not-the-cell", {"mode": mode, "label": lab, "reported": repr(v),
                                                                      "cell": repr(_vk_norm(get(lab)))})
        if [l for l, _ in named] != [l for l, _ in expected]:
            ev.add("value_kinds:reported-labels-differ-from-offending-labels",
                   {"mode": mode, "reported": [l for l, _ in named], "expected": [l for l, _ in expected]})
        seen[mode] = named
    if len(seen) == 2 and seen["eager"] != seen["lazy"]:
        ev.add("value_kinds:eager-and-lazy-name-different-cells", {"eager": repr(seen["eager"])[:200], "lazy": repr(seen["lazy"])[:200]})
    return ev


FAMILIES.append(
    Family("value_kinds", eval_value_kinds, strategy=strat_value_kinds, n_quick=400, n_thorough=3000, shards_quick=2,
           shards_thorough=8, required_labels=["value_kinds:tz_berlin", "value_kinds:Int64", "value_kinds:some-fail",
                                               "value_kinds:all-pass"]))


def selftest():
    refmodel.selftest()


@known.finding("C02/frame-check-failure-on-multiindex-crashes")
def _kf_frame_check_multiindex(family, case, disc):
    ix = case["table"].get("index")
    return (disc.kind == "builtin-check-crashed-in-report" and bool(case["spec"].get("checks"))
            and ix is not None and "multi" in ix and "list-like" in str(disc.detail))


@known.finding("C02/null-duplicates-missing-from-report")
def _kf_null_dups(family, case, disc):
    return disc.kind == "report-cells-differ:missing:dup-null"


@known.finding("C02/flat-index-schema-on-multiindex-lazy-raises-SchemaError")
def _kf_mismatch_index(family, case, disc):
    ixs, ixt = case["spec"].get("index"), case["table"].get("index")
    d = disc.detail if isinstance(disc.detail, dict) else {}
    symptom = disc.kind == "lazy-raised-not-SchemaErrors" or (
        disc.kind.startswith("wrong-error-class:") and d.get("lazy") == "SchemaError" and d.get("eager") == "SchemaError")
    return (symptom and case["spec"].get("kind") == "series" and ixs is not None
            and "multi" not in ixs and ixt is not None and "multi" in ixt)


@known.finding("C02/index-errors-report-position-not-label")
def _kf_index_pos(family, case, disc):
    return disc.kind == "index-error-reports-position-not-label" and case["spec"].get("index") is not None


@known.finding("C02/series-lazy-report-omits-index-errors")
def _kf_series_index_omitted(family, case, disc):
    return disc.kind == "series-lazy-report-omits-index-errors" and case["spec"].get("kind") == "series"
