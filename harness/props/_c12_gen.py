"""C12 helpers: SchemaSpec strategies (serialisable vocabulary only), builders, probe frames.

A *spec* is plain JSON.  Values that JSON cannot carry are tagged:
  {"ts": "2020-01-01 00:00:00"[, "tz": "UTC"]}  -> pd.Timestamp
  {"td": <nanoseconds>}                          -> pd.Timedelta
  {"f": "inf" | "-inf"}                          -> float
Only this module touches pandera / pandas constructors.
"""
from __future__ import annotations

from hypothesis import strategies as st

# ------------------------------------------------------------------ vocabulary

INT_DTYPES = ["int64", "int32", "int8", "uint8", "Int64"]
FLOAT_DTYPES = ["float64", "float32", "Float64"]
BOOL_DTYPES = ["bool", "boolean"]
STR_DTYPES = ["str", "object", "string", "category"]
DT_DTYPES = ["datetime64[ns]"]
DTZ_DTYPES = ["datetime64[ns, UTC]"]
TD_DTYPES = ["timedelta64[ns]"]
ALL_DTYPES = INT_DTYPES + FLOAT_DTYPES + BOOL_DTYPES + STR_DTYPES + DT_DTYPES + DTZ_DTYPES + TD_DTYPES


def dclass(tag):
    if tag is None or tag in INT_DTYPES:
        return "int"
    if tag in FLOAT_DTYPES:
        return "float"
    if tag in BOOL_DTYPES:
        return "bool"
    if tag in STR_DTYPES:
        return "str"
    if tag in DT_DTYPES:
        return "dt"
    if tag in DTZ_DTYPES:
        return "dtz"
    if tag in TD_DTYPES:
        return "td"
    raise ValueError(tag)


# regex column keys with frame column names that match them (used by the probe generator)
REGEX_KEYS = {
    "b.*": ["b1", "bx"],
    "^c_\\d+$": ["c_1", "c_22"],
    "(x|y)z": ["xz", "yz"],
    "col[0-9]": ["col0", "col7"],
}

# strings that are legal everywhere but stress YAML/JSON/script quoting
TRICKY_SAFE = [
    "", "null", "Null", "yes", "no", "true", "1", "1.5", "~", "a: b", "- x", "#c", "k: [1, 2]", "{x}", "{0}", "[y]",
    "%d", "&a", "*a", "!t", "|", ">", "@x", "`x`", " lead", "trail ", "a  b", "2020-01-01", "0x1F", "1e3", "=", "?",
    "é", "日本", "ünï", "naïve café", "Timestamp", "a,b", "None", "True", "a;b", "$x", "x'y",
    # characters a serialiser may normalise when written unescaped: NEL / LS / PS line breaks, BOM, tab, CR, DEL,
    # no-break space, an astral code point
    "a\u0085b", "a\u2028b", "\u2029", "\ufeffx", "a\tb", "a\rb", "\x7f", "\u00a0", "\U0001f600", "x\u0085",
]
SAFE_ALPHABET = "abcxyzAZ019 _-:#.,/()é日"
# characters the script emitter must escape (title/description/name literals are emitted inside "..."; column
# keys inside '...')
UNSAFE_COMPONENT_CHARS = ['"', "\\", "\n"]
UNSAFE_KEY_CHARS = ["'", "\\", "\n"]

# features with a recorded defect; a 'wild' case enables a random subset, a 'clean' case none
KNOWN_BAD = ["strict-filter", "schema-title", "schema-description", "schema-dtype", "frame-checks", "index-unique",
             "colkey-unsafe", "colkey-nonstr", "component-string-unsafe", "dup-check-names", "unique_values_eq",
             "dt-subsecond", "dt-tz-value", "dt-list-value", "float-inf"]

BUILTIN_OPT_DEFAULTS = {"ignore_na": True, "raise_warning": False, "n_failure_cases": None}


def has_unsafe(s, chars):
    return isinstance(s, str) and any(c in s for c in chars)


# ------------------------------------------------------------------ strategies


def text_st(wild, unsafe_chars, allow_none=True, min_size=0):
    base = st.one_of(
        st.sampled_from([t for t in TRICKY_SAFE if len(t) >= min_size and not has_unsafe(t, unsafe_chars)]),
        st.text(SAFE_ALPHABET, min_size=min_size, max_size=8),
    )
    if wild:
        bad = st.builds(lambda a, c, b: a + c + b, st.text("ab ", max_size=3), st.sampled_from(unsafe_chars),
                        st.text("cd", max_size=2))
        base = st.one_of(base, base, base, bad)
    if allow_none:
        return st.one_of(st.none(), st.none(), base)
    return base


def _ts(en, tz):
    secs = st.sampled_from(["2020-01-01 00:00:00", "2019-12-31 23:59:59", "2021-06-01 12:30:05", "1999-01-01 00:00:00",
                            "2020-02-29 06:00:00", "2262-01-01 00:00:00", "1970-01-01 00:00:00"])
    if "dt-subsecond" in en:
        secs = st.one_of(secs, secs, st.sampled_from(["2020-01-01 00:00:00.500000", "2020-01-01 00:00:00.000001",
                                                      "2020-01-01 00:00:00.000000001"]))
    if tz:
        return st.builds(lambda s: {"ts": s, "tz": "UTC"}, secs)
    return st.builds(lambda s: {"ts": s}, secs)


def value_st(cls, en):
    """Strategy of one check-argument value for a dtype class."""
    if cls == "int":
        return st.one_of(st.integers(-3, 9), st.integers(-3, 9), st.sampled_from([100, -128, 255, 2**40, -(2**53) - 1]))
    if cls == "float":
        fl = st.sampled_from([-1.5, 0.0, 0.1, 0.5, 2.5, 1e-7, 1e16, 3.0, -0.0, 1 / 3, 5e-324, 1.7976931348623157e308])
        base = st.one_of(fl, st.integers(-3, 9))
        if "float-inf" in en:
            base = st.one_of(base, base, base, st.sampled_from([{"f": "inf"}, {"f": "-inf"}]))
        return base
    if cls == "bool":
        return st.booleans()
    if cls == "str":
        return text_st(False, [], allow_none=False)
    if cls == "dt":
        return _ts(en, False)
    if cls == "dtz":
        return _ts(en, True)
    if cls == "td":
        return st.builds(lambda n: {"td": n}, st.sampled_from([0, 1, 1000, 10**9, 2 * 10**9, 86400 * 10**9, -(10**9),
                                                               1500000]))
    raise ValueError(cls)


def decode(v):
    import pandas as pd

    if isinstance(v, dict):
        if "ts" in v:
            return pd.Timestamp(v["ts"], tz=v.get("tz"))
        if "td" in v:
            return pd.Timedelta(v["td"], unit="ns")
        if "f" in v:
            return float(v["f"])
        raise ValueError(v)
    if isinstance(v, list):
        return [decode(x) for x in v]
    return v


def _sortkey(v):
    d = decode(v)
    return d


COMPARISONS = ["equal_to", "not_equal_to", "greater_than", "greater_than_or_equal_to", "less_than",
               "less_than_or_equal_to"]
ARGNAME = {"equal_to": "value", "not_equal_to": "value", "greater_than": "min_value",
           "greater_than_or_equal_to": "min_value", "less_than": "max_value", "less_than_or_equal_to": "max_value"}
STR_CHECKS = ["str_matches", "str_contains", "str_startswith", "str_endswith", "str_length"]
PATTERNS = ["^a", "b$", "a+b", "[a-c]{1,2}", "x|y", "\\d+", "^\\w*$", "a\"b", "it's", "\\\\", "(?i)ab", ".", "a\nb"]


def opts_st():
    return st.fixed_dictionaries({
        "ignore_na": st.sampled_from([True, True, True, False]),
        "raise_warning": st.sampled_from([False, False, False, True]),
        "n_failure_cases": st.sampled_from([None, None, None, 1, 3]),
    })


@st.composite
def check_st(draw, cls, en):
    """One built-in check spec for a dtype class."""
    names = list(COMPARISONS) + ["in_range"]
    if cls not in ("bool",):
        names += ["isin", "notin"]
    if cls == "str":
        names = ["equal_to", "not_equal_to", "isin", "notin"] + STR_CHECKS + STR_CHECKS
    if cls == "bool":
        names = ["equal_to", "not_equal_to", "isin"]
    if "unique_values_eq" in en and cls in ("int", "str"):
        names = names + ["unique_values_eq"]
    name = draw(st.sampled_from(names))
    val = value_st(cls, en)
    if name in COMPARISONS:
        args = {ARGNAME[name]: draw(val)}
    elif name == "in_range":
        a, b = draw(val), draw(val)
        tries = 0
        while decode(a) == decode(b) and tries < 5:
            b = draw(val)
            tries += 1
        if decode(a) == decode(b):
            name, args = "greater_than", {"min_value": a}
        else:
            lo, hi = sorted([a, b], key=_sortkey)
            args = {"min_value": lo, "max_value": hi, "include_min": draw(st.booleans()),
                    "include_max": draw(st.booleans())}
    elif name in ("isin", "notin", "unique_values_eq"):
        if cls in ("dt", "dtz", "td") and "dt-list-value" not in en:
            # list-valued statistics on datetime-like columns: only behind the known finding
            name, args = "greater_than", {"min_value": draw(val)}
        else:
            vals = draw(st.lists(val, min_size=1, max_size=3, unique_by=lambda v: repr(decode(v))))
            key = {"isin": "allowed_values", "notin": "forbidden_values", "unique_values_eq": "values"}[name]
            args = {key: vals}
    elif name in ("str_matches", "str_contains"):
        args = {"pattern": draw(st.sampled_from(PATTERNS))}
    elif name in ("str_startswith", "str_endswith"):
        args = {"string": draw(text_st(False, [], allow_none=False))}
    elif name == "str_length":
        lo = draw(st.one_of(st.none(), st.integers(0, 3)))
        hi = draw(st.one_of(st.none(), st.integers(3, 6)))
        if lo is None and hi is None:
            lo = 1
        args = {"min_value": lo, "max_value": hi}
    else:  # pragma: no cover
        raise ValueError(name)
    return {"name": name, "args": args, "opts": draw(opts_st())}


def _fix_ge_le(checks):
    """pandera documents (ValueError in parse_checks) that ge(min) and le(max) with min > max cannot be written;
    keep generated schemas inside that precondition by swapping the two bounds."""
    ge = [c for c in checks if c["name"] == "greater_than_or_equal_to"]
    le = [c for c in checks if c["name"] == "less_than_or_equal_to"]
    if ge and le:
        vals = sorted([c["args"]["min_value"] for c in ge] + [c["args"]["max_value"] for c in le], key=_sortkey)
        for c in ge:
            c["args"]["min_value"] = vals[0]
        for c in le:
            c["args"]["max_value"] = vals[-1]
    return checks


@st.composite
def checks_st(draw, cls, en, max_size=3):
    n = draw(st.sampled_from([0, 0, 1, 1, 2, 3][: 3 + max_size]))
    out = []
    for _ in range(n):
        c = draw(check_st(cls, en))
        if any(o["name"] == c["name"] for o in out):
            # two checks of the same kind on one component: only behind the known finding
            if not ("dup-check-names" in en and draw(st.booleans())):
                continue
        out.append(c)
    return _fix_ge_le(out)


@st.composite
def column_st(draw, en, key):
    dtype = draw(st.one_of(st.none(), st.sampled_from(ALL_DTYPES), st.sampled_from(ALL_DTYPES)))
    cls = dclass(dtype)
    cclass = None
    if dtype is None and draw(st.integers(0, 2)) == 0:
        # a column that declares no dtype of its own still has values of some kind (often the schema-wide dtype says
        # which): its checks then carry bounds of that kind - timestamps, durations, text
        cclass = cls = draw(st.sampled_from(["dt", "dt", "td", "str"]))
    return {
        "key": key,
        "cclass": cclass,
        "dtype": dtype,
        "nullable": draw(st.booleans()),
        "unique": draw(st.sampled_from([False, False, True])),
        "coerce": draw(st.sampled_from([False, False, True])),
        "required": draw(st.sampled_from([True, True, False])),
        "regex": isinstance(key, str) and key in REGEX_KEYS,
        "title": draw(text_st("component-string-unsafe" in en, UNSAFE_COMPONENT_CHARS)),
        "description": draw(text_st("component-string-unsafe" in en, UNSAFE_COMPONENT_CHARS)),
        # tz-aware check values are only generated behind the known finding (not representable in YAML/JSON)
        "checks": draw(checks_st(cls, en)) if ("dt-tz-value" in en or cls != "dtz") else [],
    }


@st.composite
def index_level_st(draw, en, name):
    dtype = draw(st.one_of(st.none(), st.sampled_from(INT_DTYPES + STR_DTYPES[:2] + DT_DTYPES + FLOAT_DTYPES[:1])))
    cls = dclass(dtype)
    return {
        "name": name,
        "dtype": dtype,
        "nullable": draw(st.sampled_from([False, False, True])),
        "unique": draw(st.booleans()) if "index-unique" in en else False,
        "coerce": draw(st.sampled_from([False, False, True])),
        "title": draw(text_st("component-string-unsafe" in en, UNSAFE_COMPONENT_CHARS)),
        "description": draw(text_st("component-string-unsafe" in en, UNSAFE_COMPONENT_CHARS)),
        "checks": draw(checks_st(cls, en, max_size=2)),
    }


@st.composite
def schema_st(draw, en):
    ncols = draw(st.sampled_from([0, 1, 1, 2, 2, 3, 4]))
    keys = []
    for _ in range(ncols):
        kind = draw(st.sampled_from(["plain", "plain", "plain", "text", "regex"]
                                    + (["int"] * 5 if "colkey-nonstr" in en else ["text"])))
        if kind == "plain":
            k = draw(st.sampled_from(["a", "b", "c", "col", "x1", "Ab", "price", "ts"]))
        elif kind == "text":
            k = draw(text_st("colkey-unsafe" in en, UNSAFE_KEY_CHARS, allow_none=False))
        elif kind == "regex":
            k = draw(st.sampled_from(sorted(REGEX_KEYS)))
        else:
            k = draw(st.integers(0, 3))
        if any(repr(k) == repr(o) or str(k) == str(o) for o in keys):
            continue
        keys.append(k)
    columns = [draw(column_st(en, k)) for k in keys]
    # features that need a particular dtype to show: add one column of that dtype with >= 2 check draws
    forced = {"dt-tz-value": "datetime64[ns, UTC]", "dt-subsecond": "datetime64[ns]", "dt-list-value": "datetime64[ns]",
              "float-inf": "float64", "unique_values_eq": "int64", "dup-check-names": "int64"}
    for feat, tag in forced.items():
        if feat in en and not any(repr(c["key"]) == repr("f_" + feat[:4]) for c in columns):
            col = draw(column_st(en, "f_" + feat[:4]))
            col["dtype"] = tag
            col["checks"] = [draw(check_st(dclass(tag), en)) for _ in range(draw(st.integers(2, 3)))]
            if feat == "dup-check-names":
                # make sure two checks of one kind meet: redraw until the name repeats, else repeat the first check
                first = col["checks"][0]
                twin = None
                for _ in range(6):
                    c = draw(check_st(dclass(tag), en))
                    if c["name"] == first["name"]:
                        twin = c
                        break
                col["checks"].insert(1, twin or {"name": first["name"], "args": dict(first["args"]),
                                                 "opts": draw(opts_st())})
            col["checks"] = _fix_ge_le(col["checks"])
            if "dup-check-names" not in en:
                seen, uniq = set(), []
                for k in col["checks"]:
                    if k["name"] not in seen:
                        seen.add(k["name"])
                        uniq.append(k)
                col["checks"] = uniq
            columns.append(col)

    cu = "component-string-unsafe" in en
    nlev = draw(st.sampled_from([0, 0, 1, 1, 2, 3]))
    if "index-unique" in en and nlev == 0:
        nlev = 1
    index = None
    if nlev == 1:
        index = [draw(index_level_st(en, draw(text_st(cu, UNSAFE_COMPONENT_CHARS))))]
    elif nlev > 1:
        names = draw(st.lists(text_st(cu, UNSAFE_COMPONENT_CHARS, allow_none=False, min_size=1), min_size=nlev,
                              max_size=nlev, unique=True))
        index = [draw(index_level_st(en, n)) for n in names]

    plain_keys = [c["key"] for c in columns if not c["regex"] and isinstance(c["key"], str)]
    unique = None
    if plain_keys and draw(st.sampled_from([False, False, True])):
        sub = draw(st.lists(st.sampled_from(plain_keys), min_size=1, max_size=2, unique=True))
        unique = sub[0] if len(sub) == 1 and draw(st.booleans()) else sub

    frame_checks = []
    if "frame-checks" in en:
        fcls = draw(st.sampled_from(["int", "int", "int", "dt"]))  # (a frame of timestamps has timestamp bounds)
        frame_checks = draw(checks_st(fcls, en, max_size=2))
        if not frame_checks:
            frame_checks = [draw(check_st(fcls, en))]

    return {
        "columns": columns,
        "index": index,
        "checks": frame_checks,
        "dtype": draw(st.sampled_from(["int64", "float64", "str", "datetime64[ns]", "timedelta64[ns]"])) if "schema-dtype" in en else None,
        "coerce": draw(st.sampled_from([False, False, True])),
        "strict": "filter" if "strict-filter" in en else draw(st.sampled_from([False, False, True])),
        "name": draw(text_st(True, UNSAFE_COMPONENT_CHARS)),  # emitted with repr(): unsafe characters are fine
        "ordered": draw(st.sampled_from([False, False, True])),
        "unique": unique,
        "report_duplicates": draw(st.sampled_from(["all", "all", "exclude_first", "exclude_last"])),
        "unique_column_names": draw(st.sampled_from([False, False, True])),
        "add_missing_columns": draw(st.sampled_from([False, False, True])),
        "title": draw(text_st(True, UNSAFE_COMPONENT_CHARS, allow_none=False)) if "schema-title" in en else None,
        "description": (draw(text_st(True, UNSAFE_COMPONENT_CHARS, allow_none=False))
                        if "schema-description" in en else None),
    }


# -- probe frames ---------------------------------------------------------------------------------------


def _arg_values(checks):
    out = []
    for c in checks:
        for v in c["args"].values():
            if isinstance(v, list):
                out += v
            elif v is not None and not isinstance(v, bool):
                out.append(v)
    return out


def pool(tag, checks):
    cls = dclass(tag)
    args = _arg_values(checks)
    if cls in ("int", "float"):
        p = [-1, 0, 1, 2, 3, 5, 6, None]
        for a in args:
            if isinstance(a, int) and abs(a) < 2**31:
                p += [a - 1, a, a + 1]
            elif isinstance(a, float):
                p += [a]
        if cls == "float":
            p += [0.5, 2.5]
        return p
    if cls == "bool":
        return [True, False, None]
    if cls == "str":
        return ["", "a", "ab", "b", "x", "abc", "xyz", "1", None] + [a for a in args if isinstance(a, str)]
    if cls in ("dt", "dtz"):
        tz = {"tz": "UTC"} if cls == "dtz" else {}
        base = [{"ts": s, **tz} for s in ("2020-01-01 00:00:00", "2019-12-31 23:59:59", "2021-06-01 12:30:05",
                                          "2020-01-01 00:00:01")]
        return base + [a for a in args if isinstance(a, dict) and "ts" in a] + [None]
    if cls == "td":
        return [{"td": n} for n in (0, 10**9, 2 * 10**9, 1)] + [a for a in args if isinstance(a, dict) and "td" in a] + [None]
    raise ValueError(cls)


def _cell_key(v):
    return repr(v)


@st.composite
def probe_st(draw, spec):
    n = draw(st.integers(0, 4))
    cols = []
    for c in spec["columns"]:
        names = REGEX_KEYS[c["key"]] if c["regex"] else [c["key"]]
        for nm in names:
            if draw(st.integers(0, 9)) == 0:
                continue  # column absent
            phys = c["dtype"] or {"dt": "datetime64[ns]", "td": "timedelta64[ns]", "str": "str"}.get(c.get("cclass"), "int64")
            if draw(st.integers(0, 7)) == 0:
                phys = draw(st.sampled_from(["int64", "float64", "object", "str"]))
            p = pool(phys, c["checks"] + spec["checks"])
            cells = [draw(st.sampled_from(p)) for _ in range(n)]
            cols.append([nm, phys, cells])
    if draw(st.integers(0, 5)) == 0:
        cols.append(["zz_extra", "int64", [draw(st.integers(0, 3)) for _ in range(n)]])
    if draw(st.integers(0, 5)) == 0:
        cols = cols[::-1]
    index = None
    if spec["index"]:
        index = []
        for lv in spec["index"]:
            phys = lv["dtype"] or "int64"
            p = [x for x in pool(phys, lv["checks"]) if x is not None] + ([None] if draw(st.integers(0, 5)) == 0 else [])
            nm = lv["name"] if draw(st.integers(0, 7)) else "other"
            index.append([nm, phys, [draw(st.sampled_from(p)) for _ in range(n)]])
        if len(index) > 1 and draw(st.integers(0, 7)) == 0:
            index = index[::-1]
    elif draw(st.integers(0, 5)) == 0:
        index = [["i", "int64", [draw(st.integers(0, 2)) for _ in range(n)]]]
    return {"n": n, "cols": cols, "index": index}


@st.composite
def case_st(draw, n_probes=3):
    mode = draw(st.sampled_from(["clean", "clean", "clean", "wild", "wild"]))
    en = frozenset()
    if mode == "wild":
        # 1-3 of the features with a recorded defect: the search goes on behind each of them separately
        en = frozenset(draw(st.lists(st.sampled_from(KNOWN_BAD + ["colkey-nonstr"]), min_size=1, max_size=3, unique=True)))
    spec = draw(schema_st(en))
    probes = [draw(probe_st(spec)) for _ in range(n_probes)]
    return {"mode": mode, "schema": spec, "probes": probes}


# ------------------------------------------------------------------ builders


def build_check(c):
    import pandera as pa

    fn = getattr(pa.Check, c["name"])
    args = {k: decode(v) for k, v in c["args"].items()}
    opts = {k: v for k, v in (c.get("opts") or {}).items()}
    return fn(**args, **opts)


def build_schema(spec):
    """A fresh pandera schema for the spec (never reuse: emitters may mutate what they are given)."""
    import pandera as pa

    cols = {}
    for c in spec["columns"]:
        cols[c["key"]] = pa.Column(
            c["dtype"], checks=[build_check(k) for k in c["checks"]], nullable=c["nullable"], unique=c["unique"],
            coerce=c["coerce"], required=c["required"], regex=c["regex"], title=c["title"],
            description=c["description"],
        )
    index = None
    if spec["index"]:
        levels = [
            pa.Index(lv["dtype"], checks=[build_check(k) for k in lv["checks"]], nullable=lv["nullable"],
                     unique=lv["unique"], coerce=lv["coerce"], name=lv["name"], title=lv["title"],
                     description=lv["description"])
            for lv in spec["index"]
        ]
        index = levels[0] if len(levels) == 1 else pa.MultiIndex(levels)
    return pa.DataFrameSchema(
        cols, checks=[build_check(k) for k in spec["checks"]], index=index, dtype=spec["dtype"],
        coerce=spec["coerce"], strict=spec["strict"], name=spec["name"], ordered=spec["ordered"],
        unique=spec["unique"], report_duplicates=spec["report_duplicates"],
        unique_column_names=spec["unique_column_names"], add_missing_columns=spec["add_missing_columns"],
        title=spec["title"], description=spec["description"],
    )


def _series(phys, cells):
    import pandas as pd

    vals = [decode(v) for v in cells]
    if phys == "str":
        phys = "object"
    try:
        return pd.Series(vals, dtype=phys)
    except Exception:
        try:
            return pd.Series(vals, dtype="float64")
        except Exception:
            return pd.Series(vals, dtype=object)


def build_frame(probe):
    import pandas as pd

    n = probe["n"]
    data = {}
    for i, (nm, phys, cells) in enumerate(probe["cols"]):
        data[i] = _series(phys, cells)
    df = pd.DataFrame(data, index=range(n))
    df.columns = pd.Index([nm for nm, _, _ in probe["cols"]], dtype=object)
    if probe["index"]:
        levels = [pd.Index(_series(phys, cells), name=nm) for nm, phys, cells in probe["index"]]
        if len(levels) == 1:
            df.index = levels[0]
        else:
            df.index = pd.MultiIndex.from_arrays(levels, names=[nm for nm, _, _ in probe["index"]])
    return df
