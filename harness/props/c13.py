"""C13 - every synthesised example satisfies the schema that produced it.

Families
  field   SeriesSchema / Column / Index with a generated dtype, a generated *chain* of 0-4 checks (built-in
          with optional arguments left None, regex metacharacters in literals, custom element-wise / vectorised
          checks without strategy, custom checks with a ``strategy=`` and a registered extension check),
          nullable / unique flags and a requested size
  frame   DataFrameSchema (1-3 columns, regex columns, Index / MultiIndex schema, joint ``unique``,
          dataframe-level checks) and stand-alone MultiIndex
  fresh   a fixed list of Index / MultiIndex / Series / Column / DataFrame schemas, each evaluated in a newly
          started interpreter where the draw is the very first use of pandera (state a user's script starts in);
          the same case is re-evaluated afterwards in that process as the control

Oracle: k draws are taken from ``S.strategy(size=n)`` with a seed that is part of the case; every returned draw
must be of the documented container type and must pass ``S.validate`` (lazy, so every failing constraint is
seen).  A strategy that raises anything but Hypothesis' ``Unsatisfiable`` on a schema that an independent model
(and pandera's own validate on a witness built by that model) shows to be satisfiable is a ``strategy-crash``.
Filter exhaustion on a satisfiable schema is *incomplete* (label), never scored.
"""
from __future__ import annotations

import traceback

from hypothesis import strategies as st

from .. import known
from ..core import Eval, Family, HarnessError
from . import _c13_spec as sp

PROPERTY = "C13"
LEVEL = "exploration"
RULE = (
    "Hypothesis generates a JSON schema spec (dtype x chain of 0-4 checks around a hidden target value x "
    "nullable/unique x size x container; frames add regex columns, Index/MultiIndex, joint unique and "
    "dataframe-level checks) plus a draw seed; evaluate takes k=5 seeded draws from schema.strategy(size=n) and "
    "validates each. Non-trivial: at least one draw was returned (or the strategy crashed on a satisfiable schema) "
    "AND (a chain of >=2 checks on one field, or a nullable/unique flag together with an index schema or >=2 "
    "fields, or an optional check argument left None). A share of cases ('clean') avoids every feature of a "
    "recorded known finding so the search continues behind them. Family 'fresh' enumerates 9 fixed schemas x "
    "seed-dependent sizes in fresh interpreters. Distinct = hash of the canonical JSON case."
)
ASSUMPTIONS = [
    "pandera's validate() is the acceptance oracle for a draw (the property is stated relative to it)",
    "check arguments lie inside the dtype's value range and are exactly representable (ints for integer dtypes, "
    "multiples of 1/4 for floats): out-of-range arguments are treated as a violated precondition, not generated",
    "satisfiable/unsatisfiable labels come from an independent candidate-enumeration model; 'sat' is additionally "
    "confirmed by validating a witness frame with pandera; a strategy crash is only scored for confirmed-sat schemas",
    "schema.example() is not exercised (unseedable); it delegates to strategy(size).example()",
    "draws are taken by driving the strategy with a seeded hypothesis ConjectureData (internal API, calibrated by "
    "selftest) rather than @given: at most 40 generation attempts per case, no engine mutation/zero example",
]

K_DRAWS = 5
ATTEMPT_LIMIT = 40

# ------------------------------------------------------------------ generators

ORDERED_TAGS = ["int64", "int64", "int32", "int16", "int8", "uint8", "uint32", "Int64", "Int8", "UInt8",
                "float64", "float64", "float32", "Float64",
                "datetime64[ns]", "datetime64[ns, UTC]", "datetime64[ns, Europe/Berlin]", "timedelta64[ns]", "timedelta64[ns]"]
STR_TAGS = ["str", "str", "object", "string"]
OTHER_TAGS = ["bool", "boolean", "complex128"]

PREFIXES = ["a", "ab", "Q_", "a+", "(", "x.", "[k", "p|q", "\\d", "^", "é"]
SUFFIXES = ["z", "yz", "_9", ")", "z*", "$", "?", ".", "]"]
PLAIN_PREFIXES = ["a", "ab", "Q_", "é"]
PLAIN_SUFFIXES = ["z", "yz", "_9"]
MIDS = [("[0-9]{2}", "42"), ("foo", "foo"), ("b.d", "bxd"), ("(?:hi)+", "hihi"), ("\\.", "."), ("[A-C]", "B")]
REGEX_COLS = [("x_[ab]", ["x_a", "x_b"]), ("y\\d", ["y1", "y2"]), ("w(?:oo|aa)", ["woo", "waa"])]


def _tag_strategy():
    return st.one_of(st.sampled_from(ORDERED_TAGS), st.sampled_from(ORDERED_TAGS), st.sampled_from(STR_TAGS),
                     st.sampled_from(OTHER_TAGS))


@st.composite
def st_ordered_check(draw, tag, t, pos, clean, role="column"):
    kinds = ["eq", "ne", "gt", "ge", "lt", "le", "in_range", "isin", "notin", "ew_gt", "vec_ge", "strat_le",
             "ext_ge", "gt", "lt", "notin"]  # strict bounds / exclusion lists twice: boundary handling is the subtle part
    if clean and role in ("index", "level"):
        kinds = [k for k in kinds if k != "vec_ge"]
    if pos == 0:
        c = draw(st.one_of(st.sampled_from(["eq", "isin", "in_range", "in_range"]), st.sampled_from(kinds)))
    else:
        c = draw(st.sampled_from(kinds))
    if clean and pos > 0 and c == "eq":
        c = "ne"
    consistent = draw(st.integers(0, 9)) < (8 if pos else 9)
    d = draw(st.integers(0, 4))
    delta = draw(st.integers(-3, 3))
    if c == "eq":
        return {"c": c, "v": t if consistent else t + delta}
    if c == "ne":
        return {"c": c, "v": t + (delta or 1) if consistent else t + delta}
    if c in ("gt", "ew_gt"):
        return {"c": c, "v": t - d - 1 if consistent else t + delta}
    if c in ("ge", "vec_ge", "ext_ge"):
        return {"c": c, "v": t - d if consistent else t + delta}
    if c == "lt":
        return {"c": c, "v": t + d + 1 if consistent else t + delta}
    if c in ("le", "strat_le"):
        return {"c": c, "v": t + d if consistent else t + delta}
    if c == "in_range":
        d2 = draw(st.integers(0, 4))
        imin, imax = draw(st.booleans()), draw(st.booleans())
        if clean and sp.cls_of(tag) != "float":
            imin = imax = True
        if consistent:
            lo, hi = t - d - (0 if imin else 1), t + d2 + (0 if imax else 1)
        else:
            lo = t + delta
            hi = lo + d2 + (0 if (imin and imax) else 2)
        return {"c": c, "lo": lo, "hi": hi, "imin": imin, "imax": imax}
    others = draw(st.lists(st.sampled_from([-1, 1, -2, 2, -1, 1, 3, -3, 4, -4]), min_size=0 if c == "isin" else 1,
                           max_size=3, unique=True))
    if c == "isin":
        vs = sorted({t + o for o in others} | ({t} if consistent else {t + (delta or 2)}))
        return {"c": c, "vs": vs}
    return {"c": "notin", "vs": sorted({t + o for o in others} | (set() if consistent else {t}))}


@st.composite
def st_str_chain(draw, n, clean):
    pre = draw(st.sampled_from(PLAIN_PREFIXES if clean else PREFIXES))
    suf = draw(st.sampled_from(PLAIN_SUFFIXES if clean else SUFFIXES))
    midp, mids = draw(st.sampled_from(MIDS))
    target = pre + mids + suf
    import re as _re

    chain = []
    full = _re.escape(pre) + midp + _re.escape(suf)
    for pos in range(n):
        if pos == 0 and draw(st.booleans()):
            # restrictive base: later checks then act as filters on target-like strings
            c = draw(st.sampled_from(["eq", "isin", "str_matches"]))
        else:
            c = draw(st.sampled_from(sp.STR_CHECKS + ["str_matches", "str_contains", "str_startswith", "str_endswith",
                                                      "str_length"]))
        if clean and pos > 0 and c == "eq":
            c = "ne"
        consistent = draw(st.integers(0, 9)) < 8
        if c == "eq":
            chain.append({"c": c, "v": target if consistent else pre})
        elif c == "ne":
            chain.append({"c": c, "v": pre + suf if consistent else target})
        elif c == "isin":
            chain.append({"c": c, "vs": [target, pre + suf] if consistent else [pre, suf, "zz"]})
        elif c == "notin":
            chain.append({"c": c, "vs": [pre, suf, ""] if consistent else [target, pre]})
        elif c == "str_matches":
            if pos == 0:
                p = draw(st.sampled_from([full, full, _re.escape(pre) + midp, _re.escape(pre) + ".*" + _re.escape(suf), midp]))
            else:
                p = draw(st.sampled_from([midp, midp, _re.escape(pre) + midp, _re.escape(pre) + ".*", full]))
            chain.append({"c": c, "p": p})
        elif c == "str_contains":
            chain.append({"c": c, "p": draw(st.sampled_from([midp, _re.escape(suf) + "$", "^" + _re.escape(pre)]))})
        elif c == "str_startswith":
            chain.append({"c": c, "s": pre if consistent else suf})
        elif c == "str_endswith":
            chain.append({"c": c, "s": suf if consistent else pre})
        else:
            ln = len(target)
            shape = draw(st.sampled_from(["both", "both", "min", "max"] if not clean else ["both"]))
            lo = max(0, ln - draw(st.integers(0, 3))) if consistent else ln + 1
            hi = ln + draw(st.integers(0, 4)) if consistent else ln + 3
            chain.append({"c": c, "lo": None if shape == "max" else lo, "hi": None if shape == "min" else hi})
    return chain, [target, pre + suf, pre + mids, mids + suf, pre, suf, mids, "", "zz"]


@st.composite
def st_field(draw, clean, name, tag=None, maxlen=4, allow_flags=True, role="column", size=1):
    tag = tag or draw(_tag_strategy())
    if clean and role != "series" and tag.startswith("datetime64[ns,"):
        tag = "datetime64[ns]"
    if clean and role == "level" and tag == "string":
        tag = "str"
    k = sp.cls_of(tag)
    n = draw(st.sampled_from([0, 1, 1, 2, 2, 2, 3, 3, 4])) if maxlen >= 4 else draw(st.integers(0, maxlen))
    pool = None
    if k == "str":
        chain, pool = draw(st_str_chain(n, clean))
    elif k == "bool":
        chain = []
        for pos in range(min(n, 2)):
            c = draw(st.sampled_from(["eq", "ne", "isin"]))
            if clean and pos > 0 and c == "eq":
                c = "ne"
            v = draw(st.integers(0, 1))
            chain.append({"c": c, "vs": sorted({v, draw(st.integers(0, 1))})} if c == "isin" else {"c": c, "v": v})
    elif k == "complex":
        chain = []
        for pos in range(min(n, 2)):
            c = draw(st.sampled_from(["eq", "ne", "isin", "notin"]))
            if clean and pos > 0 and c == "eq":
                c = "ne"
            v = draw(st.integers(-3, 3))
            chain.append({"c": c, "vs": sorted({v, v + 1})} if c in ("isin", "notin") else {"c": c, "v": v})
    else:
        lo, hi = sp.DTYPES[tag][1], sp.DTYPES[tag][2]
        t = draw(st.integers(max(lo + 12, -30), min(hi - 12, 40)))
        zc = False
        if draw(st.integers(0, 4)) <= (2 if k == "td" else 0) and lo + 12 <= 0 <= hi - 12:
            # values at and next to zero: the zero duration, the number 0 - values that are falsy in Python
            t = draw(st.sampled_from([0, 0, 0, 1, -1, 2]))
            zc = True
        chain = [draw(st_ordered_check(tag, t, pos, clean, role)) for pos in range(n)]
    nullable = unique = False
    if allow_flags:
        nullable = draw(st.integers(0, 3)) == 0
        unique = draw(st.integers(0, 3)) == 0
        if clean:
            if nullable and not sp.holds_null(tag):
                nullable = False
            if nullable and unique:
                unique = False
            if nullable and role == "index" and size in (0, None):
                nullable = False
    f = {"name": name, "dtype": tag, "nullable": nullable, "unique": unique, "checks": chain}
    if pool:
        f["pool"] = pool
    if k not in ("str", "bool", "complex") and zc:
        f["zero_centred"] = True
    return f


SIZES = [None, 0, 1, 2, 2, 3, 3, 5]


@st.composite
def st_field_case(draw):
    clean = draw(st.integers(0, 9)) < 4
    kind = draw(st.sampled_from(["series", "series", "column", "index"]))
    name = {"series": draw(st.sampled_from([None, "s"])), "column": "a", "index": draw(st.sampled_from([None, "ix"]))}[kind]
    size = draw(st.sampled_from(SIZES))
    f = draw(st_field(clean, name, role=kind, size=size))
    if kind in ("series", "column") and size and sp.holds_null(f["dtype"]) and draw(st.integers(0, 3)) == 0:
        # a whole-series custom check without a strategy whose outcome depends on the nulls (at least k non-null values)
        # on a nullable field: the emitted series, nulls included, has to satisfy it
        f["nullable"], f["unique"] = True, False
        f["checks"] = list(f["checks"]) + [{"c": "vec_count", "k": max(1, size - draw(st.integers(0, 1)))}]
    case = {"kind": kind, "clean": clean, "field": f, "size": size, "seed": draw(st.integers(0, 2 ** 16))}
    if sp.cls_of(f["dtype"]) == "td" and draw(st.integers(0, 2)) == 0:
        # the zero duration as a bound of the first check (the one the base strategy is built from)
        d = draw(st.integers(1, 4))
        first = draw(st.sampled_from([{"c": "ge", "v": 0}, {"c": "le", "v": 0}, {"c": "in_range", "lo": 0, "hi": d, "imin": True, "imax": True},
                                      {"c": "in_range", "lo": -d, "hi": 0, "imin": True, "imax": True}, {"c": "gt", "v": 0}]))
        f["checks"] = [first] + [c for c in f["checks"][1:2] if c["c"] in ("ne", "notin")]
        f["zero_centred"] = True
        f["unique"] = False
    if sp.cls_of(f["dtype"]) in ("dt", "td") and not f.get("zero_centred") and draw(st.integers(0, 2)) <= 1:
        case["tscale"] = "ns"
        if draw(st.integers(0, 2)) <= 1:
            # a range a few nanoseconds wide and a membership check over instants inside it: every drawn element is
            # compared with the listed values (scalars of different libraries must be recognised as the same instant)
            t = draw(st.integers(-20, 20))
            w = draw(st.integers(2, 4))
            inside = list(range(t, t + w + 1))
            k = draw(st.sampled_from(["notin", "notin", "isin"]))
            vs = sorted(draw(st.sets(st.sampled_from(inside), min_size=1, max_size=len(inside) - 1)))
            f["checks"] = [{"c": "in_range", "lo": t, "hi": t + w, "imin": True, "imax": True}, {"c": k, "vs": vs}]
            f["unique"] = False
    return case


@st.composite
def st_frame_case(draw):
    clean = draw(st.integers(0, 9)) < 4
    seed = draw(st.integers(0, 2 ** 16))
    size = draw(st.sampled_from(SIZES))
    if draw(st.integers(0, 5)) == 0:
        nl = draw(st.integers(1, 3))
        tags = [draw(_tag_strategy()) for _ in range(nl)]
        levels = [draw(st_field(clean, f"l{i}", tag=tags[i], maxlen=2, role="level")) for i in range(nl)]
        return {"kind": "multiindex", "clean": clean, "levels": levels, "size": size, "seed": seed}
    if draw(st.integers(0, 6)) == 0:
        # joint uniqueness whose first key column is nullable (its values are nulled by the mask applied after the
        # column strategies) next to a key column with very few distinct values: the tuples must stay distinct
        c0 = {"name": "c0", "dtype": draw(st.sampled_from(["float64", "float64", "datetime64[ns]", "str"])), "nullable": True,
              "unique": False, "checks": [], "regex": False}
        vs = sorted(draw(st.sets(st.integers(0, 3), min_size=2, max_size=3)))
        c1 = {"name": "c1", "dtype": "int64", "nullable": False, "unique": False, "checks": [{"c": "isin", "vs": vs}],
              "regex": False}
        cols = [c0, c1] if draw(st.integers(0, 3)) > 0 else [c1, c0]
        return {"kind": "dataframe", "clean": False, "columns": cols, "checks": [], "index": None,
                "unique": [c["name"] for c in cols], "size": draw(st.sampled_from([2, 3, 3])), "seed": seed, "n_regex_columns": 1}
    ncols = draw(st.sampled_from([1, 1, 2, 2, 3]))
    frame_checks = []
    numeric_only = draw(st.integers(0, 3)) == 0
    cols = []
    for i in range(ncols):
        tag = draw(st.sampled_from(["int64", "int32", "float64", "Int64", "float32"])) if numeric_only else None
        f = draw(st_field(clean, f"c{i}", tag=tag, maxlen=2 if ncols > 1 else 4))
        f["regex"] = False
        cols.append(f)
    if numeric_only:
        t = draw(st.integers(-20, 20))
        frame_checks = [draw(st_ordered_check("int64", t, pos, clean)) for pos in range(draw(st.integers(1, 2)))]
        # re-centre column chains on the same target so that the conjunction stays satisfiable most of the time
        for f in cols:
            f["checks"] = [] if clean else [draw(st_ordered_check("int64", t, pos, clean))
                                            for pos in range(draw(st.integers(0, 2)))]
            if sp.cls_of(f["dtype"]) == "float":
                # abstract values are scaled by 1/4 for floats: keep frame-level int args and column args aligned
                f["checks"] = [_scale(c, 4) for c in f["checks"]]
    nrx = 1
    if draw(st.integers(0, 3)) == 0:
        i = draw(st.integers(0, ncols - 1))
        pat, _names = draw(st.sampled_from(REGEX_COLS))
        cols[i]["name"], cols[i]["regex"] = pat, True
        nrx = draw(st.sampled_from([1, 2]))
    index = None
    r = draw(st.integers(0, 5))
    if r in (0, 1):
        index = draw(st_field(clean, draw(st.sampled_from([None, "ix"])), maxlen=2, role="index", size=size))
    elif r == 2:
        nl = draw(st.integers(2, 3))
        tags = [draw(_tag_strategy()) for _ in range(nl)]
        index = [draw(st_field(clean, f"l{i}", tag=tags[i], maxlen=1, role="level")) for i in range(nl)]
    unique = None
    if ncols >= 2 and draw(st.integers(0, 3)) == 0 and not any(c["regex"] for c in cols):
        unique = [c["name"] for c in cols[:2]]
    return {"kind": "dataframe", "clean": clean, "columns": cols, "checks": frame_checks, "index": index,
            "unique": unique, "size": size, "seed": seed, "n_regex_columns": nrx}


def _scale(c, m):
    c = dict(c)
    for k in ("v", "lo", "hi"):
        if k in c and c[k] is not None:
            c[k] = c[k] * m
    if "vs" in c:
        c["vs"] = [v * m for v in c["vs"]]
    return c


# --------------------------------------------------------------------- model


def _fields(case):
    """[(role, fieldspec, [(tag, checkspec)...])] for every field of the case, chain including frame checks."""
    kind = case["kind"]
    out = []
    if kind in ("series", "column", "index"):
        f = case["field"]
        out.append((kind, f, [(f["dtype"], c) for c in f["checks"]]))
    elif kind == "multiindex":
        for f in case["levels"]:
            out.append(("level", f, [(f["dtype"], c) for c in f["checks"]]))
    else:
        for f in case["columns"]:
            out.append(("column", f, [(f["dtype"], c) for c in f["checks"]] + [("int64", c) for c in case.get("checks", [])]))
        ix = case.get("index")
        if isinstance(ix, list):
            for f in ix:
                out.append(("level", f, [(f["dtype"], c) for c in f["checks"]]))
        elif ix is not None:
            out.append(("index", ix, [(ix["dtype"], c) for c in ix["checks"]]))
    return out


def model(case):
    """-> (status, witness object or None); status: sat | unsat | unknown (before pandera's confirmation)."""
    import pandas as pd

    n = max(1, case.get("size") or 1)
    free_size = case.get("size") is None
    statuses, wit = [], {}
    joint = set(case.get("unique") or [])
    for role, f, chain in _fields(case):
        uniq = f.get("unique", False) or (f["name"] in joint and role == "column")
        s, vals = sp.field_sat(f["dtype"], chain, f.get("nullable", False), uniq, n, f.get("pool", ()))
        if s == "unsat" and uniq and not f.get("unique", False):
            # joint uniqueness only needs distinct *tuples*: a column short of distinct values proves nothing
            s0, _ = sp.field_sat(f["dtype"], chain, f.get("nullable", False), False, n, f.get("pool", ()))
            s = "unsat" if s0 == "unsat" else "unknown"
        if s == "sat" and uniq and free_size:
            # size=None lets hypothesis pick the length first; a unique field over a handful of values then
            # legitimately reports InvalidArgument/Unsatisfiable: claim 'sat' only with plenty of values
            s12, _ = sp.field_sat(f["dtype"], chain, f.get("nullable", False), uniq, 12, f.get("pool", ()))
            if s12 != "sat":
                s = "unknown"
        statuses.append(s)
        wit[id(f)] = vals
    if "unsat" in statuses:
        return "unsat", None
    if any(s != "sat" for s in statuses):
        return "unknown", None
    kind = case["kind"]

    def ser(f, name=None):
        return sp.series_of(f["dtype"], wit[id(f)], name=name if name is not None else f.get("name"))

    if kind == "series":
        return "sat", ser(case["field"])
    if kind == "column":
        return "sat", ser(case["field"]).to_frame()
    if kind == "index":
        return "sat", pd.DataFrame(index=pd.Index(ser(case["field"]), name=case["field"].get("name")))
    if kind == "multiindex":
        fr = pd.DataFrame({f["name"]: ser(f) for f in case["levels"]})
        return "sat", pd.DataFrame(index=pd.MultiIndex.from_frame(fr))
    data = {}
    for f in case["columns"]:
        nm = f["name"]
        if f.get("regex"):
            nm = next(names for pat, names in REGEX_COLS if pat == f["name"])[0]
        data[nm] = ser(f, name=nm)
    df = pd.DataFrame(data)
    ix = case.get("index")
    if isinstance(ix, list):
        df.index = pd.MultiIndex.from_frame(pd.DataFrame({f["name"]: ser(f) for f in ix}))
    elif ix is not None:
        df.index = pd.Index(ser(ix), name=ix.get("name"))
    return "sat", df


# ------------------------------------------------------------------ evaluation


def _noop_test():
    pass


_DET_PROVIDER = None


def _det_provider():
    """HypothesisProvider mixes constants harvested from the *currently imported modules* into its draws, which
    would make a case evaluate differently in a worker and in a replay process: use only hypothesis' fixed global
    constant pool (own cache: the shared one may already hold local constants)."""
    global _DET_PROVIDER
    if _DET_PROVIDER is None:
        from hypothesis.internal.conjecture import providers as hp

        class DetProvider(hp.HypothesisProvider):
            _c13_cache = {}

            def _maybe_draw_constant(self, choice_type, constraints, *, p=0.05):
                if self._random.random() > p:
                    return None
                key = (choice_type, hp.choice_constraints_key(choice_type, constraints))
                pool = self._c13_cache.get(key)
                if pool is None:
                    pool = self._c13_cache[key] = tuple(
                        c for c in hp.GLOBAL_CONSTANTS.set_for_type(choice_type) if hp.choice_permitted(c, constraints))
                return self._random.choice(pool) if pool else None

        _DET_PROVIDER = DetProvider
    return _DET_PROVIDER


def run_draws(make_strategy, k, seed, limit=ATTEMPT_LIMIT):
    """k draws from a strategy, driven directly through a seeded ConjectureData (no @given engine: an
    unsatisfiable chain costs `limit` attempts instead of Hypothesis' ~460, and the draws depend on nothing
    but `seed`).  A rejected attempt (filter exhausted / assume) raises StopTest/UnsatisfiedAssumption."""
    from random import Random

    from hypothesis.control import BuildContext
    from hypothesis.errors import StopTest, UnsatisfiedAssumption
    from hypothesis.internal.conjecture.data import ConjectureData

    out = {"draws": [], "error": None, "status": "ok", "phase": None, "attempts": 0}
    try:
        strat = make_strategy()
        if not isinstance(strat, st.SearchStrategy):
            raise TypeError(f"strategy() returned {type(strat).__name__}")
    except Exception as e:  # noqa: BLE001
        out.update(error=e, status="crash", phase="build")
        return out
    rnd = Random(seed)
    while len(out["draws"]) < k and out["attempts"] < limit:
        out["attempts"] += 1
        data = ConjectureData(random=rnd, provider=_det_provider())
        try:
            with BuildContext(data, wrapped_test=_noop_test):
                out["draws"].append(data.draw(strat))
        except (StopTest, UnsatisfiedAssumption):
            continue
        except Exception as e:  # noqa: BLE001
            out.update(error=e, status="crash", phase="draw")
            return out
    if len(out["draws"]) < k:
        out["status"] = "gave-up"
    return out


def selftest():
    """the draw driver uses Hypothesis internals: calibrate it."""
    a = run_draws(lambda: st.lists(st.integers(0, 50).filter(lambda x: x > 2), min_size=2, max_size=2), 5, 11)
    b = run_draws(lambda: st.lists(st.integers(0, 50).filter(lambda x: x > 2), min_size=2, max_size=2), 5, 11)
    c = run_draws(lambda: st.integers().filter(lambda x: False), 5, 11, limit=20)
    d = run_draws(lambda: st.builds(int, st.just("x")), 5, 11)
    if not (a["status"] == "ok" and len(a["draws"]) == 5 and a["draws"] == b["draws"]
            and all(x > 2 for l in a["draws"] for x in l)):
        raise HarnessError(f"C13 draw driver not deterministic/valid: {a} {b}")
    if not (c["status"] == "gave-up" and not c["draws"] and c["attempts"] == 20):
        raise HarnessError(f"C13 draw driver does not give up on an unsatisfiable filter: {c}")
    if not (d["status"] == "crash" and isinstance(d["error"], ValueError)):
        raise HarnessError(f"C13 draw driver does not surface strategy errors: {d}")


def _where(e):
    tb = traceback.extract_tb(e.__traceback__)
    return next((f"{fr.filename.split('/pandera/')[-1]}:{fr.name}" for fr in reversed(tb)
                 if "/pandera/" in fr.filename), "?")


EXPECTED = {"series": "Series", "column": "DataFrame", "index": "Index", "multiindex": "MultiIndex",
            "dataframe": "DataFrame"}


def _validate(case, S, d):
    import pandas as pd
    import pandera as pa

    kind = case["kind"]
    if kind in ("index", "multiindex"):
        obj = d if isinstance(d, pd.DataFrame) else pd.DataFrame(index=d)
        return pa.DataFrameSchema(index=S).validate(obj, lazy=True)
    return S.validate(d, lazy=True)


def _failures(exc):
    out = []
    for se in getattr(exc, "schema_errors", None) or [exc]:
        rc = getattr(getattr(se, "reason_code", None), "name", str(getattr(se, "reason_code", None)))
        chk = getattr(se, "check", None)
        cname = getattr(chk, "name", None) if not isinstance(chk, str) else chk
        if isinstance(chk, str):
            cname = chk.split("(")[0]
        cases, null_only = [], None
        try:
            fc = se.failure_cases
            vals = fc["failure_case"].tolist() if hasattr(fc, "columns") and "failure_case" in fc.columns else (
                fc.tolist() if hasattr(fc, "tolist") else [fc])
            import pandas as pd

            # (pandera drops null failure cases of uniqueness errors: an empty list means "only nulls")
            null_only = all(pd.isna(v) is True or v is None for v in vals)
            cases = [v if isinstance(v, (str, int, float, bool)) or v is None else str(v) for v in vals[:6]]
        except Exception:  # noqa: BLE001
            pass
        fname = getattr(getattr(se, "schema", None), "name", None)
        if type(getattr(se, "schema", None)).__name__ == "MultiIndex":
            m = sp.re.search(r"(?:series|Index|Column) '([^']*)'", str(se))
            fname = m.group(1) if m else fname
        m = sp.re.match(r"(?:Column|Index|SeriesSchema|series|expected series) '([^']*)'", str(se))
        out.append({"reason": rc, "check": cname, "field": fname, "label": m.group(1) if m else fname,
                    "schema": type(getattr(se, "schema", None)).__name__,
                    "cases": cases, "null_only": null_only, "msg": str(se)[:160]})
    return out


def _snap(d):
    try:
        from ..fp import snapshot

        s = snapshot(d)
        return {k: s[k] for k in ("kind", "dtype", "dtypes", "columns", "cells", "values", "index") if k in s}
    except Exception:  # noqa: BLE001
        return repr(d)[:300]


def _labels(case, ev):
    kind = case["kind"]
    ev.labels.append("kind=" + kind)
    ev.labels.append("clean" if case.get("clean") else "free")
    ev.labels.append("size=" + str(case.get("size")))
    fields = _fields(case)
    maxchain = 0
    none_arg = False
    flags = False
    for role, f, chain in fields:
        ev.labels.append("dtype=" + f["dtype"])
        maxchain = max(maxchain, len(chain))
        for _, c in chain:
            ev.labels.append("check=" + c["c"])
            if c["c"] == "str_length" and (c.get("lo") is None or c.get("hi") is None):
                none_arg = True
                ev.labels.append("arg-none")
            if c["c"] in ("str_startswith", "str_endswith") and sp.re.escape(c["s"]) != c["s"]:
                ev.labels.append("literal-metachar")
        if f.get("nullable"):
            ev.labels.append("nullable")
            flags = True
        if f.get("unique"):
            ev.labels.append("unique")
            flags = True
        if f.get("nullable") and f.get("unique"):
            ev.labels.append("nullable+unique")
        if f.get("regex"):
            ev.labels.append("regex-column")
    ev.labels.append(f"chain={min(maxchain, 4)}")
    if kind == "dataframe":
        if case.get("checks"):
            ev.labels.append("frame-checks")
            if any(f["checks"] for f in case["columns"]):
                ev.labels.append("frame+column-checks")
        if case.get("unique"):
            ev.labels.append("joint-unique")
            flags = True
        if isinstance(case.get("index"), list):
            ev.labels.append("index=multi")
        elif case.get("index") is not None:
            ev.labels.append("index=single")
    has_index = kind in ("index", "multiindex") or case.get("index") is not None
    return maxchain >= 2 or none_arg or (flags and (has_index or len(fields) >= 2))


def evaluate(case, fresh=False):
    """fresh=True: nothing of pandera is exercised before the draws (no witness validation), so the strategy
    runs in whatever state a newly started interpreter has."""
    import pandas as pd
    import pandera.errors as pe

    sp.set_time_scale(case.get("tscale"))
    ev = Eval()
    if case.get("tscale"):
        ev.labels.append("tscale=" + case["tscale"])
    interesting = _labels(case, ev)
    S = sp.mk_schema(case)
    kw = {"size": case.get("size")}
    if case["kind"] == "dataframe" and case.get("n_regex_columns", 1) != 1:
        kw["n_regex_columns"] = case["n_regex_columns"]
    res = None
    if fresh:
        res = run_draws(lambda: S.strategy(**kw), K_DRAWS, case["seed"])
    status, wit = model(case)
    if status == "sat":
        try:
            _validate(case, S, wit)
        except Exception:  # noqa: BLE001 - the model's witness is not accepted (or validate broke): make no claim
            status = "unknown"
    ev.labels.append("model=" + status)
    if res is None:
        res = run_draws(lambda: S.strategy(**kw), K_DRAWS, case["seed"])
    ev.labels.append("draws=" + res["status"] + (":0" if not res["draws"] else ""))
    if res["status"] == "gave-up" and status == "sat" and not res["draws"]:
        ev.labels.append("incomplete")

    seen = set()

    def add(kind, detail, sub=None):
        if (kind, sub) not in seen:
            seen.add((kind, sub))
            ev.add(kind, detail)

    for d in res["draws"]:
        tname = EXPECTED[case["kind"]]
        if not isinstance(d, getattr(pd, tname)):
            add("draw-wrong-type", {"expected": tname, "observed": type(d).__name__})
            continue
        n = case.get("size")
        if n is not None and len(d) != n:
            add("draw-size-not-honoured", {"size": n, "observed": len(d)})
        try:
            _validate(case, S, d)
        except (pe.SchemaErrors, pe.SchemaError) as e:
            fails = _failures(e)
            by_kind = {}
            for f in fails:
                k = "draw-rejected:" + str(f["reason"]) + (":" + str(f["check"]) if f["reason"] in (
                    "DATAFRAME_CHECK", "CHECK_ERROR") else "")
                by_kind.setdefault((k, str(f["schema"]) + ":" + str(f["field"])), []).append(f)
            for (k, sub), fs in sorted(by_kind.items()):
                add(k, {"failed": fs, "draw": _snap(d), "model": status}, sub)
        except Exception as e:  # noqa: BLE001
            add("draw-validate-internal:" + type(e).__name__, {"where": _where(e), "msg": str(e)[:200], "draw": _snap(d)})
        else:
            if status == "unsat" and len(d) >= 1:
                raise HarnessError(f"C13 model says unsatisfiable but pandera accepted a non-empty draw: {case}")

    if res["status"] == "crash":
        e = res["error"]
        msg = str(e)
        tname = type(e).__name__
        documented = isinstance(e, pe.SchemaDefinitionError) or (isinstance(e, TypeError) and "unsupported" in msg)
        if isinstance(e, AssertionError) and _raised_inside_hypothesis(e):
            # Hypothesis' own way of failing when a unique collection cannot be filled from an element strategy that is
            # (nearly) unsatisfiable - e.g. a schema that only nulls satisfy: an inelegant "gave up", no data was emitted
            documented = True
            ev.labels.append("incomplete:hypothesis-internal-assertion")
        ev.labels.append("crash:" + tname)
        if status == "sat" and not documented:
            add(f"strategy-crash:{tname}", {"phase": res["phase"], "where": _where(e), "msg": msg[:300]})
    ev.nontrivial = bool(interesting and (res["draws"] or (res["status"] == "crash" and status == "sat")))
    return ev


# ------------------------------------------------------- fresh-interpreter family

_FRESH_SRC = (
    "import sys, json, warnings; warnings.filterwarnings('ignore');"
    "from harness.props import c13; c13._fresh_main()"
)


def _fresh_main():
    import json
    import sys

    from ..core import jsonable

    case = json.loads(sys.stdin.read())
    ev1 = evaluate(case, fresh=True)
    ev2 = evaluate(case)  # same process, pandera now fully initialised: the control
    print("RESULT " + json.dumps({
        "labels": ev1.labels, "nontrivial": ev1.nontrivial,
        "discs": [{"kind": d.kind, "detail": jsonable(d.detail)} for d in ev1.discs],
        "control_kinds": sorted({d.kind for d in ev2.discs}),
    }))


def eval_fresh(case):
    """evaluate the inner case in a newly started interpreter, drawing before anything else touches pandera."""
    import json
    import os
    import subprocess
    import sys

    p = subprocess.run([sys.executable, "-W", "ignore", "-c", _FRESH_SRC], input=json.dumps(case["inner"]),
                       capture_output=True, text=True, timeout=600, env=dict(os.environ))
    line = next((l for l in p.stdout.splitlines() if l.startswith("RESULT ")), None)
    if line is None:
        raise HarnessError(f"C13 fresh subprocess produced no result: rc={p.returncode} {p.stderr[-800:]}")
    out = json.loads(line[len("RESULT "):])
    ev = Eval()
    ev.labels = ["fresh:" + l for l in out["labels"] if l.startswith(("kind=", "draws=", "model="))]
    ev.nontrivial = bool(out["nontrivial"]) or any(l.startswith("draws=ok") for l in out["labels"])
    for d in out["discs"]:
        det = d["detail"] if isinstance(d["detail"], dict) else {"detail": d["detail"]}
        det["only_when_fresh"] = d["kind"] not in out["control_kinds"]
        ev.add(d["kind"], det)
    return ev


def enum_fresh(tier):
    import os

    seed = int(os.environ.get("VERIF_SEED", "1") or 1)
    F = lambda **k: dict({"name": None, "dtype": "int64", "nullable": False, "unique": False, "checks": []}, **k)  # noqa: E731
    inner = [
        {"kind": "index", "field": F(checks=[{"c": "gt", "v": 0}])},
        {"kind": "index", "field": F(name="ix", dtype="float64", checks=[{"c": "in_range", "lo": 2, "hi": 9}])},
        {"kind": "index", "field": F(dtype="str", checks=[{"c": "str_startswith", "s": "ab"}], pool=["abc"])},
        {"kind": "index", "field": F(dtype="int8", checks=[{"c": "isin", "vs": [1, 2, 3]}, {"c": "ne", "v": 2}])},
        {"kind": "multiindex", "levels": [F(name="l0", checks=[{"c": "ge", "v": 5}]),
                                          F(name="l1", dtype="str", checks=[{"c": "isin", "vs": ["x", "y"]}], pool=["x"])]},
        {"kind": "multiindex", "levels": [F(name="l0", dtype="timedelta64[ns]", checks=[{"c": "lt", "v": 0}]),
                                          F(name="l1", unique=True)]},
        {"kind": "series", "field": F(checks=[{"c": "gt", "v": 0}])},
        {"kind": "column", "field": F(name="a", dtype="float32", checks=[{"c": "le", "v": 3}, {"c": "ne", "v": 0}])},
        {"kind": "dataframe", "columns": [dict(F(name="c0", checks=[{"c": "lt", "v": 4}]), regex=False)], "checks": [],
         "index": F(name="ix", checks=[{"c": "gt", "v": 0}]), "unique": None, "n_regex_columns": 1},
    ]
    sizes = [3, 2, None, 5, 1]
    for i, c in enumerate(inner if tier == "quick" else inner * 3):
        c = dict(c, clean=True, size=sizes[(i + seed) % len(sizes)], seed=seed * 100 + i)
        yield {"inner": c}


@known.finding("C13/index-strategy-before-backend-registration-ignores-checks")
def _k_fresh(family, case, disc):
    if family != "fresh" or case["inner"]["kind"] not in ("index", "multiindex"):
        return False
    d = disc.detail if isinstance(disc.detail, dict) else {}
    return disc.kind.startswith("draw-rejected:DATAFRAME_CHECK:") and d.get("only_when_fresh") is True


# ------------------------------------------------------------- known findings
# Every predicate must explain *all* failures grouped in the discrepancy (trigger features of the very field
# that failed + symptom); anything it cannot explain stays a new bucket.

PA_NAME = {"eq": "equal_to", "ne": "not_equal_to", "gt": "greater_than", "ge": "greater_than_or_equal_to",
           "lt": "less_than", "le": "less_than_or_equal_to", "in_range": "in_range", "isin": "isin", "notin": "notin",
           "str_matches": "str_matches", "str_contains": "str_contains", "str_startswith": "str_startswith",
           "str_endswith": "str_endswith", "str_length": "str_length", "ew_gt": "c13_ew_gt", "vec_ge": "c13_vec_ge", "vec_count": "c13_vec_count",
           "strat_le": "c13_strat_le", "ext_ge": "c13_ext_ge"}


def _segments(case):
    """[(role, fieldspec, [segment...])]: a segment is a list of (tag, checkspec) chained by ONE strategy chain
    (a column's own checks; the dataframe-level checks form a second, separate chain per column)."""
    out = []
    for role, f, chain in _fields(case):
        own = [(f["dtype"], c) for c in f["checks"]]
        segs = [own]
        if role == "column" and case["kind"] == "dataframe" and case.get("checks"):
            segs.append([("int64", c) for c in case["checks"]])
        out.append((role, f, segs))
    return out


ROLE_CLASS = {"series": ("SeriesSchema",), "column": ("Column",), "index": ("Index",), "level": ("Index", "MultiIndex")}


def _raised_inside_hypothesis(e):
    tb = e.__traceback__
    last = None
    while tb is not None:
        last = tb.tb_frame.f_code.co_filename
        tb = tb.tb_next
    return bool(last) and "/hypothesis/" in last.replace("\\", "/")


def _fails(disc):
    d = disc.detail if isinstance(disc.detail, dict) else {}
    return d.get("failed") or []


def _all_fails(case, disc, prefix, fn):
    """disc.kind starts with prefix and fn(role, field, segments, failure) holds for every failure, for some
    field of the case carrying the failure's field name."""
    if not disc.kind.startswith(prefix):
        return False
    fails = _fails(disc)
    if not fails:
        return False
    segs = _segments(case)
    for fl in fails:
        cands = [(r, f, sg) for r, f, sg in segs if f.get("name") == fl.get("field")
                 and fl.get("schema") in ROLE_CLASS.get(r, ())]
        if not any(fn(r, f, sg, fl) for r, f, sg in cands):
            return False
    return True


def _same(v, b):
    """failure case v (JSON-ised) denotes the value b"""
    if isinstance(v, (int, float)) and not isinstance(v, bool) and isinstance(b, (int, float)):
        return float(v) == float(b)
    return str(v) == str(b)


def _is_tz(tag):
    return tag.startswith("datetime64[ns,")


@known.finding("C13/eq-strategy-replaces-chain")
def _k_eq(family, case, disc):
    def fn(role, f, segs, fl):
        for seg in segs:
            names = [PA_NAME[c["c"]] for _, c in seg]
            for j, (_, c) in enumerate(seg):
                if c["c"] == "eq" and j >= 1 and fl["check"] in names[:j]:
                    return True
        return False

    if _all_fails(case, disc, "draw-rejected:DATAFRAME_CHECK:", fn):
        return True
    # a dataframe-level eq is chained after every column's own chain and replaces it as well: the column emits the
    # frame-level value whatever its own checks say
    fails = _fails(disc)
    fc = case.get("checks") or []
    if case.get("kind") == "dataframe" and disc.kind.startswith("draw-rejected:DATAFRAME_CHECK:") and fails:
        cols = {f["name"]: f for f in case.get("columns", [])}
        for c in fc:
            if c["c"] != "eq":
                continue
            if all(fl.get("schema") == "Column" and fl.get("field") in cols and cols[fl["field"]].get("checks")
                   and all(_same(v, sp.conc(cols[fl["field"]]["dtype"], c["v"])) or _same(v, c["v"])
                           for v in fl.get("cases", []))
                   for fl in fails):
                return True
    # the dataframe-level chain itself: failures are reported on the DataFrameSchema
    names = [PA_NAME[c["c"]] for c in fc]
    return bool(disc.kind.startswith("draw-rejected:DATAFRAME_CHECK:") and fails and all(
        fl.get("schema") == "DataFrameSchema" and any(
            c["c"] == "eq" and j >= 1 and fl["check"] in names[:j] for j, c in enumerate(fc)) for fl in fails))


@known.finding("C13/frame-checks-override-column-checks")
def _k_frame_over(family, case, disc):
    if case.get("kind") != "dataframe" or not case.get("checks"):
        return False

    def fn(role, f, segs, fl):
        return role == "column" and fl["check"] in [PA_NAME[c["c"]] for _, c in segs[0]]

    return _all_fails(case, disc, "draw-rejected:DATAFRAME_CHECK:", fn)


def _meta_literals(case):
    out = []
    for role, f, chain in _fields(case):
        for _, c in chain:
            if c["c"] in ("str_startswith", "str_endswith") and sp.re.escape(c["s"]) != c["s"]:
                out.append((f, c))
    return out


@known.finding("C13/str-startswith-endswith-literal-not-escaped")
def _k_literal(family, case, disc):
    lits = _meta_literals(case)
    if not lits:
        return False
    if disc.kind in ("strategy-crash:error", "strategy-crash:PatternError"):
        return True

    def fn(role, f, segs, fl):
        return any(g is f and PA_NAME[c["c"]] == fl["check"] for g, c in lits)

    return (_all_fails(case, disc, "draw-rejected:DATAFRAME_CHECK:str_startswith", fn)
            or _all_fails(case, disc, "draw-rejected:DATAFRAME_CHECK:str_endswith", fn))


@known.finding("C13/str-length-none-bound")
def _k_strlen_none(family, case, disc):
    trig = any(c["c"] == "str_length" and (c.get("lo") is None or c.get("hi") is None)
               for _, f, chain in _fields(case) for _, c in chain)
    if not trig or not isinstance(disc.detail, dict):
        return False
    msg = disc.detail.get("msg", "")
    return ((disc.kind == "strategy-crash:InvalidArgument" and "=None" in msg and "Expected int" in msg)
            or (disc.kind == "strategy-crash:TypeError" and "NoneType" in msg and "not supported between" in msg))


@known.finding("C13/nullable-unique-duplicate-nulls")
def _k_null_unique(family, case, disc):
    joint = set(case.get("unique") or [])

    def fn(role, f, segs, fl):
        return f.get("nullable") and (f.get("unique") or f.get("name") in joint) and fl.get("null_only") is True

    if _all_fails(case, disc, "draw-rejected:SERIES_CONTAINS_DUPLICATES", fn):
        return True
    # joint uniqueness over columns of which at least one is nullable: duplicated all-null key tuples
    if (disc.kind == "draw-validate-internal:ValueError" and joint and isinstance(disc.detail, dict)
            and str(disc.detail.get("where", "")).endswith("reshape_failure_cases")
            and any(f.get("nullable") for f in case.get("columns", []) if f["name"] in joint)):
        # (the uniqueness report itself crashes on a non-unique index: the draw must show >=2 all-null key tuples)
        snap = disc.detail.get("draw")
        if isinstance(snap, dict) and snap.get("kind") == "pd.DataFrame":
            cols = [c for n, c in zip(snap.get("columns", []), snap.get("cells", [])) if n in {repr(j) for j in joint}]
            if cols and len(cols) == len(joint):
                nullrows = sum(all(c[i] in ("nan", "None", "<NA>", "NaT") for c in cols) for i in range(len(cols[0])))
                return nullrows >= 2
        return False
    fails = _fails(disc)
    return bool(disc.kind == "draw-rejected:DUPLICATES" and joint and fails
                and all(f.get("null_only") is True and f.get("schema") == "DataFrameSchema" for f in fails)
                and any(f.get("nullable") for f in case.get("columns", []) if f["name"] in joint))


@known.finding("C13/null-mask-on-dtype-without-nulls")
def _k_null_dtype(family, case, disc):
    def fn(role, f, segs, fl):
        return f.get("nullable") and not sp.holds_null(f["dtype"])

    if _all_fails(case, disc, "draw-rejected:WRONG_DATATYPE", fn):
        return True

    # the same NaN mask turns int64 into float64: distinct ints beyond 2**53 collapse into one float -> duplicates
    def fn2(role, f, segs, fl):
        return (fn(role, f, segs, fl) and sp.cls_of(f["dtype"]) == "int" and f.get("unique") and fl["cases"]
                and all(isinstance(v, float) and abs(v) >= 2.0 ** 53 for v in fl["cases"]))

    return _all_fails(case, disc, "draw-rejected:SERIES_CONTAINS_DUPLICATES", fn2)


def _numeric_cells(snap, name=None):
    """numeric cell values of column `name` (all columns when None) of a DataFrame/Series snapshot, or None"""
    if not isinstance(snap, dict) or "cells" not in snap:
        return None
    cols = snap["cells"]
    if snap.get("kind") == "pd.DataFrame":
        names = snap.get("columns", [])
        cols = [c for n, c in zip(names, cols) if name is None or n == repr(name)]
    else:
        cols = [cols]
    out = []
    for col in cols:
        for cell in col:
            if cell in ("nan", "None", "<NA>", "NaT"):
                continue
            try:
                out.append(float(str(cell).split(":", 1)[1]))
            except (ValueError, IndexError):
                return None
    return out


def _only_excluded_bounds_violate(values, tag, c):
    lo, hi = sp.conc(tag, c["lo"]), sp.conc(tag, c["hi"])
    imin, imax = c.get("imin", True), c.get("imax", True)
    excluded = ([lo] if not imin else []) + ([hi] if not imax else [])
    try:
        import pandas as pd

        if sp.cls_of(tag) == "dt":
            values = [pd.Timestamp(v) for v in values]
        elif sp.cls_of(tag) == "td":
            values = [pd.Timedelta(v) for v in values]
        bad = [v for v in values if not ((lo <= v if imin else lo < v) and (v <= hi if imax else v < hi))]
    except (TypeError, ValueError):
        return False
    return bool(excluded) and bool(bad) and all(any(v == b for b in excluded) for v in bad)


@known.finding("C13/in-range-exclusive-bound-ignored-for-non-float")
def _k_in_range(family, case, disc):
    if disc.kind != "draw-rejected:DATAFRAME_CHECK:in_range":
        return False
    snap = disc.detail.get("draw") if isinstance(disc.detail, dict) else None

    def fn(role, f, segs, fl):
        if sp.cls_of(f["dtype"]) == "float":
            return False
        for seg in segs:
            # vectorised checks without strategy take no part in the element chain: the base strategy is the
            # first other check
            seg = [x for x in seg if x[1]["c"] not in ("vec_ge", "vec_count")]
            if seg and seg[0][1]["c"] == "in_range":
                tag, c = seg[0]
                values = fl["cases"] or _numeric_cells(snap, fl.get("label") if role == "column" else None)
                if values and _only_excluded_bounds_violate(values, tag, c):
                    return True
        return False

    if _all_fails(case, disc, "draw-rejected:DATAFRAME_CHECK:in_range", fn):
        return True
    # the dataframe-level in_range itself (reported on the DataFrameSchema, no per-cell failure cases):
    # every cell that violates it must sit exactly on an excluded bound, and a non-float column must exist
    fails = _fails(disc)
    fc = case.get("checks") or []
    if (not fc or fc[0]["c"] != "in_range" or not fails
            or not all(f.get("schema") == "DataFrameSchema" for f in fails)):
        return False
    values = _numeric_cells(snap)
    nonfloat = any(sp.cls_of(f["dtype"]) != "float" for f in case["columns"])
    return bool(values) and nonfloat and _only_excluded_bounds_violate(values, "int64", fc[0])


@known.finding("C13/index-vectorised-check-without-strategy-not-applied")
def _k_index_vec(family, case, disc):
    def fn(role, f, segs, fl):
        return role in ("index", "level") and any(c["c"] == "vec_ge" for _, c in segs[0])

    return _all_fails(case, disc, "draw-rejected:DATAFRAME_CHECK:c13_vec_ge", fn)


@known.finding("C13/multiindex-unique-str-level-nul-truncation")
def _k_mi_nul(family, case, disc):
    def fn(role, f, segs, fl):
        # (the numpy fixed-width round trip strips trailing NULs: "\x00" and "" - distinct for hypothesis' uniqueness -
        # both arrive as "", which is all that is left to see in the failure cases)
        cases = [str(v) for v in fl.get("cases", [])]
        return (role == "level" and f.get("unique") and sp.cls_of(f["dtype"]) == "str" and bool(cases)
                and (any("\x00" in v for v in cases) or all(v == "" for v in cases)))

    return _all_fails(case, disc, "draw-rejected:SERIES_CONTAINS_DUPLICATES", fn)


@known.finding("C13/null-mask-crashes-on-empty-index")
def _k_null_empty(family, case, disc):
    if disc.kind != "strategy-crash:TypeError" or not isinstance(disc.detail, dict):
        return False
    if "ufunc 'invert'" not in disc.detail.get("msg", "") or case.get("size") not in (0, None):
        return False
    return any(role == "index" and f.get("nullable") for role, f, _ in _fields(case))


@known.finding("C13/multiindex-string-dtype-emitted-as-object")
def _k_mi_string(family, case, disc):
    def fn(role, f, segs, fl):
        return role == "level" and f["dtype"] == "string"

    return _all_fails(case, disc, "draw-rejected:WRONG_DATATYPE", fn)


@known.finding("C13/tz-aware-column-index-localized-instead-of-converted")
def _k_tz_shift(family, case, disc):
    def fn(role, f, segs, fl):
        return role != "series" and _is_tz(f["dtype"]) and not f["dtype"].endswith("UTC]") and fl["check"] in [
            PA_NAME[c["c"]] for seg in segs for _, c in seg]

    return _all_fails(case, disc, "draw-rejected:DATAFRAME_CHECK:", fn)


@known.finding("C13/tz-aware-column-index-nanoseconds-truncated")
def _k_tz_trunc(family, case, disc):
    def fn(role, f, segs, fl):
        if role == "series" or not _is_tz(f["dtype"]) or not fl["cases"]:
            return False
        args = set()
        for seg in segs:
            for tag, c in seg:
                if PA_NAME[c["c"]] == fl["check"]:
                    args |= {str(v) for v in sp.check_arg_values(c, tag)}
        # the emitted value is exactly an excluded argument: the element was within 1us above/below it
        return all(str(v) in args for v in fl["cases"])

    return any(_all_fails(case, disc, "draw-rejected:DATAFRAME_CHECK:" + n, fn)
               for n in ("greater_than", "less_than", "not_equal_to", "notin", "in_range", "c13_ew_gt"))


@known.finding("C13/failing-frame-check-on-multiindex-frame-raises-typeerror")
def _k_mi_postprocess(family, case, disc):
    if case.get("kind") != "dataframe" or not isinstance(case.get("index"), list) or not case.get("checks"):
        return False
    needle = "Must pass list-like as `names`"
    if disc.kind == "strategy-crash:TypeError" and isinstance(disc.detail, dict):
        return needle in disc.detail.get("msg", "") and "postprocess_table" in str(disc.detail.get("where", ""))
    fails = _fails(disc)
    return bool(disc.kind.startswith("draw-rejected:CHECK_ERROR:") and fails and all(
        fl.get("schema") == "DataFrameSchema" and any(needle in str(v) for v in fl.get("cases", [])) for fl in fails))


@known.finding("C13/numpy-str-strips-trailing-nul")
def _k_nul(family, case, disc):
    def fn(role, f, segs, fl):
        if sp.cls_of(f["dtype"]) != "str" or not fl["cases"]:
            return False
        los = [c.get("lo") for seg in segs for _, c in seg if c["c"] == "str_length" and c.get("lo")]
        return bool(los) and all(isinstance(v, str) and any(lo - 2 <= len(v) < lo for lo in los) for v in fl["cases"])

    return _all_fails(case, disc, "draw-rejected:DATAFRAME_CHECK:str_length", fn)


# --------------------------------------------------------------------- families

# -------------------------------------------------------------- index_reading family


class _IndexSorted:
    """a vectorised check without a strategy that reads the index of what it is given"""

    __name__ = "index_sorted"

    def __call__(self, obj):
        return bool(obj.index.is_monotonic_increasing)


@st.composite
def st_index_reading(draw):
    return {"size": draw(st.sampled_from([2, 2, 3])), "level": draw(st.sampled_from(["column", "frame", "both"])),
            "index": draw(st.sampled_from(["single", "single", "single", "multi"])), "seed": draw(st.integers(0, 2**31 - 1)),
            "unique_index": draw(st.booleans())}


def eval_index_reading(case):
    """A schema with an index component and a custom check (no strategy: enforced by filtering) whose verdict depends on
    the index of the generated object: what the filter saw must be what is returned."""
    import pandera as pa
    import pandera.errors as pe

    ev = Eval()
    chk = pa.Check(_IndexSorted(), name="c13_index_sorted")
    col_checks = [chk] if case["level"] in ("column", "both") else []
    frame_checks = [chk] if case["level"] in ("frame", "both") else []
    if case["index"] == "single":
        index = pa.Index(int, unique=case["unique_index"], name="i")
    else:
        index = pa.MultiIndex([pa.Index(int, name="i"), pa.Index(int, name="j")])
    S = pa.DataFrameSchema({"a": pa.Column(int, checks=col_checks)}, checks=frame_checks, index=index)
    ev.labels += ["level=" + case["level"], "index=" + case["index"], "size=%d" % case["size"]]
    res = run_draws(lambda: S.strategy(size=case["size"]), K_DRAWS, case["seed"], limit=ATTEMPT_LIMIT * 4)
    ev.labels.append("draws=" + res["status"] + (":0" if not res["draws"] else ""))
    for d in res["draws"]:
        try:
            S.validate(d)
        except (pe.SchemaErrors, pe.SchemaError) as e:
            ev.add("draw-rejected:index-reading-check", {"index": [str(x) for x in d.index.tolist()], "msg": str(e)[:200]})
            break
        except Exception as e:  # noqa: BLE001
            ev.add("draw-validate-internal:" + type(e).__name__, {"where": _where(e), "msg": str(e)[:200]})
            break
    if res["status"] == "crash":
        e = res["error"]
        if not (isinstance(e, AssertionError) and _raised_inside_hypothesis(e)):
            ev.add("strategy-crash:" + type(e).__name__, {"phase": res["phase"], "where": _where(e), "msg": str(e)[:300]})
    ev.nontrivial = bool(res["draws"])
    return ev


FAMILIES = [
    Family("field", evaluate, strategy=st_field_case, n_quick=260, n_thorough=1500, shards_quick=6,
           shards_thorough=16, required_labels=["kind=series", "kind=column", "kind=index", "chain=2", "chain=3",
                                                "nullable", "unique", "arg-none", "literal-metachar",
                                                "check=ew_gt", "check=vec_ge", "check=vec_count", "check=strat_le", "check=ext_ge",
                                                "model=sat", "model=unsat", "clean", "free"]),
    Family("frame", evaluate, strategy=st_frame_case, n_quick=100, n_thorough=800, shards_quick=6,
           shards_thorough=16, required_labels=["kind=dataframe", "kind=multiindex", "regex-column", "index=multi",
                                                "index=single", "joint-unique", "frame-checks",
                                                "frame+column-checks", "model=sat"]),
    Family("fresh", eval_fresh, enumerate=enum_fresh, shards_quick=3, shards_thorough=8),
    Family("index_reading", eval_index_reading, strategy=st_index_reading, n_quick=40, n_thorough=300, shards_quick=2,
           shards_thorough=6, required_labels=["index=single", "level=column", "level=frame", "draws=ok"]),
]
