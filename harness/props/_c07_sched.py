"""Deterministic thread scheduler for C07 (ported from the round-0 prototype).

Every worker thread runs one callable under ``sys.settrace``.  A *yield point* is the ``call`` or
``return`` event of a Python frame whose code lives under the pandera source directory that is
actually imported (``os.path.dirname(pandera.__file__)``): there the worker parks on its own
semaphore and the controller (the calling thread) decides who runs next.  Exactly one worker runs
at a time, so an execution is a function of the *schedule* = ``[[thread, run_length], ...]``
(``run_length`` counted in yield points).  When the schedule is used up, the unfinished threads
are run to completion in index order.

* no yield while the thread executes module-level code (``<module>`` frame of any file on its
  stack: an import is in progress and the import lock may be held);
* the running thread counts its own yield points and parks only when its run length is used up, so
  the controller is woken once per segment, not once per yield point;
* a watchdog (per segment and per execution) turns a stuck execution into ``status ==
  "inconclusive"``: the workers are released from the scheduler, joined, and nothing is scored
  (never a violation);
* *windows*: frames in which pandera has a temporary override of shared state installed (between
  override and restore).  The scheduler records, for every preemption, the windows the preempted
  thread is inside; the property module uses that for its non-triviality rule;
* *interference*: ``probe()`` (cheap snapshot of the shared state, supplied by the caller) is
  taken when a thread parks and again before it is resumed; a difference means another thread
  changed shared state under it.
"""
from __future__ import annotations

import os
import sys
import re
import threading
import time

INF = 10 ** 9

# (path relative to the pandera package dir, function name) -> window kind
WINDOW_FUNCS = {
    ("backends/pandas/container.py", "run_schema_component_checks"): "pd-component-override",
    ("backends/pandas/components.py", "validate_column"): "pd-column-name-override",
}
# generator-based context manager: the window is open from its first entry (snapshot of the outer state) to its end
WINDOW_GENERATORS = {
    ("config.py", "config_context"): "config-context",
}


def pandera_dir():
    import pandera

    return os.path.dirname(os.path.abspath(pandera.__file__)) + os.sep


class Result:
    def __init__(self):
        self.status = "ok"  # ok | inconclusive
        self.why = None
        self.results = []  # per thread: ("ok", value) | ("exc", exception) | None
        self.steps = []  # yield points consumed per thread
        self.preemptions = []  # dicts: {"from", "to", "at", "windows": [...]} (from-thread not finished)
        self.interfered = []  # per thread: set of probe field names that changed while it was parked
        self.window_kinds_seen = set()
        self.trace = None
        self.held_locks = []  # pandera locks still held when the run ended / stalled


_LOCK_TYPES = (type(threading.Lock()), type(threading.RLock()))


def held_pandera_locks():
    """Locks kept in pandera module globals / attributes of pandera classes that are held right now:
    [(where, repr)].  (A validate call that has returned or raised holds none; a lock still held once every thread
    finished can never be released again.)"""
    import sys

    out = []
    for mname, mod in list(sys.modules.items()):
        if mod is None or not (mname == "pandera" or mname.startswith("pandera.")):
            continue
        try:
            items = list(vars(mod).items())
        except Exception:  # noqa: BLE001
            continue
        for name, obj in items:
            cands = [(f"{mname}.{name}", obj)]
            if isinstance(obj, type) and getattr(obj, "__module__", None) == mname:
                try:
                    cands += [(f"{mname}.{name}.{k}", v) for k, v in vars(obj).items()]
                except Exception:  # noqa: BLE001
                    pass
            for where, o in cands:
                if isinstance(o, _LOCK_TYPES):
                    r = repr(o)
                    if r.startswith("<locked"):
                        out.append((where, r.split(" at 0x")[0]))
    return out


class Sched:
    def __init__(self, fns, schedule, probe=None, step_timeout=60.0, total_timeout=240.0, keep_trace=False, lines=False):
        self.fns = list(fns)
        self.n = len(self.fns)
        self.schedule = [(int(t), int(k)) for t, k in schedule]
        self.probe = probe
        self.step_timeout = step_timeout
        self.total_timeout = total_timeout
        self.prefix = pandera_dir()
        self.sems = [threading.Semaphore(0) for _ in self.fns]
        self.ctl = threading.Semaphore(0)
        self.done = [False] * self.n
        self.res = [None] * self.n
        self.steps = [0] * self.n
        self.windows = [dict() for _ in self.fns]  # tid -> {kind: depth}
        self.abort = False
        self.budget = 0  # yield points the running thread may still pass before it parks
        self.lines = bool(lines)  # also yield at every source line of a pandera frame (finer than call/return)
        self.keep_trace = keep_trace
        self.trace = [] if keep_trace else None
        self.seen_kinds = set()

    # ------------------------------------------------------------------ worker side
    def _yield(self, tid, what):
        if self.abort:
            return
        self.steps[tid] += 1
        if self.trace is not None:
            self.trace.append((tid, what))
        # the running thread consumes its own run length; the controller is only woken at a switch
        self.budget -= 1
        if self.budget > 0:
            return
        self.ctl.release()
        self.sems[tid].acquire()

    def _tracer(self, tid):
        prefix = self.prefix
        plen = len(prefix)
        win = self.windows[tid]
        state = {"import_depth": 0}
        gen_frames = {}  # id(frame) -> number of suspensions seen (window generators)

        def open_win(kind):
            win[kind] = win.get(kind, 0) + 1
            self.seen_kinds.add(kind)

        def close_win(kind):
            c = win.get(kind, 0) - 1
            if c <= 0:
                win.pop(kind, None)
            else:
                win[kind] = c

        def module_local(frame, event, arg):
            if event == "return":
                state["import_depth"] -= 1
            return module_local

        def make_local(kind, gen_kind):
            def local(frame, event, arg):
                if event == "line" and self.lines:
                    if state["import_depth"] <= 0:
                        self._yield(tid, "line")
                    return local
                if event != "return":
                    return local
                name = frame.f_code.co_name
                if gen_kind is not None:
                    fid = id(frame)
                    if gen_frames.get(fid, 0) == 0:
                        gen_frames[fid] = 1  # first suspension (the with-body runs next): still open
                    else:
                        gen_frames.pop(fid, None)
                        close_win(gen_kind)
                elif kind is not None:
                    close_win(kind)
                if state["import_depth"] <= 0:
                    self._yield(tid, "ret:" + name)
                return local

            return local

        plain_local = make_local(None, None)
        locals_by_kind = {}

        def tr(frame, event, arg):
            if event != "call":
                return None
            co = frame.f_code
            if co.co_name == "<module>":
                state["import_depth"] += 1
                frame.f_trace_lines = False
                return module_local
            if state["import_depth"] > 0:
                return None
            fn = co.co_filename
            if not fn.startswith(prefix):
                return None
            frame.f_trace_lines = self.lines
            rel = fn[plen:]
            key = (rel, co.co_name)
            gen_kind = WINDOW_GENERATORS.get(key)
            kind = WINDOW_FUNCS.get(key)
            self._yield(tid, co.co_name)
            if gen_kind is not None:
                if id(frame) not in gen_frames:
                    # first entry: the snapshot of the outer state is taken right away, the window is open from
                    # here until the generator's second return (the restore)
                    gen_frames[id(frame)] = 0
                    open_win(gen_kind)
                loc = locals_by_kind.get(("g", gen_kind))
                if loc is None:
                    loc = locals_by_kind[("g", gen_kind)] = make_local(None, gen_kind)
                return loc
            if kind is not None:
                open_win(kind)
                loc = locals_by_kind.get(("f", kind))
                if loc is None:
                    loc = locals_by_kind[("f", kind)] = make_local(kind, None)
                return loc
            return plain_local

        return tr

    def _worker(self, tid):
        self.sems[tid].acquire()
        sys.settrace(self._tracer(tid))
        try:
            try:
                self.res[tid] = ("ok", self.fns[tid]())
            except BaseException as e:  # noqa: BLE001 - the outcome of the call, whatever it is
                self.res[tid] = ("exc", e)
        finally:
            sys.settrace(None)
            self.done[tid] = True
            self.ctl.release()

    # -------------------------------------------------------------- controller side
    def run(self) -> Result:
        out = Result()
        out.interfered = [set() for _ in range(self.n)]
        threads = [threading.Thread(target=self._worker, args=(i,), daemon=True, name=f"c07-worker-{i}")
                   for i in range(self.n)]
        for t in threads:
            t.start()
        seg = iter(self.schedule)
        cur, left = None, 0
        t_start = time.time()
        parked_probe = [None] * self.n
        base_probe = self.probe() if self.probe else None
        for i in range(self.n):
            parked_probe[i] = base_probe
        while not all(self.done):
            if cur is None or self.done[cur] or left <= 0:
                nxt = None
                for tid, k in seg:
                    if 0 <= tid < self.n and not self.done[tid] and k > 0:
                        nxt = (tid, k)
                        break
                if nxt is None:
                    nxt = (next(i for i in range(self.n) if not self.done[i]), INF)
                if cur is not None and not self.done[cur] and nxt[0] != cur:
                    out.preemptions.append({"from": cur, "to": nxt[0], "at": self.steps[cur],
                                            "windows": sorted(self.windows[cur])})
                cur, left = nxt
            if self.probe:
                now = self.probe()
                before = parked_probe[cur]
                if before is not None and now != before:
                    for k in now:
                        if now[k] != before.get(k):
                            out.interfered[cur].add(k)
            self.budget = left
            self.sems[cur].release()
            got = self.ctl.acquire(timeout=min(5.0, self.step_timeout))
            if not got:
                # stalled: blocked on a pandera lock that a thread which has already finished left held?
                held = held_pandera_locks()
                live = {t.ident for t, d in zip(threads, self.done) if not d}
                owners = [int(m.group(1)) for _, r in held for m in [re.search(r"owner=(\d+)", r)] if m]
                if held and (any(self.done[t] for t in range(self.n)) or any(o not in live for o in owners)):
                    out.status = "deadlock"
                    out.why = f"thread {cur} stalled at step {self.steps[cur]} while {held} is held and a thread has finished"
                    out.held_locks = held
                    self._abort(threads)
                    break
                got = self.ctl.acquire(timeout=max(0.1, self.step_timeout - 5.0))
            if not got or time.time() - t_start > self.total_timeout:
                out.status = "inconclusive"
                out.why = f"watchdog: thread {cur} did not reach the end of its segment (at step {self.steps[cur]})"
                self._abort(threads)
                break
            if self.probe:
                parked_probe[cur] = self.probe()
            left = 0
        else:
            for t in threads:
                t.join(timeout=30)
        out.results = list(self.res)
        if out.status == "ok":
            out.held_locks = held_pandera_locks()
        out.steps = list(self.steps)
        out.window_kinds_seen = set(self.seen_kinds)
        out.trace = self.trace
        return out

    def _abort(self, threads):
        self.abort = True
        for _ in range(3):
            for s in self.sems:
                s.release()
        deadline = time.time() + 30
        for t in threads:
            t.join(timeout=max(0.1, deadline - time.time()))


def count_steps(fns, probe=None):
    """Yield points of every thread when the threads run one after the other."""
    r = Sched(fns, [[0, INF]], probe=probe).run()
    return r
