"""C05 builders: JSON spec -> pandera schema / DataFrameModel, JSON table -> pandas object.
The only place that touches pandera / pandas constructors."""
from __future__ import annotations

import math

import pandas as pd

import pandera as pa
from pandera.engines import pandas_engine

from . import _c05_defs as D

TZ = ("UTC", "Europe/Paris")


# ------------------------------------------------------------------------- dtypes


def dtype_of(tag):
    if tag is None:
        return None
    if tag == "dt_agnostic":
        return pandas_engine.DateTime(time_zone_agnostic=True)
    if tag == "dt_agnostic_utc":
        return pandas_engine.DateTime(time_zone_agnostic=True, tz="UTC")
    return tag  # resolved by pandera's engine ("int64", "datetime64[ns, UTC]", ...)


def _arg(v):
    """decode a tagged check argument"""
    if isinstance(v, dict) and "ts" in v:
        return pd.Timestamp(v["ts"])
    if isinstance(v, list):
        return [_arg(x) for x in v]
    return v


BUILTIN = {
    "gt": ("greater_than", ["min_value"]),
    "ge": ("greater_than_or_equal_to", ["min_value"]),
    "lt": ("less_than", ["max_value"]),
    "le": ("less_than_or_equal_to", ["max_value"]),
    "eq": ("equal_to", ["value"]),
    "ne": ("not_equal_to", ["value"]),
    "in_range": ("in_range", ["min_value", "max_value"]),
    "isin": ("isin", ["allowed_values"]),
    "notin": ("notin", ["forbidden_values"]),
    "str_matches": ("str_matches", ["pattern"]),
    "str_contains": ("str_contains", ["pattern"]),
    "str_startswith": ("str_startswith", ["string"]),
    "str_endswith": ("str_endswith", ["string"]),
    "str_length": ("str_length", ["min_value", "max_value"]),
    "unique_values_eq": ("unique_values_eq", ["values"]),
}


def check_opts(cs):
    opts = {}
    for k in ("ignore_na", "raise_warning", "n_failure_cases"):
        if cs.get(k) is not None:
            opts[k] = cs[k]
    return opts


def build_check(cs):
    kind = cs["kind"]
    opts = check_opts(cs)
    args = [_arg(a) for a in cs.get("args", [])]
    if kind in BUILTIN:
        return getattr(pa.Check, BUILTIN[kind][0])(*args, **opts)
    if kind in D.CUSTOM:
        return D.CUSTOM[kind](opts)
    if kind == "kw_min_rows":
        return pa.Check(D.min_rows, n=args[0], **opts)
    if kind == "registered":
        return pa.Check.c05_len_ge(k=args[0], **opts)
    raise ValueError(f"unknown check kind {kind!r}")


def build_column(c):
    return pa.Column(
        dtype=dtype_of(c.get("dtype")),
        checks=[build_check(x) for x in c.get("checks", [])],
        parsers=[pa.Parser(D.parse_identity)] if c.get("parser") else None,
        nullable=c.get("nullable", False),
        unique=c.get("unique", False),
        coerce=c.get("coerce", False),
        required=c.get("required", True),
        regex=c.get("regex", False),
        title=c.get("title"),
    )


def build_index_component(i):
    return pa.Index(
        dtype=dtype_of(i.get("dtype")),
        checks=[build_check(x) for x in i.get("checks", [])],
        nullable=i.get("nullable", False),
        unique=i.get("unique", False),
        coerce=i.get("coerce", False),
        name=i.get("name"),
    )


def build_index(ix):
    if ix is None:
        return None
    if isinstance(ix, list):
        return pa.MultiIndex([build_index_component(i) for i in ix])
    return build_index_component(ix)


def build_frame_schema(spec):
    return pa.DataFrameSchema(
        columns={c["name"]: build_column(c) for c in spec["columns"]},
        checks=[build_check(x) for x in spec.get("checks", [])],
        index=build_index(spec.get("index")),
        dtype=dtype_of(spec.get("dtype")),
        coerce=spec.get("coerce", False),
        strict=spec.get("strict", False),
        name=spec.get("name"),
        ordered=spec.get("ordered", False),
        unique=spec.get("unique"),
        add_missing_columns=spec.get("add_missing_columns", False),
        drop_invalid_rows=spec.get("drop_invalid_rows", False),
        title=spec.get("title"),
        description=spec.get("description"),
    )


def build_series_schema(spec):
    c = spec["columns"][0]
    return pa.SeriesSchema(
        dtype=dtype_of(c.get("dtype")),
        checks=[build_check(x) for x in c.get("checks", [])],
        index=build_index(spec.get("index")),
        nullable=c.get("nullable", False),
        unique=c.get("unique", False),
        coerce=c.get("coerce", False),
        name=c.get("name"),
    )


PY_TYPES = {"int64": int, "float64": float, "str": str, "bool": bool}
FIELD_SCALAR = {"gt", "ge", "lt", "le", "eq", "ne", "str_matches", "str_contains", "str_startswith", "str_endswith"}


def build_model(spec):
    """A fresh DataFrameModel class (own MODEL_CACHE entry) for the restricted 'model' spec."""
    ann, ns = {}, {}
    for i, c in enumerate(spec["columns"]):
        attr = f"f{i}"
        ann[attr] = PY_TYPES[c["dtype"]]
        kw = {}
        for cs in c.get("checks", []):
            k = cs["kind"]
            args = [_arg(a) for a in cs.get("args", [])]
            if k in FIELD_SCALAR:
                kw[k] = args[0]
            elif k in ("isin", "notin"):
                kw[k] = args[0]
            elif k in ("in_range", "str_length"):
                kw[k] = {"min_value": args[0], "max_value": args[1]}
            else:
                raise ValueError(f"check kind {k!r} not expressible in a Field")
        ns[attr] = pa.Field(
            alias=c["name"], regex=c.get("regex", False), nullable=c.get("nullable", False),
            unique=c.get("unique", False), coerce=c.get("coerce", False), **kw,
        )
    for j, cs in enumerate(spec.get("checks", [])):
        if cs["kind"] != "len_le_3":
            raise ValueError("model frame-level check must be len_le_3")
        ns[f"_dfc{j}"] = pa.dataframe_check(D.df_rows_le_3)
    cfg = {"strict": spec.get("strict", False), "coerce": spec.get("coerce", False),
           "ordered": spec.get("ordered", False), "name": spec.get("name")}
    if spec.get("unique"):
        cfg["unique"] = spec["unique"]
    ns["Config"] = type("Config", (), cfg)
    ns["__annotations__"] = ann
    ns["__module__"] = D.__name__
    return type("C05Model", (pa.DataFrameModel,), ns)


# ------------------------------------------------------------------------- tables


def build_values(phys, cells):
    if phys == "int64":
        return pd.Series([int(x) for x in cells], dtype="int64")
    if phys == "float64":
        return pd.Series([math.nan if x is None else float(x) for x in cells], dtype="float64")
    if phys == "object":
        return pd.Series(list(cells), dtype=object)
    if phys == "bool":
        return pd.Series([bool(x) for x in cells], dtype=bool)
    if phys == "Int64":
        return pd.Series(pd.array([None if x is None else int(x) for x in cells], dtype="Int64"))
    if phys == "category":
        return pd.Series([str(x) for x in cells], dtype=object).astype("category")
    if phys == "timedelta":
        return pd.Series(pd.to_timedelta([int(x) for x in cells], unit="s"))
    if phys in ("datetime", "dt_utc", "dt_paris"):
        s = pd.Series([pd.NaT if x is None else pd.Timestamp(x) for x in cells], dtype="datetime64[ns]")
        if phys == "dt_utc":
            s = s.dt.tz_localize("UTC")
        elif phys == "dt_paris":
            s = s.dt.tz_localize("Europe/Paris")
        return s
    if phys == "dt_mixed":
        return pd.Series([pd.Timestamp(x, tz=TZ[i % 2]) for i, x in enumerate(cells)], dtype=object)
    raise ValueError(f"unknown phys {phys!r}")


def build_pd_index(ix, n):
    if ix is None:
        return pd.RangeIndex(n)
    levels = ix["levels"]
    names = ix["names"]
    if len(levels) == 1:
        return pd.Index(list(levels[0][:n]) + [0] * 0, name=names[0])
    return pd.MultiIndex.from_arrays([list(lv[:n]) for lv in levels], names=names)


def build_frame(table):
    cols = table["columns"]
    n = table["n"]
    data = [build_values(c["phys"], c["cells"][:n]) for c in cols]
    if data:
        df = pd.concat(data, axis=1)
        df.columns = [c["name"] for c in cols]
    else:
        df = pd.DataFrame(index=pd.RangeIndex(n))
    df.index = build_pd_index(table.get("index"), n)
    return df


def build_series(table):
    c = table["columns"][0]
    n = table["n"]
    s = build_values(c["phys"], c["cells"][:n])
    s.name = c["name"]
    s.index = build_pd_index(table.get("index"), n)
    return s
