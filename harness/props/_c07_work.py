"""C07 workloads: JSON spec -> pandera objects, calls, outcome normalisation, feature classes.

workload = {"name": str (informational),
            "schemas": [schema_spec, ...],
            "calls":   [call_spec, ...]}            # 2..3 calls, one thread each
schema_spec = {"be": "pd"|"pl", "model": bool, "cols": [col_spec...], "coerce": bool, "strict": False|True|"filter",
               "ordered": bool, "index": None|{"dt","coerce","checks"}, "checks": [frame check...],
               "unique": None|[names], "add_missing": bool}
col_spec   = {"n": name, "dt": "int64"|"float64"|"str", "coerce": bool, "nullable": bool, "unique": bool,
              "required": bool, "regex": bool, "default": None|value, "checks": [[op, arg...], ...]}
call_spec  = {"s": schema index, "form": "pd"|"pl_df"|"pl_lf", "data": {"cols": {name: [cells]}, "index": None|[...]},
              "lazy": bool, "head": None|int, "inplace": bool, "ctx": None|"SCHEMA_ONLY"|"DATA_ONLY"|"SCHEMA_AND_DATA"}
Two calls with the same "s" share ONE schema object; equal specs under different indices are distinct objects.
"""
from __future__ import annotations

import re
from collections import Counter

from .. import fp

DEPTHS = ("SCHEMA_ONLY", "DATA_ONLY", "SCHEMA_AND_DATA")
_HEX = re.compile(r"0x[0-9A-Fa-f]+")


# ------------------------------------------------------------------------ builders


def _pd_dtype(dt):
    return {"int64": "int64", "float64": "float64", "str": str, "object": object}[dt]


def _pl_dtype(dt):
    import polars as pl

    return {"int64": pl.Int64, "float64": pl.Float64, "str": pl.Utf8}[dt]


def _fn_gt(v):
    def gt_fn(s):
        return s > v

    return gt_fn


def _frame_col_lt(col, v):
    def frame_col_lt(df):
        return df[col] < v

    return frame_col_lt


def _check(spec, be):
    import pandera as pa

    op, args = spec[0], spec[1:]
    opts = {}
    if args and isinstance(args[-1], dict):  # check options (n_failure_cases, raise_warning, ...)
        opts, args = dict(args[-1]), args[:-1]
    C = pa.Check
    if op in ("gt", "ge", "lt", "le", "ne", "eq"):
        return getattr(C, op)(args[0], **opts)
    if op == "isin":
        return C.isin(list(args[0]))
    if op == "in_range":
        return C.in_range(args[0], args[1])
    if op == "str_length":
        return C.str_length(args[0], args[1])
    if op == "fn_gt" and be == "pd":
        return C(_fn_gt(args[0]), name="fn_gt")
    if op == "el_gt" and be == "pd":
        return C(_fn_gt(args[0]), element_wise=True, name="el_gt")
    if op == "frame_col_lt" and be == "pd":
        return C(_frame_col_lt(args[0], args[1]), name="frame_col_lt")
    raise ValueError(f"unknown check spec {spec!r} for backend {be}")


def build_schema(spec, coerce_off=()):
    """coerce_off: component keys ("col:<name>" / "index") whose coerce flag is forced to False (oracle variants)."""
    import pandera as pa

    be = spec["be"]
    if spec.get("model"):
        return _build_model(spec)
    if be == "pd":
        cols = {}
        for c in spec["cols"]:
            cols[c["n"]] = pa.Column(
                _pd_dtype(c["dt"]), checks=[_check(k, be) for k in c.get("checks", [])],
                nullable=c.get("nullable", False), unique=c.get("unique", False),
                coerce=c.get("coerce", False) and ("col:" + c["n"]) not in coerce_off,
                required=c.get("required", True), regex=c.get("regex", False), default=c.get("default"),
            )
        index = None
        if spec.get("index"):
            ix = spec["index"]
            index = pa.Index(_pd_dtype(ix["dt"]), checks=[_check(k, be) for k in ix.get("checks", [])],
                             coerce=ix.get("coerce", False) and "index" not in coerce_off, name=ix.get("name"))
        if spec.get("entry") in ("series", "index") and spec.get("index"):
            ix = spec["index"]
            index = pa.Index(_pd_dtype(ix["dt"]), checks=[_check(k, be) for k in ix.get("checks", [])],
                             coerce=ix.get("coerce", False) and "index" not in coerce_off, name=ix.get("name"))
            if spec["entry"] == "index":  # the component itself validates the frames
                return index
            c = spec["cols"][0]
            return pa.SeriesSchema(_pd_dtype(c["dt"]), checks=[_check(k, be) for k in c.get("checks", [])],
                                   nullable=c.get("nullable", False), coerce=c.get("coerce", False), index=index, name=c["n"])
        if spec.get("mindex"):
            mi = spec["mindex"]
            index = pa.MultiIndex([pa.Index(_pd_dtype(l["dt"]), checks=[_check(k, be) for k in l.get("checks", [])],
                                            coerce=l.get("coerce", False), name=l.get("name")) for l in mi["levels"]],
                                  coerce=mi.get("coerce", False), strict=mi.get("strict", False))
            if spec.get("entry") == "mindex":  # the component itself validates the frames (MultiIndex.validate)
                return index
        if spec.get("dtype"):  # a schema that only declares a dataframe-level dtype (components are made per data column)
            return pa.DataFrameSchema(dtype=_pd_dtype(spec["dtype"]), coerce=spec.get("coerce", False),
                                      checks=[_check(k, be) for k in spec.get("checks", [])])
        return pa.DataFrameSchema(
            cols, checks=[_check(k, be) for k in spec.get("checks", [])], index=index,
            coerce=spec.get("coerce", False), strict=spec.get("strict", False), ordered=spec.get("ordered", False),
            unique=spec.get("unique"), add_missing_columns=spec.get("add_missing", False), name=spec.get("name"),
            drop_invalid_rows=spec.get("drop", False),
        )
    import pandera.polars as pap

    cols = {}
    for c in spec["cols"]:
        cols[c["n"]] = pap.Column(
            _pl_dtype(c["dt"]), checks=[_check(k, be) for k in c.get("checks", [])],
            nullable=c.get("nullable", False), unique=c.get("unique", False),
            coerce=c.get("coerce", False) and ("col:" + c["n"]) not in coerce_off,
            required=c.get("required", True), regex=c.get("regex", False), default=c.get("default"),
        )
    return pap.DataFrameSchema(
        cols, checks=[_check(k, be) for k in spec.get("checks", [])],
        coerce=spec.get("coerce", False), strict=spec.get("strict", False), ordered=spec.get("ordered", False),
        unique=spec.get("unique"), add_missing_columns=spec.get("add_missing", False), name=spec.get("name"),
    )


def _build_model(spec):
    """A fresh DataFrameModel class (never compiled: cold MODEL_CACHE entry)."""
    import pandera as pa

    be = spec["be"]
    ann, ns = {}, {}
    for c in spec["cols"]:
        kw = {}
        for k in c.get("checks", []):
            if k[0] in ("gt", "ge", "lt", "le", "ne", "eq"):
                kw[k[0]] = k[1]
            elif k[0] == "isin":
                kw["isin"] = list(k[1])
            else:
                raise ValueError(f"check {k!r} not expressible as Field argument")
        if be == "pd":
            ann[c["n"]] = {"int64": int, "float64": float, "str": str}[c["dt"]]
        else:
            ann[c["n"]] = _pl_dtype(c["dt"])
        ns[c["n"]] = pa.Field(nullable=c.get("nullable", False), unique=c.get("unique", False),
                              coerce=c.get("coerce", False), **kw)
    cfg = {"strict": spec.get("strict", False), "coerce": spec.get("coerce", False),
           "ordered": spec.get("ordered", False)}
    ns["Config"] = type("Config", (), cfg)
    if spec.get("broken"):
        # a definition error only the first use of the model reports (SchemaInitError): a check on a field that
        # does not exist
        def positive(cls, series):
            return series > 0

        ns["positive"] = pa.check("does_not_exist")(classmethod(positive))
    ns["__annotations__"] = ann
    ns["__module__"] = __name__
    if be == "pd":
        base = pa.DataFrameModel
    else:
        import pandera.polars as pap

        base = pap.DataFrameModel
    return type("C07Model", (base,), ns)


def build_data(call):
    d = call["data"]
    form = call["form"]
    if form == "pd":
        import pandas as pd

        obj_cols = set(d.get("object_cols") or [])  # columns built with dtype=object whatever they hold
        df = pd.DataFrame({k: (pd.Series(list(v), dtype=object) if k in obj_cols else list(v)) for k, v in d["cols"].items()})
        if d.get("int_labels"):  # digit-string keys stand for integer labels
            df.columns = [int(k) if str(k).isdigit() else k for k in df.columns]
        if d.get("index") is not None:
            df.index = pd.Index(list(d["index"]))
        if d.get("series"):  # the first column as a Series (SeriesSchema entry)
            k0 = next(iter(d["cols"]))
            s_ = df[k0]
            s_.name = k0
            return s_
        if d.get("mindex") is not None:  # {"arrays": [[...], ...], "names": [...]} (names may repeat / be None)
            df.index = pd.MultiIndex.from_arrays([list(a) for a in d["mindex"]["arrays"]], names=list(d["mindex"]["names"]))
        return df
    import polars as pl

    df = pl.DataFrame({k: list(v) for k, v in d["cols"].items()}, strict=False)
    return df.lazy() if form == "pl_lf" else df


class Objects:
    """Everything one execution needs, built fresh from the workload spec."""

    def __init__(self, w, only_call=None, coerce_off=()):
        self.w = w
        self.schemas = []
        for i, s in enumerate(w["schemas"]):
            self.schemas.append(build_schema(s, coerce_off=coerce_off))
        self.datas = [build_data(c) if (only_call is None or only_call == i) else None
                      for i, c in enumerate(w["calls"])]

    def schema_objects(self):
        """The DataFrameSchema objects whose state is compared before/after (models: compiled lazily)."""
        out = []
        for s in self.schemas:
            if isinstance(s, type):
                out.append(s.__schema__ if s.__dict__.get("__schema__") is not None else None)
            else:
                out.append(s)
        return out

    def call(self, i, force_depth=None):
        c = self.w["calls"][i]
        schema = self.schemas[c["s"]]
        data = self.datas[i]
        kw = {"lazy": bool(c.get("lazy", False))}
        if c.get("head") is not None:
            kw["head"] = c["head"]
        if c.get("tail") is not None:
            kw["tail"] = c["tail"]
        if c.get("sample") is not None:
            kw["sample"] = c["sample"]
            kw["random_state"] = c.get("random_state")
        if c.get("inplace"):
            kw["inplace"] = True
        depth = force_depth or c.get("ctx")

        def fn():
            if depth:
                from pandera import config

                with config.config_context(validation_depth=config.ValidationDepth[depth]):
                    return schema.validate(data, **kw)
            return schema.validate(data, **kw)

        return fn

    def probe(self):
        """Cheap snapshot of the shared state pandera overrides temporarily."""
        from pandera import config

        c = config._CONTEXT_CONFIG
        attrs = []
        for s in self.schema_objects():
            if s is None:
                attrs.append(None)
                continue
            row = []
            comps = list(getattr(s, "columns", {}).values())
            ix = getattr(s, "index", None)
            if ix is not None:
                comps.append(ix)
            for comp in comps:
                d = comp.__dict__
                row.append((d.get("_coerce", d.get("coerce")), id(d.get("_dtype", d.get("dtype"))), d.get("_name", d.get("name")),
                            len(d)))
            row.append((s.__dict__.get("_coerce", None), id(s.__dict__.get("_dtype", None)), len(s.__dict__)))
            attrs.append(tuple(row))
        return {
            "config": (c.validation_enabled, c.validation_depth, c.cache_dataframe, c.keep_cached_dataframe),
            "schema-attrs": tuple(attrs),
        }


# ----------------------------------------------------------------- outcome normalising


def _scrub(s, n=400):
    return _HEX.sub("0x?", str(s))[:n]


def _fc(x):
    try:
        import pandas as pd

        if isinstance(x, (pd.DataFrame, pd.Series, pd.Index)):
            return fp.snapshot(x)
    except Exception:  # pragma: no cover
        pass
    try:
        import polars as pl

        if isinstance(x, (pl.DataFrame, pl.LazyFrame, pl.Series)):
            return fp.snapshot(x)
    except Exception as e:
        return {"kind": "snapshot-failed", "type": type(e).__name__}
    return _scrub(repr(x), 300)


def _err_entry(e):
    rc = getattr(e, "reason_code", None)
    sch = getattr(e, "schema", None)
    return {
        "reason": getattr(rc, "name", str(rc)),
        "schema": f"{type(sch).__name__}:{getattr(sch, 'name', None)!r}",
        "check": _scrub(getattr(e, "check", None), 200),
        "check_index": getattr(e, "check_index", None),
        "column": repr(getattr(e, "column_name", None)),
        "failure_cases": _fc(getattr(e, "failure_cases", None)),
        "msg": _scrub(e, 300),
    }


def normalise(res):
    """("ok", value) | ("exc", exception) -> JSON-able outcome compared between schedule and solo run."""
    import pandera.errors as pe

    if res is None:
        return {"k": "no-result"}
    if res[0] == "ok":
        v = res[1]
        try:
            snap = fp.snapshot(v)
        except Exception as e:  # e.g. a LazyFrame whose collect() fails
            snap = {"kind": "snapshot-failed:" + fp.kind_of(v), "type": type(e).__name__, "msg": _scrub(e, 200)}
        return {"k": "ok", "value": snap}
    e = res[1]
    if isinstance(e, pe.SchemaErrors):
        try:
            errs = [_err_entry(x) for x in e.schema_errors]
        except Exception as ex:  # noqa: BLE001
            errs = [{"unreadable": type(ex).__name__}]
        return {"k": "SchemaErrors", "errors": errs}
    if isinstance(e, pe.SchemaError):
        return {"k": "SchemaError", "error": _err_entry(e)}
    return {"k": "exc", "type": type(e).__name__, "msg": _scrub(e, 300)}


def brief(o):
    """Short form of an outcome for discrepancy details."""
    if not isinstance(o, dict):
        return repr(o)[:200]
    if o.get("k") == "ok":
        v = o.get("value", {})
        return {"k": "ok", "kind": v.get("kind"), "dtypes": v.get("dtypes", v.get("schema")), "cells": v.get("cells")}
    if o.get("k") == "SchemaErrors":
        return {"k": "SchemaErrors", "errors": [[x.get("reason"), x.get("column"), x.get("check")] for x in o["errors"]]}
    if o.get("k") == "SchemaError":
        x = o["error"]
        return {"k": "SchemaError", "error": [x.get("reason"), x.get("column"), x.get("check"), x.get("msg", "")[:120]]}
    return o


# ------------------------------------------------------------------------- features


def backend_of(call):
    return "pd" if call["form"] == "pd" else "pl"


def coerce_components(spec):
    """Keys of the components of a schema spec whose own coerce flag is set."""
    out = ["col:" + c["n"] for c in spec["cols"] if c.get("coerce")]
    if spec.get("index") and spec["index"].get("coerce"):
        out.append("index")
    return out


def features(w):
    calls, schemas = w["calls"], w["schemas"]
    use = Counter(c["s"] for c in calls)
    shared = [i for i, k in use.items() if k >= 2]
    shared_pd = [i for i in shared if schemas[i]["be"] == "pd"]
    shared_pl = [i for i in shared if schemas[i]["be"] == "pl"]
    f = {
        "n": len(calls),
        "forms": sorted(("ctx+" if c.get("ctx") else "") + c["form"] for c in calls),
        "shared_pd": shared_pd,
        "shared_pl": shared_pl,
        # a shared pandas schema with a component-level override that is not a no-op
        "pd_override": any(coerce_components(schemas[i]) or schemas[i].get("dtype") for i in shared_pd),
        "pd_regex": any(any(c.get("regex") for c in schemas[i]["cols"]) for i in shared_pd),
        # >=1 call writes the module-global context config while another call runs
        "cfg_writer": len(calls) >= 2 and any(c["form"] != "pd" or c.get("ctx") for c in calls),
        "model": any(s.get("model") for s in schemas),
    }
    if f["cfg_writer"]:
        cls = "cfg:" + "+".join(f["forms"])
        if f["shared_pl"]:
            cls += ":shared-pl"
    elif f["pd_override"]:
        cls = "pd-shared-override"
    elif f["pd_regex"]:
        cls = "pd-shared-regex"
    elif f["shared_pd"]:
        cls = "pd-shared-noop" + (":model" if f["model"] else "")
    else:
        cls = "pd-distinct"
    f["class"] = cls
    f["expect_independent"] = not (f["cfg_writer"] or f["pd_override"] or f["pd_regex"])
    return f
