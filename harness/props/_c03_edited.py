"""C03 family edited_result (round 8): a validated object that is then edited in place is validated like any other.

Metamorphic oracle: out = schema.validate(D) (or a failed validate(D, inplace=True), after which the caller still holds D);
edit `out` in place; then schema.validate(out) must equal schema.validate(an equal frame this schema has never seen) -
same verdict, same reasons, same returned content.  What validate returns conforms because it was parsed and checked
*now*, not because the object was valid earlier.  Non-trivial = the edit changes what the second validation does."""
from __future__ import annotations

from hypothesis import strategies as st

from .. import fp, spec as sp
from ..core import Eval

EDITS = ["raw-back", "null-cell", "drop-column", "reverse-column", "none"]


def strat_edited(strat_pandas):
    return st.tuples(strat_pandas(), st.sampled_from(EDITS), st.integers(0, 7), st.booleans()).map(
        lambda t: dict(t[0], edit=t[1], edit_pos=t[2], first_inplace=t[3]))


def _snap_or_none(x):
    try:
        return fp.snapshot(x)
    except Exception:  # noqa: BLE001
        return None


def eval_edited(case):
    import pandas as pd

    ev = Eval()
    spec, table = case["spec"], case["table"]
    if spec.get("kind", "dataframe") != "dataframe" or case.get("entry") == "column":
        ev.skipped = "not-a-dataframe-schema"
        return ev
    schema = sp.pandas_schema(spec)
    data = sp.pandas_frame(table)
    raw = data.copy(deep=True)
    lazy = bool(case.get("lazy"))
    o = fp.outcome(lambda: schema.validate(data, lazy=lazy, inplace=case["first_inplace"]))
    if o["kind"] == "ok":
        out = o["value"]
    elif case["first_inplace"] and o["kind"] in ("SchemaError", "SchemaErrors"):
        out = data  # a failed in-place validation: the caller keeps working with the same object
        ev.labels.append("edited:first-validation-failed-inplace")
    else:
        ev.labels.append("edited:first-outcome=" + o["kind"])
        return ev
    if not isinstance(out, pd.DataFrame) or out.columns.has_duplicates or not len(out.columns):
        ev.labels.append("edited:not-editable")
        return ev
    k, cols = case["edit_pos"], list(out.columns)
    c = cols[k % len(cols)]
    try:
        if case["edit"] == "raw-back":
            if not raw.columns.has_duplicates and len(raw) == len(out):
                for cn in cols:
                    if cn in raw.columns:
                        out[cn] = raw[cn].to_numpy()
        elif case["edit"] == "null-cell" and len(out):
            out[c] = out[c].astype(object)
            out.iloc[k % len(out), cols.index(c)] = None
        elif case["edit"] == "drop-column":
            del out[c]
        elif case["edit"] == "reverse-column" and len(out) >= 2:
            out[c] = out[c].to_numpy()[::-1]
    except Exception:  # noqa: BLE001 - pandas refuses the edit: nothing to compare
        ev.labels.append("edited:edit-refused")
        return ev
    ev.labels.append("edited:" + case["edit"])
    if not len(out.columns):
        ev.labels.append("edited:no-column-left")
        return ev
    fresh = pd.concat([out[cn].copy() for cn in out.columns], axis=1)
    s_out = _snap_or_none(out)
    if s_out is None or _snap_or_none(fresh) != s_out:
        ev.labels.append("edited:fresh-copy-not-equal")
        return ev
    a = fp.outcome(lambda: schema.validate(fresh, lazy=lazy))
    b = fp.outcome(lambda: schema.validate(out, lazy=lazy))
    ev.labels.append("edited:second-outcome=" + a["kind"])
    ev.nontrivial = case["edit"] != "none" and (a["kind"] != "ok" or _snap_or_none(a["value"]) != s_out)
    if ev.nontrivial:
        ev.labels.append("edited:edit-matters")
    if a["kind"] != b["kind"]:
        ev.add("edited-result:verdict-differs-from-never-seen-equal-frame",
               {"edit": case["edit"], "fresh": a["kind"], "edited": b["kind"], "fresh_reasons": a.get("reasons")})
        return ev
    if a["kind"] == "ok":
        sa, sb = _snap_or_none(a["value"]), _snap_or_none(b["value"])
        if sa is not None and sb is not None and sa != sb:
            ev.add("edited-result:returned-content-differs-from-never-seen-equal-frame",
                   {"edit": case["edit"], "diff": fp.fp_diff(sa, sb)[:4]})
    elif a["kind"] in ("SchemaError", "SchemaErrors") and \
            sorted(map(str, a.get("reasons") or [])) != sorted(map(str, b.get("reasons") or [])):
        ev.add("edited-result:reasons-differ-from-never-seen-equal-frame",
               {"edit": case["edit"], "fresh": a.get("reasons"), "edited": b.get("reasons")})
    return ev
