"""C10 helpers: JSON cell encoding, canonical cell keys, scalar normalisation.

A *cell* is a JSON value: int, finite float, str, bool, None, or a tagged dict
  {"t":"nan"} {"t":"inf"} {"t":"-inf"} {"t":"NA"} {"t":"NaT"}
  {"t":"ts","v":"2020-01-01T12:00:00","tz":null|"UTC"|...}   pandas Timestamp
  {"t":"td","v":"1s"}                                          pandas Timedelta
  {"t":"date","v":"2020-01-01"}                                datetime.date
  {"t":"dec","v":"1.50"}                                       decimal.Decimal
"""
from __future__ import annotations

import datetime
import decimal
import math


def decode(cell):
    import numpy as np
    import pandas as pd

    if isinstance(cell, dict):
        t = cell["t"]
        if t == "nan":
            return float("nan")
        if t == "inf":
            return float("inf")
        if t == "-inf":
            return float("-inf")
        if t == "NA":
            return pd.NA
        if t == "NaT":
            return pd.NaT
        if t == "ts":
            return pd.Timestamp(cell["v"], tz=cell.get("tz"))
        if t == "td":
            return pd.Timedelta(cell["v"])
        if t == "date":
            return datetime.date.fromisoformat(cell["v"])
        if t == "dec":
            return decimal.Decimal(cell["v"])
        raise ValueError(f"unknown cell tag {t!r}")
    return cell


def is_null(v) -> bool:
    import pandas as pd

    if v is None or v is pd.NA or v is pd.NaT:
        return True
    try:
        if isinstance(v, float) and math.isnan(v):
            return True
        import numpy as np

        if isinstance(v, np.floating) and np.isnan(v):
            return True
        if isinstance(v, (np.datetime64, np.timedelta64)) and np.isnat(v):
            return True
        if isinstance(v, complex) and (math.isnan(v.real) or math.isnan(v.imag)):
            return True
        if isinstance(v, np.complexfloating) and (np.isnan(v.real) or np.isnan(v.imag)):
            return True
        if isinstance(v, decimal.Decimal) and v.is_nan():
            return True
    except Exception:
        pass
    return False


def null_kind(v):
    import pandas as pd

    if v is None:
        return "None"
    if v is pd.NA:
        return "NA"
    if v is pd.NaT:
        return "NaT"
    return "nan"


def norm(v):
    """numpy scalars -> python scalars (so classification rules see plain types)."""
    import numpy as np

    if isinstance(v, np.bool_):
        return bool(v)
    if isinstance(v, np.integer):
        return int(v)
    if isinstance(v, np.floating):
        return float(v)
    if isinstance(v, np.str_):
        return str(v)
    return v


def key(v):
    """Canonical, hashable, JSON-able key used to compare a reported failure case with an input
    element.  All null kinds share one key (pandera may re-box a null); ints/integral floats share a key
    (a numeric failure_case column may be upcast)."""
    import pandas as pd

    v = norm(v)
    if is_null(v):
        return "null"
    if isinstance(v, bool):
        return f"b:{v}"
    if isinstance(v, int):
        return f"n:{v}"
    if isinstance(v, float):
        if math.isinf(v):
            return "n:inf" if v > 0 else "n:-inf"
        if v == int(v) and abs(v) < 2 ** 63:
            return f"n:{int(v)}"
        return f"n:{v!r}"
    if isinstance(v, str):
        return f"s:{v}"
    if isinstance(v, pd.Timestamp):
        return f"ts:{v.isoformat()}"
    if isinstance(v, pd.Timedelta):
        return f"td:{v.value}"
    if isinstance(v, datetime.datetime):
        return f"ts:{pd.Timestamp(v).isoformat()}"
    if isinstance(v, datetime.date):
        return f"date:{v.isoformat()}"
    if isinstance(v, datetime.timedelta):
        return f"td:{(v.days * 86400 + v.seconds) * 10 ** 9 + v.microseconds * 1000}"
    if isinstance(v, decimal.Decimal):
        return f"dec:{v}"
    if isinstance(v, bytes):
        return f"bytes:{v!r}"
    return f"{type(v).__name__}:{v!r}"[:120]


def label_key(v):
    """Labels travel through reset_index(), which re-infers a numeric dtype for the label column
    (ints may come back as floats): numbers are compared as floats."""
    v = norm(v)
    if isinstance(v, (int, float)) and not isinstance(v, bool) and not is_null(v):
        try:
            return f"n:{float(v)!r}"
        except OverflowError:
            return f"n:{v}"
    return key(v)


def show(v):
    """Short JSON-able rendering for details."""
    v = norm(v)
    if v is None or isinstance(v, (bool, int, str)):
        return v
    return f"{type(v).__name__}:{v!r}"[:80]
