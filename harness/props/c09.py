"""C09 - data type resolution is coherent in every engine (numpy, pandas incl. pyarrow, polars, pyspark).

Families
  registry  exhaustive: every key of Engine._registry[E].equivalents, every registered DataType class and its
            default instance, every abstract pandera.dtypes class / default instance, example instances of every
            parametrised dispatch source type, and the documented example spellings      (single-spelling oracles)
  pairs     exhaustive: all ordered pairs of those spellings per engine                   (==, hash, check oracles)
  params    Hypothesis: parameterised types (time zones, units, categories, precision/scale, nested element types)
            in several spellings of the same parameters, paired with a second draw
  strings   Hypothesis: string aliases (registry aliases, printed names, numpy/pandas/pyarrow/spark grammar,
            mutations of those) - resolves or raises TypeError, and resolved strings obey the single-spelling oracles
  fresh     subprocess: resolution of the pyarrow aliases must not depend on what was resolved earlier

Oracles (single spelling k, engine E, r = E.dtype(k)):
  resolves to a pandera DataType (registered keys / documented spellings), never leaks a non-TypeError;
  E.dtype(r) == r (same hash, same class); resolving a rebuilt k again gives an equal object; r.check(r);
  what k denotes according to the *native* library / abstract hierarchy (kind, signedness, bit width, backing
  variant, time zone) agrees with the native dtype boxed in r.type; a native dtype instance is boxed unchanged;
  E.dtype(str(r)) == r for primitive r (numpy, pandas, pyspark).
Pair oracles: == symmetric; equal => equal hashes and equal boxed native dtypes; spellings with identical native
  tags resolve equal; r1.check(r2) for physical r1 => (kind, signedness, bits)(r1) == (kind, signedness, bits)(r2).
"""
from __future__ import annotations

import json
import os
import subprocess
import sys
import traceback

from hypothesis import strategies as st

from .. import known
from ..core import Eval, Family, HarnessError, canon
from . import _c09_spell as S

PROPERTY = "C09"
LEVEL = "exploration"
RULE = (
    "registry/pairs enumerate the live registries completely (every equivalents key, registered class, abstract "
    "pandera dtype, dispatch example, documented spelling; all ordered pairs per engine); params/strings are "
    "Hypothesis-generated. Non-trivial: the spelling is not already the resolved object (resolution went through the "
    "equivalents table / dispatch / engine fallback), a pair involves two different resolved classes, or the type is "
    "parameterised. Distinct = hash of the canonical JSON case."
)
ASSUMPTIONS = [
    "native introspection (numpy dtype.kind/itemsize, pandas extension dtype classes, pyarrow.types predicates, "
    "polars base_type(), pyspark type classes) is the ground truth for kind / signedness / bit width / time zone",
    "what a string alias denotes is taken from the native parser (np.dtype, pandas_dtype, Spark typeName/simpleString) "
    "or, for polars and pandas infer_dtype names, from the names themselves; Python int/float mean 64 bit except in "
    "pyspark where no mapping is claimed",
    "pandas numpy-backed datetimes are ns only (documented), so units of np.datetime64 spellings are not compared",
    "pandera.engines.pyarrow_engine is imported before any case runs (family 'fresh' checks the import's effect)",
    "only TypeError is the documented rejection channel of Engine.dtype (callers catch TypeError only)",
]

ENGINES = ["numpy", "pandas", "polars", "pyspark"]
PRINT_ENGINES = ("numpy", "pandas", "pyspark")

_ENG = None


def engines():
    global _ENG
    if _ENG is None:
        import warnings

        warnings.filterwarnings("ignore")
        from pandera.engines import numpy_engine, pandas_engine, polars_engine, pyspark_engine
        import pandera.engines.pyarrow_engine  # noqa: F401  deterministic registry state

        _ENG = {"numpy": numpy_engine.Engine, "pandas": pandas_engine.Engine, "polars": polars_engine.Engine,
                "pyspark": pyspark_engine.Engine}
    return _ENG


def setup():
    engines()


# ------------------------------------------------------------------ resolution


def _site(tb):
    """innermost pandera function on the traceback (stable bucket component)."""
    site = "?"
    for fr, _ in traceback.walk_tb(tb):
        fn = fr.f_code.co_filename.replace("\\", "/")
        if "/pandera/" in fn:
            site = os.path.basename(fn)[:-3] + "." + fr.f_code.co_name
    return site


def resolve(engine, obj):
    E = engines()[engine]
    try:
        r = E.dtype(obj)
    except TypeError as e:
        return {"st": "rejected", "msg": str(e)[:160]}
    except Exception as e:  # anything else is a leak
        return {"st": "leak", "exc": type(e).__name__, "site": _site(e.__traceback__), "msg": str(e)[:160],
                "bases": [c.__name__ for c in type(e).__mro__ if c not in (object, BaseException, Exception)]}
    return {"st": "ok", "r": r}


def _is_datatype(r):
    from pandera.dtypes import DataType

    return isinstance(r, DataType)


def _eq(a, b):
    try:
        return bool(a == b)
    except Exception:
        return None


def _hash(a):
    try:
        return hash(a)
    except Exception:
        return None


def _truthy(c):
    """value of a dtype check without data: bool-like, or an iterable of bool-likes."""
    try:
        return bool(c)
    except Exception:
        pass
    try:
        return all(bool(x) for x in c)
    except Exception:
        return None


def _native(r):
    return getattr(r, "type", None)


def _native_eq(engine, a, b):
    try:
        import numpy as np

        if isinstance(a, np.dtype) and isinstance(b, np.dtype):
            return a.name == b.name  # byte order is normalised by design ("platform-agnostic dtype")
        if engine == "pandas":
            import pandas as pd
            import pyarrow as pa

            if isinstance(a, pa.DataType):
                a = pd.ArrowDtype(a)
            if isinstance(b, pa.DataType):
                b = pd.ArrowDtype(b)
        return bool(a == b)
    except Exception:
        return None


_NONPRIM_CLASSES = {
    "Decimal", "ArrowDecimal128", "PythonDict", "PythonList", "PythonTuple", "PythonTypedDict", "PythonNamedTuple",
    "PythonGenericType", "ArrowList", "ArrowStruct", "ArrowMap", "ArrowDictionary", "Sparse", "Interval", "Period",
    "PydanticModel", "ArrayType", "MapType", "ArrowBinary", "ArrowLargeBinary", "ArrowNull", "Bytes", "Binary",
    "DataType",
}


def is_primitive(engine, r):
    """numbers, booleans, strings, object, dates/times incl. time zones, categories without categories, and their
    nullable-extension / pyarrow variants (property text)."""
    from pandera import dtypes as D

    if type(r).__name__ in _NONPRIM_CLASSES:
        return False
    if isinstance(r, D.Category):
        return getattr(r, "categories", None) is None and not getattr(r, "ordered", False)
    if isinstance(r, D.Decimal):
        return False
    if isinstance(r, (D.Bool, D.Int, D.Float, D.Complex, D.String, D.Date, D.Timedelta)):
        return True
    t = S.native_tag(engine, _native(r))
    return bool(t) and t["kind"] in ("bool", "int", "uint", "float", "complex", "str", "object", "datetime", "date",
                                      "timedelta", "time")


def result_tag(engine, r):
    """Native tag of the boxed dtype; semantic types that pandas/polars can only store as object/str (Date, Decimal,
    polars Category) take their kind from the abstract pandera class they inherit."""
    tr = S.native_tag(engine, _native(r))
    if tr is not None and tr["kind"] in ("object", "str"):
        ta = S._abstract_tag(type(r))
        if ta is not None and ta["kind"] not in ("object", "str"):
            return dict(tr, kind=ta["kind"], variant=None, semantic=True)
    return tr


def _clsname(r):
    return f"{type(r).__module__.rsplit('.', 1)[-1]}.{type(r).__name__}"


# --------------------------------------------------------- single-spelling oracle


def eval_key(ev, engine, desc, must=False, src="", prefix=""):
    """Append discrepancies for one spelling; returns the resolved object or None."""
    try:
        obj = S.build(desc)
    except Exception as e:
        if "pandera." in canon(desc):
            ev.add(f"pandera-constructor-raised:{engine}", {"key": desc, "exc": type(e).__name__, "msg": str(e)[:160]})
            return None
        raise HarnessError(f"cannot build {desc!r}: {e!r}")
    form = S.keyform(obj)
    ev.labels += [f"{prefix}engine={engine}", f"{prefix}form={form}"]
    res = resolve(engine, obj)
    if res["st"] == "leak":
        ev.add(f"resolve-leaks:{engine}:{res['exc']}@{res['site']}", {"key": desc, "exc": res["exc"], "bases": res["bases"],
                                                                        "msg": res["msg"]})
        return None
    if res["st"] == "rejected":
        ev.labels.append(f"{prefix}rejected")
        if must:
            ev.add(f"spelling-rejected:{engine}:{form}", {"key": desc, "src": src, "msg": res["msg"]})
        return None
    r = res["r"]
    if not _is_datatype(r):
        ev.add(f"resolved-not-a-datatype:{engine}", {"key": desc, "got": repr(r)[:100]})
        return None
    cls = _clsname(r)
    ev.labels.append(f"{prefix}resolved")
    if type(r).__name__ == "DataType":
        ev.labels.append("generic-fallback-datatype")
    if obj is not r:
        ev.nontrivial = True

    # hashable, reflexive
    h = _hash(r)
    if h is None:
        ev.add(f"unhashable:{engine}", {"key": desc, "cls": cls})
    if _eq(r, r) is not True:
        ev.add(f"not-equal-to-itself:{engine}", {"key": desc, "cls": cls})

    # idempotence
    res2 = resolve(engine, r)
    if res2["st"] != "ok":
        ev.add(f"not-idempotent:{engine}", {"key": desc, "cls": cls, "second": {k: v for k, v in res2.items() if k != "r"}})
    else:
        r2 = res2["r"]
        if _eq(r2, r) is not True or _eq(r, r2) is not True or type(r2) is not type(r) or _hash(r2) != h:
            ev.add(f"not-idempotent:{engine}", {"key": desc, "first": f"{cls}({r})", "second": f"{_clsname(r2)}({r2})"})

    # determinism: the same spelling, rebuilt, resolves to an equal object
    res3 = resolve(engine, S.build(desc))
    if res3["st"] != "ok" or _eq(res3["r"], r) is not True or _hash(res3["r"]) != h:
        ev.add(f"unstable-resolution:{engine}", {"key": desc, "first": f"{cls}({r})",
                                                  "second": str(res3.get("r", res3.get("msg")))[:100]})

    # what the spelling denotes vs. what is boxed
    nat = _native(r)
    tr = result_tag(engine, r)
    tk = S.key_tag(engine, obj)
    bad = S.compat(tk, tr)
    if engine == "numpy" and "equivalents" not in src and tr and tr["kind"] == "object" and form != "str":
        # numpy's own convention np.dtype(<any class>) == object; not a registered spelling: no claim
        ev.labels.append("numpy-class-as-object")
        bad = None
    if bad is None:
        ev.labels.append(f"{prefix}tag-unscored")
    else:
        ev.labels.append(f"{prefix}tag-scored")
        if bad:
            ev.add(f"wrong-target:{engine}:{form}", {"key": desc, "fields": bad, "key_denotes": tk,
                                                      "resolved": f"{cls}({r})", "boxed": tr})
    if tr:
        ev.labels.append(f"{prefix}kind={tr['kind']}")

    # a native dtype instance is boxed unchanged
    if ((engine == "pandas" and form in ("np-dtype", "pd-instance", "pd-arrowdtype", "pyarrow-instance"))
            or (engine == "polars" and form == "polars-instance") or (engine == "numpy" and form == "np-dtype")):
        # (numpy's flexible types: the item size of a str / bytes dtype is a property of the data, not of the type)
        skip = form == "np-dtype" and tk is not None and tk["kind"] in ("datetime", "timedelta", "str", "bytes")
        if not skip and not bad:
            same = _native_eq(engine, obj, nat)
            if same is not True:
                ev.add(f"native-not-preserved:{engine}:{form}", {"key": desc, "resolved": f"{cls}({r})",
                                                                  "boxed": repr(nat)[:120]})

    # a resolved type recognises itself
    try:
        c = r.check(r)
        ok = _truthy(c)
        if ok is not True:
            ev.add(f"self-check-false:{engine}", {"key": desc, "cls": cls, "check": repr(c)[:80]})
    except Exception as e:
        ev.add(f"self-check-raised:{engine}", {"key": desc, "cls": cls, "exc": type(e).__name__, "msg": str(e)[:160]})

    # print -> resolve
    try:
        s = str(r)
    except Exception as e:
        ev.add(f"str-raised:{engine}", {"key": desc, "cls": cls, "exc": type(e).__name__})
        return r
    if not isinstance(s, str):
        ev.add(f"str-not-a-string:{engine}", {"key": desc, "cls": cls})
        return r
    prim = is_primitive(engine, r)
    ev.labels.append(f"{prefix}{'primitive' if prim else 'nonprimitive'}")
    if engine in PRINT_ENGINES:
        back = resolve(engine, s)
        if back["st"] == "leak":
            ev.add(f"resolve-leaks:{engine}:{back['exc']}@{back['site']}",
                   {"key": {"s": s}, "printed_from": desc, "exc": back["exc"], "bases": back["bases"], "msg": back["msg"]})
        rt_ok = back["st"] == "ok" and _eq(back["r"], r) is True and _eq(r, back["r"]) is True and _hash(back["r"]) == h
        if prim:
            if back["st"] == "rejected":
                ev.add(f"print-roundtrip-rejected:{engine}", {"key": desc, "cls": cls, "printed": s, "msg": back["msg"]})
            elif back["st"] == "ok" and not rt_ok:
                ev.add(f"print-roundtrip-differs:{engine}", {"key": desc, "cls": cls, "printed": s,
                                                            "back": f"{_clsname(back['r'])}({back['r']})"})
        else:
            ev.labels.append(f"nonprimitive-roundtrip-{'ok' if rt_ok else 'fails'}")
    return r


def eval_registry(case):
    ev = Eval()
    engine = case["engine"]
    desc = case["key"]
    if "undescribable" in desc:
        ev.skipped = "undescribable-registry-key"
        return ev
    ev.labels.append("src=" + case.get("src", "?"))
    r = eval_key(ev, engine, desc, must=case.get("must", False), src=case.get("src", ""))
    if r is None:
        return ev
    # abstract class <-> default instance
    obj = S.build(desc)
    if S.keyform(obj) == "abstract-class" and r is not None and "equivalents" in case.get("src", ""):
        try:
            inst = obj()
        except Exception:
            inst = None
        if inst is not None:
            ri = resolve(engine, inst)
            ev.labels.append("abstract-class-vs-instance")
            if ri["st"] == "rejected":
                ev.add(f"abstract-instance-rejected:{engine}", {"cls": desc, "msg": ri["msg"]})
            elif ri["st"] == "leak":
                ev.add(f"resolve-leaks:{engine}:{ri['exc']}@{ri['site']}", {"key": desc, "instance": True, "msg": ri["msg"]})
            elif _eq(ri["r"], r) is not True or _hash(ri["r"]) != _hash(r):
                ev.add(f"abstract-instance-differs:{engine}", {"cls": desc, "class_resolves": f"{_clsname(r)}({r})",
                                                               "instance_resolves": f"{_clsname(ri['r'])}({ri['r']})"})
    return ev


# ------------------------------------------------------------------- pair oracle

_CACHE = {}


_CANON = {}


def _canon(desc):
    """canon(desc), memoised on object identity for the descriptors owned by spellings() (they live as long as the
    process, so ids are not reused)."""
    hit = _CANON.get(id(desc))
    if hit is not None and hit[0] is desc:
        return hit[1]
    return canon(desc)


def _resolved(engine, desc):
    k = engine + _canon(desc)
    if k not in _CACHE:
        try:
            obj = S.build(desc)
        except Exception as e:
            if "pandera." in canon(desc):  # reported by eval_key as pandera-constructor-raised
                _CACHE[k] = (None, None, None)
                return _CACHE[k]
            raise HarnessError(f"cannot build {desc!r}: {e!r}")
        res = resolve(engine, obj)
        r = res["r"] if res["st"] == "ok" and _is_datatype(res["r"]) else None
        tk = S.key_tag(engine, obj)
        tr = result_tag(engine, r) if r is not None else None
        _CACHE[k] = (r, tk, tr)
    return _CACHE[k]


_FULL_TAG_KINDS = ("bool", "int", "uint", "float", "complex", "datetime", "date", "timedelta", "time", "str", "object",
                   "null")


def eval_pair_into(ev, engine, da, db):
    r1, tk1, tr1 = _resolved(engine, da)
    r2, tk2, tr2 = _resolved(engine, db)
    if r1 is None or r2 is None:
        ev.labels.append("pair-unresolved")
        return
    same_cls = type(r1) is type(r2)
    ev.labels.append("pair-same-class" if same_cls else "pair-diff-class")
    if not same_cls:
        ev.nontrivial = True
    e12, e21 = _eq(r1, r2), _eq(r2, r1)
    d = {"a": da, "b": db, "ra": f"{_clsname(r1)}({r1})", "rb": f"{_clsname(r2)}({r2})"}
    if e12 is None or e21 is None:
        ev.add(f"eq-raised:{engine}", d)
        return
    ev.labels.append("pair-equal" if e12 else "pair-unequal")
    if e12 != e21:
        ev.add(f"eq-asymmetric:{engine}", dict(d, a_eq_b=e12, b_eq_a=e21))
    if e12 and e21:
        if _hash(r1) != _hash(r2):
            n1, n2 = _native(r1), _native(r2)
            if _native_eq(engine, n1, n2) and _hash(n1) != _hash(n2):
                ev.labels.append("native-eq-hash-inconsistent")  # e.g. polars: pl.List == pl.List(pl.Int64), hashes differ
            else:
                ev.add(f"equal-but-hash-differs:{engine}", d)
        ne = _native_eq(engine, _native(r1), _native(r2))
        if ne is False:
            ev.add(f"equal-but-native-differs:{engine}", dict(d, na=repr(_native(r1))[:80], nb=repr(_native(r2))[:80]))
    # spellings that natively denote exactly the same type resolve equal
    if (tk1 and tk2 and tk1 == tk2 and tk1["variant"] is not None and tk1["kind"] in _FULL_TAG_KINDS
            and not (tk1["kind"] == "str" and tk1["variant"] == "arrow")):
        ev.labels.append("pair-same-native-tag")
        if not (e12 and e21):
            ev.add(f"equivalent-spellings-differ:{engine}", dict(d, tag=tk1))
    # dtype check never crosses kind / signedness / width
    try:
        c = r1.check(r2)
        t = _truthy(c)
    except Exception as e:
        if e12 and e21:
            ev.add(f"check-raised-on-equal-types:{engine}", dict(d, exc=type(e).__name__, msg=str(e)[:160]))
        else:
            # the property only says what check may *recognise*; a raising cross-kind check is reported as a class
            ev.labels.append(f"check-raises-cross-type:{type(e).__name__}")
        return
    if t is None:
        ev.add(f"check-not-boolean:{engine}", dict(d, got=repr(c)[:80]))
        return
    ev.labels.append("check-true" if t else "check-false")
    p1 = None if tr1 is None or tr1.get("semantic") else S.phys(tr1)
    if p1 is not None:
        ev.labels.append("check-physical-scored")
        if t:
            p2 = None if tr2 is None or tr2.get("semantic") else S.phys(tr2)
            if p2 != p1:
                ev.add(f"check-accepts-other-kind:{engine}", dict(d, a_is=p1, b_is=p2 or (tr2 or {}).get("kind")))


def eval_pairs(case):
    ev = Eval()
    ev.labels.append("engine=" + case["engine"])
    eval_pair_into(ev, case["engine"], case["a"], case["b"])
    return ev


# ------------------------------------------------------------------ enumeration

_SIMPLE_PA = ["bool_", "int8", "int16", "int32", "int64", "uint8", "uint16", "uint32", "uint64", "float16", "float32",
              "float64", "string", "large_string", "binary", "large_binary", "null", "date32", "date64"]


def _pa(name, *args):
    d = {"call": "pyarrow:" + name}
    if args:
        d["args"] = list(args)
    return d


def _arrow(inner):
    return {"call": "pandas:ArrowDtype", "args": [inner]}


def documented_extras(engine):
    """(descriptor, must_resolve) of spellings the docs / docstrings name explicitly, and of one example instance per
    parametrised dispatch source type."""
    out = []
    if engine == "pandas":
        for s in ["int", "int8", "int16", "int32", "int64", "uint8", "uint16", "uint32", "uint64", "float", "float16",
                  "float32", "float64", "complex64", "complex128", "bool", "str", "object", "datetime64[ns]",
                  "timedelta64[ns]", "category", "string", "Int8", "Int16", "Int32", "Int64", "UInt8", "UInt16",
                  "UInt32", "UInt64", "Float32", "Float64", "boolean", "string[python]", "string[pyarrow]",
                  "float64[pyarrow]", "datetime64[ns, UTC]", "datetime64[ns, Europe/Berlin]", "period[D]",
                  "interval[int64, right]", "Sparse[float64, nan]"]:
            out.append(({"s": s}, True))
        for n in ["int_", "intc", "uintc", "longlong", "ulonglong", "half", "single", "double", "bool_", "bytes_", "str_",
                  "object_", "datetime64", "timedelta64", "csingle", "cdouble"]:
            out.append(({"attr": "numpy:" + n}, True))
        for s in ["int64", "int32", "float64", "bool", "object", "datetime64[ns]", "timedelta64[ns]", "uint8",
                  "complex128", "float16"]:
            out.append(({"call": "numpy:dtype", "args": [s]}, True))
        # docs/source/dtype_validation.md "Pyarrow data types": pyarrow-native instance, alias, ArrowDtype
        for n in _SIMPLE_PA:
            out.append((_pa(n), True))
            out.append((_arrow(_pa(n)), True))
        for inner in [_pa("timestamp", "ns"), _pa("timestamp", "us", "UTC"), _pa("duration", "ns"), _pa("duration", "s"),
                      _pa("time32", "ms"), _pa("time32", "s"), _pa("time64", "ns"), _pa("time64", "us"),
                      _pa("decimal128", 10, 2), _pa("binary", 4), _pa("list_", _pa("int64")),
                      _pa("list_", _pa("string"), 3), _pa("struct", {"map": {"a": _pa("int64")}}),
                      _pa("map_", _pa("string"), _pa("int64")), _pa("dictionary", _pa("int32"), _pa("string"), False)]:
            out.append((inner, True))
            out.append((_arrow(inner), True))
        out += [
            ({"call": "pandas:DatetimeTZDtype", "args": ["ns", "UTC"]}, True),
            ({"call": "pandas:DatetimeTZDtype", "args": ["ns", "Europe/Berlin"]}, True),
            ({"call": "pandas:DatetimeTZDtype", "args": ["s", "UTC"]}, True),
            ({"call": "pandas:CategoricalDtype"}, True),
            ({"call": "pandas:CategoricalDtype", "args": [["a", "b"]]}, True),
            ({"call": "pandas:CategoricalDtype", "args": [["a", "b"], True]}, True),
            ({"call": "pandas:StringDtype"}, True),
            ({"call": "pandas:StringDtype", "args": ["pyarrow"]}, True),
            ({"call": "pandas:PeriodDtype", "args": ["D"]}, True),
            ({"call": "pandas:IntervalDtype", "args": ["int64"]}, True),
            ({"call": "pandas:SparseDtype", "args": ["float64"]}, True),
            ({"call": "pandas:SparseDtype", "args": ["int64", 0]}, True),
            ({"call": "pandera.dtypes:Category", "args": [["a", "b"]]}, True),
            ({"call": "pandera.engines.pandas_engine:DateTime", "kw": {"tz": "UTC"}}, True),
            ({"call": "pandera.engines.pandas_engine:DateTime", "kw": {"tz": "Europe/Berlin", "unit": "ms"}}, True),
            ({"call": "pandera.engines.pandas_engine:Category", "args": [["a", "b"]]}, True),
            ({"call": "pandera.engines.pandas_engine:STRING", "args": ["pyarrow"]}, True),
            ({"call": "pandera.engines.pandas_engine:Decimal", "args": [10, 2]}, True),
            ({"call": "pandera.engines.pandas_engine:ArrowTimestamp", "kw": {"unit": "us", "tz": "UTC"}}, True),
            # pyarrow types pandera has no class for: must be rejected or boxed unchanged, never turned into something else
            (_arrow(_pa("large_list", _pa("int64"))), False),
            (_arrow(_pa("decimal256", 40, 2)), False),
            (_arrow(_pa("month_day_nano_interval")), False),
        ]
    elif engine == "numpy":
        for s in ["int8", "int16", "int32", "int64", "uint8", "uint16", "uint32", "uint64", "float16", "float32",
                  "float64", "complex64", "complex128", "bool", "int", "float", "complex", "datetime64", "timedelta64",
                  "datetime64[ns]", "timedelta64[ns]", "<i8", ">f4", "i4", "u2", "f8", "?"]:
            out.append(({"s": s}, True))
        for n in ["int_", "intc", "uintc", "longlong", "ulonglong", "half", "single", "double", "csingle", "cdouble",
                  "str_", "bytes_", "object_"]:
            out.append(({"attr": "numpy:" + n}, True))
        for s in ["int64", "int32", "float64", "float32", "bool", "object", "uint8", "complex128", "timedelta64[ns]",
                  "datetime64[ns]", "U10", "<U3", "S5", "U", "S"]:
            out.append(({"call": "numpy:dtype", "args": [s]}, True))
        # flexible (sized) numpy types: what np.array(["abc"]).dtype / np.array([b"ab"]).dtype are
        for s in ["U10", "<U3", "S5", "U", "S", "str", "bytes", "object", "O"]:
            out.append(({"s": s}, True))
    elif engine == "polars":
        for n in ["Int8", "Int16", "Int32", "Int64", "UInt8", "UInt16", "UInt32", "UInt64", "Float32", "Float64",
                  "Boolean", "String", "Utf8", "Binary", "Date", "Datetime", "Duration", "Time", "Decimal", "Categorical",
                  "Null", "Object", "List", "Array", "Struct", "Enum"]:
            out.append(({"attr": "polars:" + n}, True))
        out += [
            ({"call": "polars:Datetime", "args": ["us"]}, True),
            ({"call": "polars:Datetime", "args": ["ns", "UTC"]}, True),
            ({"call": "polars:Datetime", "args": ["ms", "Europe/Berlin"]}, True),
            ({"call": "polars:Duration", "args": ["ns"]}, True),
            ({"call": "polars:Duration", "args": ["ms"]}, True),
            ({"call": "polars:Decimal", "args": [10, 2]}, True),
            ({"call": "polars:List", "args": [{"attr": "polars:Int64"}]}, True),
            ({"call": "polars:Array", "args": [{"attr": "polars:Int64"}, 2]}, True),
            ({"call": "polars:Struct", "args": [{"map": {"a": {"attr": "polars:Int64"}}}]}, True),
            ({"call": "polars:Enum", "args": [["a", "b"]]}, True),
            ({"call": "polars:Categorical"}, True),
            ({"call": "pandera.dtypes:Category", "args": [["a", "b"]]}, True),
            ({"call": "pandera.engines.polars_engine:DateTime", "kw": {"time_zone": "UTC", "time_unit": "ns"}}, True),
            # time-zone agnostic datetimes: recognise any datetime of that unit, nothing that is not a datetime
            ({"call": "pandera.engines.polars_engine:DateTime", "kw": {"time_zone_agnostic": True, "time_unit": "us"}}, True),
            ({"call": "pandera.engines.polars_engine:DateTime", "kw": {"time_zone_agnostic": True, "time_unit": "ns"}}, True),
            ({"call": "pandera.engines.polars_engine:DateTime", "kw": {"time_zone_agnostic": True, "time_unit": "ms"}}, True),
        ]
    elif engine == "pyspark":
        for n in ["BooleanType", "StringType", "IntegerType", "LongType", "ShortType", "ByteType", "FloatType",
                  "DoubleType", "DateType", "TimestampType", "BinaryType", "DecimalType"]:
            out.append(({"call": "pyspark.sql.types:" + n}, True))
        out += [
            ({"call": "pyspark.sql.types:DecimalType", "args": [12, 3]}, True),
            ({"call": "pyspark.sql.types:ArrayType", "args": [{"call": "pyspark.sql.types:IntegerType"}]}, True),
            ({"call": "pyspark.sql.types:MapType",
              "args": [{"call": "pyspark.sql.types:StringType"}, {"call": "pyspark.sql.types:LongType"}]}, True),
        ]
    return out


def _abstract_classes():
    import inspect

    from pandera import dtypes as D

    out = []
    for name, obj in sorted(vars(D).items()):
        if inspect.isclass(obj) and issubclass(obj, D.DataType) and obj.__module__ == "pandera.dtypes":
            if getattr(D, obj.__name__, None) is obj and not obj.__name__.startswith("_") and obj is not D.DataType:
                out.append(obj)
    return out


_SPELLINGS = {}


def spellings(engine):
    """Deterministic list of {"key","src","must"} for one engine, built from the live registry."""
    if engine in _SPELLINGS:
        return _SPELLINGS[engine]
    import inspect

    from pandera.engines import engine as base

    E = engines()[engine]
    reg = base.Engine._registry[E]
    items = {}

    def add(obj_or_desc, src, must, is_desc=False):
        desc = obj_or_desc if is_desc else S.describe(obj_or_desc)
        if desc is None:
            desc = {"undescribable": repr(obj_or_desc)[:120]}
        k = canon(desc)
        if k in items:
            items[k]["must"] = items[k]["must"] or must
            if src not in items[k]["src"].split("+"):
                items[k]["src"] += "+" + src
        else:
            items[k] = {"engine": engine, "key": desc, "src": src, "must": must}

    for key in list(reg.equivalents.keys()):
        add(key, "equivalents", True)
    for cls in sorted(E.get_registered_dtypes(), key=lambda c: (c.__module__, c.__qualname__)):
        add(cls, "registered", False)
        try:
            inst = cls()
        except Exception:
            inst = None
        if inst is not None:
            add(inst, "registered", True)
    for cls in _abstract_classes():
        add(cls, "abstract", False)
        try:
            inst = cls()
        except Exception:
            inst = None
        if inst is not None:
            add(inst, "abstract", False)
    for src_t in reg.dispatch.registry.keys():
        if src_t is not object:
            add(src_t, "dispatch", False)
    for desc, must in documented_extras(engine):
        add(desc, "documented", must, is_desc=True)
    out = [items[k] for k in sorted(items)]
    for k in items:
        _CANON[id(items[k]["key"])] = (items[k]["key"], k)
    _SPELLINGS[engine] = out
    return out


def enum_registry(tier):
    for e in ENGINES:
        yield from spellings(e)


def enum_pairs(tier):
    for e in ENGINES:
        ks = [s["key"] for s in spellings(e) if "undescribable" not in s["key"]]
        for a in ks:
            for b in ks:
                yield {"engine": e, "a": a, "b": b}


# --------------------------------------------------------------- params family

TZS = ["UTC", "Europe/Berlin", "America/New_York", "Asia/Kolkata", "Etc/GMT-2"]
UNITS4 = ["s", "ms", "us", "ns"]


def _pe(name, *args, **kw):
    d = {"call": "pandera.engines.pandas_engine:" + name}
    if name.startswith("Arrow"):
        # the Arrow classes exist twice (pandas_engine / pyarrow_engine, known finding): most of the budget uses the
        # registered (pyarrow_engine) copies so that the search continues behind the duplicate-class defect
        d = {"call": "pandera.engines.pyarrow_engine:" + name}
    if args:
        d["args"] = list(args)
    if kw:
        d["kw"] = kw
    return d


def _ple(name, *args, **kw):
    d = {"call": "pandera.engines.polars_engine:" + name}
    if args:
        d["args"] = list(args)
    if kw:
        d["kw"] = kw
    return d


def _pl(name, *args):
    d = {"call": "polars:" + name}
    if args:
        d["args"] = list(args)
    return d


def _sp(name, *args):
    d = {"call": "pyspark.sql.types:" + name}
    if args:
        d["args"] = list(args)
    return d


_PA_ELEMS = ["int8", "int32", "int64", "uint16", "float32", "float64", "string", "bool_", "date32"]
_PL_ELEMS = ["Int8", "Int32", "Int64", "UInt16", "Float32", "Float64", "String", "Boolean", "Date"]
_SP_ELEMS = ["IntegerType", "LongType", "StringType", "DoubleType", "BooleanType", "DateType"]


def _forms(engine, fam, p):
    """All spellings of one parameterisation p (dict) of family fam."""
    if engine == "pandas":
        if fam == "dttz":
            u, tz = p["unit"], p["tz"]
            return [{"call": "pandas:DatetimeTZDtype", "args": [u, tz]}, {"s": f"datetime64[{u}, {tz}]"},
                    _pe("DateTime", unit=u, tz=tz)]
        if fam == "arrow_ts":
            u, tz = p["unit"], p["tz"]
            s = f"timestamp[{u}][pyarrow]" if tz is None else f"timestamp[{u}, tz={tz}][pyarrow]"
            return [_arrow(_pa("timestamp", u, tz)), _pa("timestamp", u, tz), _pe("ArrowTimestamp", unit=u, tz=tz), {"s": s},
                    {"call": "pandera.engines.pandas_engine:ArrowTimestamp", "kw": {"unit": u, "tz": tz}}]
        if fam == "arrow_dur":
            u = p["unit"]
            return [_arrow(_pa("duration", u)), _pa("duration", u), _pe("ArrowDuration", unit=u), {"s": f"duration[{u}][pyarrow]"}]
        if fam == "arrow_time":
            u = p["unit"]
            n = "time32" if u in ("s", "ms") else "time64"
            return [_arrow(_pa(n, u)), _pa(n, u), _pe("ArrowTime32" if n == "time32" else "ArrowTime64", unit=u),
                    {"s": f"{n}[{u}][pyarrow]"}]
        if fam == "arrow_dec":
            return [_arrow(_pa("decimal128", p["p"], p["s"])), _pa("decimal128", p["p"], p["s"]),
                    _pe("ArrowDecimal128", precision=p["p"], scale=p["s"])]
        if fam == "arrow_bin":
            return [_arrow(_pa("binary", p["n"])), _pa("binary", p["n"]), _pe("ArrowBinary", length=p["n"])]
        if fam == "arrow_list":
            inner = _pa(p["elem"])
            args = [inner] if p["n"] is None else [inner, p["n"]]
            return [_arrow(_pa("list_", *args)), _pa("list_", *args)]
        if fam == "arrow_struct":
            m = {"map": {k: _pa(v) for k, v in p["fields"].items()}}
            return [_arrow(_pa("struct", m)), _pa("struct", m)]
        if fam == "arrow_map":
            return [_arrow(_pa("map_", _pa(p["k"]), _pa(p["v"]))), _pa("map_", _pa(p["k"]), _pa(p["v"]))]
        if fam == "arrow_dict":
            a = [_pa(p["i"]), _pa(p["v"]), p["ordered"]]
            return [_arrow(_pa("dictionary", *a)), _pa("dictionary", *a)]
        if fam == "arrow_simple":
            return [_arrow(_pa(p["t"])), _pa(p["t"]), {"attr": "pyarrow:" + p["t"]}]
        if fam == "cat":
            return [{"call": "pandas:CategoricalDtype", "args": [p["cats"], p["ordered"]]},
                    _pe("Category", p["cats"], p["ordered"]),
                    {"call": "pandera.dtypes:Category", "args": [p["cats"], p["ordered"]]}]
        if fam == "dec":
            return [_pe("Decimal", p["p"], p["s"]), {"call": "pandera.dtypes:Decimal", "args": [p["p"], p["s"]]}]
        if fam == "string":
            return [{"call": "pandas:StringDtype", "args": [p["storage"]]}, _pe("STRING", p["storage"]),
                    {"s": f"string[{p['storage']}]"}]
        if fam == "period":
            return [{"call": "pandas:PeriodDtype", "args": [p["freq"]]}, {"s": f"period[{p['freq']}]"}]
        if fam == "interval":
            return [{"call": "pandas:IntervalDtype", "args": [p["sub"]]}, {"s": f"interval[{p['sub']}]"}]
        if fam == "sparse":
            return [{"call": "pandas:SparseDtype", "args": [p["sub"]]}, {"s": f"Sparse[{p['sub']}]"}]
        if fam == "npdt":
            s = f"{p['k']}[{p['unit']}]"
            return [{"s": s}, {"call": "numpy:dtype", "args": [s]}]
        if fam == "npnum":
            return [{"s": p["s"]}, {"call": "numpy:dtype", "args": [p["s"]]}]
    if engine == "numpy":
        if fam == "npdt":
            s = f"{p['k']}[{p['unit']}]"
            return [{"s": s}, {"call": "numpy:dtype", "args": [s]}]
        if fam == "npnum":
            return [{"s": p["s"]}, {"call": "numpy:dtype", "args": [p["s"]]}]
    if engine == "polars":
        if fam == "datetime":
            return [_pl("Datetime", p["unit"], p["tz"]), _ple("DateTime", time_zone=p["tz"], time_unit=p["unit"])]
        if fam == "duration":
            return [_pl("Duration", p["unit"]), _ple("Timedelta", time_unit=p["unit"])]
        if fam == "decimal":
            return [_pl("Decimal", p["p"], p["s"]), _ple("Decimal", p["p"], p["s"]),
                    {"call": "pandera.dtypes:Decimal", "args": [p["p"], p["s"]]}]
        if fam == "enum":
            return [_pl("Enum", p["cats"]), _ple("Enum", p["cats"])]
        if fam == "list":
            return [_pl("List", {"attr": "polars:" + p["elem"]}), _ple("List", {"attr": "polars:" + p["elem"]})]
        if fam == "array":
            return [_pl("Array", {"attr": "polars:" + p["elem"]}, p["n"]), _ple("Array", {"attr": "polars:" + p["elem"]}, p["n"])]
        if fam == "struct":
            m = {"map": {k: {"attr": "polars:" + v} for k, v in p["fields"].items()}}
            return [_pl("Struct", m), _ple("Struct", m)]
        if fam == "category":
            return [_ple("Category", p["cats"]), {"call": "pandera.dtypes:Category", "args": [p["cats"]]}]
    if engine == "pyspark":
        if fam == "decimal":
            return [_sp("DecimalType", p["p"], p["s"]), {"call": "pandera.engines.pyspark_engine:Decimal", "args": [p["p"], p["s"]]}]
        if fam == "array":
            return [_sp("ArrayType", _sp(p["elem"]), p["null"]),
                    {"call": "pandera.engines.pyspark_engine:ArrayType", "args": [_sp(p["elem"]), p["null"]]}]
        if fam == "map":
            return [_sp("MapType", _sp(p["k"]), _sp(p["v"]), p["null"]),
                    {"call": "pandera.engines.pyspark_engine:MapType", "args": [_sp(p["k"]), _sp(p["v"]), p["null"]]}]
    raise HarnessError(f"no forms for {engine}/{fam}")


def _param_strategy(engine, fam):
    cats = st.one_of(st.lists(st.sampled_from(["a", "b", "c", "d", "x y", ""]), unique=True, max_size=4),
                     st.lists(st.integers(-2, 5), unique=True, max_size=4))
    prec = st.integers(1, 38).flatmap(lambda p: st.tuples(st.just(p), st.integers(0, p)))
    fields = st.dictionaries(st.sampled_from(["a", "b", "c"]), st.sampled_from(_PA_ELEMS if engine == "pandas" else _PL_ELEMS),
                             min_size=1, max_size=3)
    table = {
        ("pandas", "dttz"): st.fixed_dictionaries({"unit": st.sampled_from(UNITS4), "tz": st.sampled_from(TZS)}),
        ("pandas", "arrow_ts"): st.fixed_dictionaries({"unit": st.sampled_from(UNITS4), "tz": st.sampled_from([None] + TZS)}),
        ("pandas", "arrow_dur"): st.fixed_dictionaries({"unit": st.sampled_from(UNITS4)}),
        ("pandas", "arrow_time"): st.fixed_dictionaries({"unit": st.sampled_from(UNITS4)}),
        # pyarrow itself allows a negative scale and a scale above the precision: legitimate native types (round 8)
        ("pandas", "arrow_dec"): st.one_of(prec, st.tuples(st.integers(1, 38), st.integers(-6, 44))).map(lambda t: {"p": t[0], "s": t[1]}),
        ("pandas", "arrow_bin"): st.fixed_dictionaries({"n": st.integers(1, 16)}),
        ("pandas", "arrow_list"): st.fixed_dictionaries({"elem": st.sampled_from(_PA_ELEMS), "n": st.one_of(st.none(), st.integers(1, 4))}),
        ("pandas", "arrow_struct"): st.fixed_dictionaries({"fields": fields}),
        ("pandas", "arrow_map"): st.fixed_dictionaries({"k": st.sampled_from(["string", "int64", "int32"]), "v": st.sampled_from(_PA_ELEMS)}),
        ("pandas", "arrow_dict"): st.fixed_dictionaries({"i": st.sampled_from(["int8", "int32", "int64"]), "v": st.sampled_from(["string", "int64", "float64"]), "ordered": st.booleans()}),
        ("pandas", "arrow_simple"): st.fixed_dictionaries({"t": st.sampled_from(_SIMPLE_PA)}),
        # (categories=None with ordered=True is a parameterisation too: "an ordered categorical, whatever its categories")
        ("pandas", "cat"): st.fixed_dictionaries({"cats": st.one_of(cats, cats, cats, st.none()), "ordered": st.booleans()}),
        ("pandas", "dec"): prec.map(lambda t: {"p": t[0], "s": t[1]}),
        ("pandas", "string"): st.fixed_dictionaries({"storage": st.sampled_from(["python", "pyarrow"])}),
        ("pandas", "period"): st.fixed_dictionaries({"freq": st.sampled_from(["D", "M", "h", "Y", "W", "min"])}),
        ("pandas", "interval"): st.fixed_dictionaries({"sub": st.sampled_from(["int64", "float64", "datetime64[ns]", "timedelta64[ns]"])}),
        ("pandas", "sparse"): st.fixed_dictionaries({"sub": st.sampled_from(["int64", "float64", "bool", "float32"])}),
        ("pandas", "npdt"): st.fixed_dictionaries({"k": st.sampled_from(["datetime64", "timedelta64"]), "unit": st.sampled_from(UNITS4)}),
        ("pandas", "npnum"): st.fixed_dictionaries({"s": st.builds(lambda o, c: o + c, st.sampled_from(["", "<", ">", "=", "|"]),
                                                                    st.sampled_from(["i1", "i2", "i4", "i8", "u1", "u2", "u4", "u8", "f2", "f4", "f8", "c8", "c16", "b1"]))}),
        ("numpy", "npdt"): st.fixed_dictionaries({"k": st.sampled_from(["datetime64", "timedelta64"]), "unit": st.sampled_from(UNITS4 + ["D", "h", "m"])}),
        ("numpy", "npnum"): st.fixed_dictionaries({"s": st.builds(lambda o, c: o + c, st.sampled_from(["", "<", ">", "=", "|"]),
                                                                   st.sampled_from(["i1", "i2", "i4", "i8", "u1", "u2", "u4", "u8", "f2", "f4", "f8", "c8", "c16", "b1"]))}),
        ("polars", "datetime"): st.fixed_dictionaries({"unit": st.sampled_from(["ms", "us", "ns"]), "tz": st.sampled_from([None] + TZS[:4])}),
        ("polars", "duration"): st.fixed_dictionaries({"unit": st.sampled_from(["ms", "us", "ns"])}),
        ("polars", "decimal"): prec.map(lambda t: {"p": t[0], "s": t[1]}),
        ("polars", "enum"): st.fixed_dictionaries({"cats": st.lists(st.sampled_from(["a", "b", "c", "d", "x y"]), unique=True, max_size=4)}),
        ("polars", "list"): st.fixed_dictionaries({"elem": st.sampled_from(_PL_ELEMS)}),
        ("polars", "array"): st.fixed_dictionaries({"elem": st.sampled_from(_PL_ELEMS), "n": st.integers(1, 4)}),
        ("polars", "struct"): st.fixed_dictionaries({"fields": fields}),
        ("polars", "category"): st.fixed_dictionaries({"cats": st.lists(st.sampled_from(["a", "b", "c", "d"]), unique=True, max_size=4)}),
        ("pyspark", "decimal"): prec.map(lambda t: {"p": t[0], "s": t[1]}),
        ("pyspark", "array"): st.fixed_dictionaries({"elem": st.sampled_from(_SP_ELEMS), "null": st.booleans()}),
        ("pyspark", "map"): st.fixed_dictionaries({"k": st.sampled_from(["StringType", "IntegerType"]), "v": st.sampled_from(_SP_ELEMS), "null": st.booleans()}),
    }
    return table[(engine, fam)]


PARAM_FAMS = [("pandas", f) for f in ["dttz", "arrow_ts", "arrow_dur", "arrow_time", "arrow_dec", "arrow_bin", "arrow_list",
                                      "arrow_struct", "arrow_map", "arrow_dict", "arrow_simple", "cat", "dec", "string",
                                      "period", "interval", "sparse", "npdt", "npnum"]] + \
             [("numpy", f) for f in ["npdt", "npnum"]] + \
             [("polars", f) for f in ["datetime", "duration", "decimal", "enum", "list", "array", "struct", "category"]] + \
             [("pyspark", f) for f in ["decimal", "array", "map"]]


def strat_params():
    @st.composite
    def case(draw):
        engine, fam = draw(st.sampled_from(PARAM_FAMS))
        ps = _param_strategy(engine, fam)
        p1 = draw(ps)
        same = draw(st.integers(0, 2)) == 0
        p2 = p1 if same else draw(ps)
        return {"engine": engine, "fam": fam, "p1": p1, "p2": p2, "f1": draw(st.integers(0, 7)), "f2": draw(st.integers(0, 7))}

    return case()


def eval_params(case):
    ev = Eval()
    engine, fam = case["engine"], case["fam"]
    fa = _forms(engine, fam, case["p1"])
    fb = _forms(engine, fam, case["p2"])
    da, db = fa[case["f1"] % len(fa)], fb[case["f2"] % len(fb)]
    # field order of a struct is part of the type: compare the parameterisations with their key order
    same = json.dumps(case["p1"]) == json.dumps(case["p2"])
    ev.labels += [f"fam={engine}/{fam}", "params-same" if same else "params-differ"]
    ev.nontrivial = True
    # string forms are scored through the print round trip only; every other form is a constructor / native instance
    # that the engine documents as accepted
    if "pandera.engines.pandas_engine:Arrow" in canon(da) + canon(db):
        ev.labels.append("uses-duplicate-arrow-class")  # known-bad feature (duplicate classes); most cases avoid it
    eval_key(ev, engine, da, must="s" not in da, src="params")
    _CACHE.clear()
    eval_pair_into(ev, engine, da, db)
    if same:
        r1, _, _ = _resolved(engine, da)
        r2, _, _ = _resolved(engine, db)
        if r1 is not None and r2 is not None and not (_eq(r1, r2) and _eq(r2, r1) and _hash(r1) == _hash(r2)):
            ev.add(f"same-parameters-resolve-differently:{engine}:{fam}",
                   {"a": da, "b": db, "ra": f"{_clsname(r1)}({r1})", "rb": f"{_clsname(r2)}({r2})"})
    return ev


# -------------------------------------------------------------- strings family

_NP_CODES = ["i1", "i2", "i4", "i8", "u1", "u2", "u4", "u8", "f2", "f4", "f8", "f16", "c8", "c16", "c32", "b1", "?", "O",
             "U", "S", "V", "M8", "m8", "M8[ns]", "m8[ns]", "M8[s]", "U5", "S3", "V2", "2V", "3i4", "(2,)i4", "i4,f8",
             "a", "a5", "e", "d", "g", "q", "Q", "p", "P", "l", "L", "h", "H", "D", "F", "G", "T"]


def _alias_pool():
    pool = {}
    for e in ENGINES:
        al = set()
        for s in spellings(e):
            d = s["key"]
            if "s" in d:
                al.add(d["s"])
        # printed names of everything that resolves
        for s in spellings(e):
            if "undescribable" in s["key"]:
                continue
            r, _, _ = _resolved(e, s["key"])
            if r is not None:
                try:
                    al.add(str(r))
                except Exception:
                    pass
        pool[e] = sorted(al)
    return pool


def strat_strings():
    pool = _alias_pool()
    _CACHE.clear()

    def mutate(s, how, ch, pos):
        if how == 0:
            return s
        if how == 1:
            return s.upper()
        if how == 2:
            return s.lower()
        if how == 3:
            return s.capitalize()
        if how == 4:
            return " " + s
        if how == 5:
            return s + " "
        if how == 6 and s:
            p = pos % len(s)
            return s[:p] + s[p + 1:]
        if how == 7:
            p = pos % (len(s) + 1)
            return s[:p] + ch + s[p:]
        if how == 8 and s:
            p = pos % len(s)
            return s[:p] + ch + s[p + 1:]
        if how == 9:
            return s + "[pyarrow]"
        if how == 10:
            return s + "()"
        if how == 11:
            return s.replace("[", "(").replace("]", ")")
        if how == 12:
            return s.replace("64", "32").replace("ns", "us")
        return s

    chars = st.sampled_from(list("[](),=<>|? 0123456789abinsuUVMmOSptz_:-+/"))
    alias = st.sampled_from(ENGINES).flatmap(lambda e: st.sampled_from(pool[e]))
    units = st.sampled_from(["ns", "us", "ms", "s", "D", "h", "m", "Y", "M", "W", "ps", "generic", "", "10ns"])
    tzs = st.sampled_from(TZS + ["utc", "Z", "+02:00", "UTC+02:00", "Mars/Phobos", "", "tzutc()", "pytz.FixedOffset(60)"])
    grammar = st.one_of(
        st.sampled_from(_NP_CODES),
        st.builds(lambda o, c: o + c, st.sampled_from(["<", ">", "=", "|", ""]), st.sampled_from(_NP_CODES)),
        st.builds(lambda u: f"datetime64[{u}]", units),
        st.builds(lambda u: f"timedelta64[{u}]", units),
        st.builds(lambda u, z: f"datetime64[{u}, {z}]", units, tzs),
        st.builds(lambda u: f"timestamp[{u}][pyarrow]", units),
        st.builds(lambda u, z: f"timestamp[{u}, tz={z}][pyarrow]", units, tzs),
        st.builds(lambda u: f"duration[{u}][pyarrow]", units),
        st.builds(lambda n, u: f"{n}[{u}][pyarrow]", st.sampled_from(["time32", "time64", "date32", "date64"]), units),
        st.builds(lambda a: f"{a}[pyarrow]", st.sampled_from(["int64", "float64", "double", "float", "bool", "string", "utf8",
                                                               "large_string", "binary", "null", "decimal128(10, 2)",
                                                               "list<item: int64>", "struct<a: int64>", "uint8", "halffloat",
                                                               "float16", "date32", "time32[s]", "month_day_nano_interval",
                                                               "fixed_size_binary[4]", "decimal256(5, 2)", "int128"])),
        st.builds(lambda p, s: f"Decimal({p}, {s})", st.integers(-1, 40), st.integers(-1, 40)),
        st.builds(lambda p, s: f"DecimalType({p},{s})", st.integers(-1, 40), st.integers(-1, 40)),
        st.builds(lambda p, s: f"decimal({p},{s})", st.integers(-1, 40), st.integers(-1, 40)),
        st.builds(lambda f: f"period[{f}]", st.sampled_from(["D", "M", "h", "Y", "Q", "x", "", "2D"])),
        st.builds(lambda a, b: f"interval[{a}, {b}]", st.sampled_from(["int64", "float64", "datetime64[ns]", "str", "x"]),
                  st.sampled_from(["right", "left", "both", "neither", "x"])),
        st.builds(lambda a, b: f"Sparse[{a}, {b}]", st.sampled_from(["int64", "float64", "bool", "str", "x"]),
                  st.sampled_from(["nan", "0", "False", "x", "1.5"])),
        st.builds(lambda a: f"string[{a}]", st.sampled_from(["python", "pyarrow", "pyarrow_numpy", "x", ""])),
        st.builds(lambda a: f"ArrayType({a}(), True)", st.sampled_from(_SP_ELEMS)),
        st.builds(lambda a: f"{a}()", st.sampled_from(_SP_ELEMS + ["TimestampNTZType", "NullType", "VarcharType", "CharType", "DayTimeIntervalType"])),
    )
    base = st.one_of(alias, alias, grammar, st.text(alphabet=list("abdefgilnostuUIFS0123468[](), _"), max_size=12))
    text = st.builds(mutate, base, st.sampled_from([0, 0, 0, 0, 1, 2, 3, 4, 5, 6, 7, 8, 9, 10, 11, 12]), chars, st.integers(0, 40))
    return st.fixed_dictionaries({"engine": st.sampled_from(ENGINES), "s": text})


def eval_strings(case):
    ev = Eval()
    engine = case["engine"]
    desc = {"s": case["s"]}
    r = eval_key(ev, engine, desc, must=False, src="strings")
    ev.labels.append("string-resolves" if r is not None else "string-rejected")
    ev.nontrivial = r is not None or bool(ev.discs)
    return ev


# ---------------------------------------------------------------- fresh family

_FRESH = r"""
import json, sys, warnings
warnings.filterwarnings("ignore")
import pandas as pd, pyarrow as pa
from pandera.engines import pandas_engine as pe
E = pe.Engine
aliases = json.loads(sys.argv[1])
trigger = sys.argv[2]
def res(a):
    try:
        return E.dtype(a)
    except Exception as e:
        return "EXC:" + type(e).__name__
before = {a: res(a) for a in aliases}
if trigger == "arrowdtype-timestamp":
    res(pd.ArrowDtype(pa.timestamp("ns")))
elif trigger == "arrowdtype-list":
    res(pd.ArrowDtype(pa.list_(pa.int64())))
elif trigger == "import-pyarrow_engine":
    import pandera.engines.pyarrow_engine
elif trigger == "none":
    pass
after = {a: res(a) for a in aliases}
out = {}
for a in aliases:
    b, c = before[a], after[a]
    if isinstance(b, str) or isinstance(c, str):
        out[a] = {"before": str(b), "after": str(c), "equal": str(b) == str(c), "hash_equal": True}
    else:
        out[a] = {"before": type(b).__module__ + "." + type(b).__name__, "after": type(c).__module__ + "." + type(c).__name__,
                  "equal": bool(b == c) and bool(c == b), "hash_equal": hash(b) == hash(c),
                  "check": bool(b.check(c)) and bool(c.check(b))}
print("RESULT " + json.dumps(out))
"""

FRESH_ALIASES = ["int64[pyarrow]", "int8[pyarrow]", "uint32[pyarrow]", "double[pyarrow]", "float[pyarrow]", "bool[pyarrow]",
                 "string[pyarrow]", "date32[day][pyarrow]", "binary[pyarrow]", "null[pyarrow]", "large_string[pyarrow]",
                 "int64", "Int64", "category"]


def enum_fresh(tier):
    for trig in ["none", "arrowdtype-timestamp", "arrowdtype-list", "import-pyarrow_engine"]:
        yield {"trigger": trig, "aliases": FRESH_ALIASES}


def eval_fresh(case):
    ev = Eval()
    ev.labels.append("trigger=" + case["trigger"])
    ev.nontrivial = case["trigger"] != "none"
    p = subprocess.run([sys.executable, "-W", "ignore", "-c", _FRESH, json.dumps(case["aliases"]), case["trigger"]],
                       capture_output=True, text=True, timeout=300, env=dict(os.environ))
    line = next((l for l in p.stdout.splitlines() if l.startswith("RESULT ")), None)
    if line is None:
        raise HarnessError(f"fresh subprocess produced no result rc={p.returncode}: {p.stderr[-800:]}")
    out = json.loads(line[len("RESULT "):])
    bad = {a: v for a, v in out.items() if not (v["equal"] and v["hash_equal"])}
    if bad:
        ev.add("resolution-depends-on-history:pandas", {"trigger": case["trigger"], "aliases": sorted(bad),
                                                        "example": bad[sorted(bad)[0]]})
    return ev


# ---------------------------------------------------------------- ambient family

_AMBIENT = r"""
import decimal, json, sys, warnings
warnings.filterwarnings("ignore")
from harness.props import c09 as c9
from harness.props import _c09_spell as S
c9.setup()
engine, trigger = sys.argv[1], sys.argv[2]
E = c9.engines()[engine]
sp = [s for s in c9.spellings(engine) if "undescribable" not in s["key"]]
objs = []
keys = []
for s in sp:
    try:
        objs.append(S.build(s["key"]))
        keys.append(s["key"])
    except Exception:
        pass
def snap():
    out = []
    for o in objs:
        r = c9.resolve(engine, o)
        out.append(r["r"] if r["st"] == "ok" else "ST:" + r["st"])
    return out
def eq(a, b):
    try:
        return bool(a == b) and bool(b == a) and hash(a) == hash(b)
    except Exception:
        return None
before = snap()
again = snap()  # control: spellings whose resolution is not even equal to itself twice in a row (unhashable results,
# reported by the registry family) cannot witness a dependence on the trigger
stable = [isinstance(b, str) and isinstance(a, str) and b == a or
          (not isinstance(b, str) and not isinstance(a, str) and type(b) is type(a) and bool(eq(b, a)))
          for b, a in zip(before, again)]
note = None
try:
    if trigger.startswith("decimal-rounding:"):
        decimal.getcontext().rounding = getattr(decimal, trigger.split(":")[1])
    elif trigger.startswith("decimal-prec:"):
        decimal.getcontext().prec = int(trigger.split(":")[1])
    elif trigger.startswith("register-subclass:"):
        want = trigger.split(":")[1]
        n = 0
        for cls in sorted(E.get_registered_dtypes(), key=lambda c: (c.__module__, c.__qualname__)):
            if want not in ("*", cls.__name__):
                continue
            try:
                sub = type("UserSub" + cls.__name__, (cls,), {"__module__": "user_code", "__doc__": "user flavour"})
                E.register_dtype(sub)
                n += 1
            except Exception as e:  # classes that cannot be subclassed / registered: not this family's subject
                pass
        note = "registered=%d" % n
    elif trigger != "none":
        raise SystemExit("bad trigger " + trigger)
except SystemExit:
    raise
after = snap()
changed, lost, gained = [], [], []
for i, (b, a) in enumerate(zip(before, after)):
    if not stable[i]:
        continue
    if isinstance(b, str) or isinstance(a, str):
        if str(b) != str(a):
            changed.append({"key": keys[i], "before": str(b)[:80], "after": str(a)[:80]})
        continue
    if type(b) is not type(a) or not eq(b, a):
        changed.append({"key": keys[i], "before": type(b).__module__ + "." + type(b).__name__ + ":" + repr(b)[:60],
                        "after": type(a).__module__ + "." + type(a).__name__ + ":" + repr(a)[:60]})
ok = [i for i in range(len(objs)) if stable[i] and not isinstance(before[i], str) and not isinstance(after[i], str)]
npairs = 0
for i in ok:
    for j in ok:
        if i < j:
            npairs += 1
            eb, ea = eq(before[i], before[j]), eq(after[i], after[j])
            if eb and not ea and len(lost) < 5:
                lost.append({"a": keys[i], "b": keys[j]})
            if ea and not eb and eb is not None and len(gained) < 5:
                gained.append({"a": keys[i], "b": keys[j]})
print("RESULT " + json.dumps({"n": sum(stable), "unstable": len(objs) - sum(stable), "pairs": npairs, "changed": changed[:8], "n_changed": len(changed),
                              "lost": lost, "gained": gained, "note": note}, default=str))
"""


def enum_ambient(tier):
    trig = ["none", "decimal-rounding:ROUND_DOWN", "decimal-rounding:ROUND_CEILING", "decimal-prec:5",
            "register-subclass:*"]
    for e in ENGINES:
        for t in trig:
            yield {"engine": e, "trigger": t}
    if tier == "thorough":
        # one registration at a time (attributes a change to the class whose flavour was registered)
        for e in ENGINES:
            for cls in sorted(engines()[e].get_registered_dtypes(), key=lambda c: (c.__module__, c.__qualname__)):
                yield {"engine": e, "trigger": "register-subclass:" + cls.__name__}


def eval_ambient(case):
    """What a spelling resolves to does not depend on ambient interpreter state (the decimal context) nor on which
    user data types were registered meanwhile: same class, equal, equally hashed, and the same pairs equivalent."""
    ev = Eval()
    ev.labels += ["ambient:engine=" + case["engine"], "ambient:trigger=" + case["trigger"].split(":")[0]]
    ev.nontrivial = case["trigger"] != "none"
    p = subprocess.run([sys.executable, "-W", "ignore", "-c", _AMBIENT, case["engine"], case["trigger"]],
                       capture_output=True, text=True, timeout=600, env=dict(os.environ))
    line = next((l for l in p.stdout.splitlines() if l.startswith("RESULT ")), None)
    if line is None:
        raise HarnessError(f"ambient subprocess produced no result rc={p.returncode}: {p.stderr[-800:]}")
    out = json.loads(line[len("RESULT "):])
    ev.executions = max(1, out["n"])
    if out["n"] < 10:
        raise HarnessError(f"ambient: only {out['n']} spellings for {case['engine']}")
    if out["n_changed"]:
        ev.add("resolution-depends-on-ambient-state:" + case["engine"] + ":" + case["trigger"].split(":")[0],
               {"trigger": case["trigger"], "n_changed": out["n_changed"], "examples": out["changed"][:4], "note": out["note"]})
    if out["lost"] or out["gained"]:
        ev.add("equivalences-depend-on-ambient-state:" + case["engine"] + ":" + case["trigger"].split(":")[0],
               {"trigger": case["trigger"], "lost": out["lost"][:3], "gained": out["gained"][:3]})
    return ev


# -------------------------------------------------------------------- families

FAMILIES = [
    Family("registry", eval_registry, enumerate=enum_registry, shards_quick=2, shards_thorough=4, exhaustive=True,
           setup=setup, required_labels=["engine=numpy", "engine=pandas", "engine=polars", "engine=pyspark",
                                         "src=equivalents", "tag-scored", "primitive"]),
    Family("pairs", eval_pairs, enumerate=enum_pairs, shards_quick=8, shards_thorough=12, exhaustive=True, setup=setup,
           required_labels=["pair-diff-class", "pair-equal", "check-true", "check-physical-scored", "pair-same-native-tag"]),
    Family("params", eval_params, strategy=strat_params, n_quick=1400, n_thorough=15000, shards_quick=3, shards_thorough=8,
           setup=setup, required_labels=["params-same", "params-differ", "fam=pandas/dttz", "fam=polars/datetime",
                                         "fam=pyspark/decimal"]),
    Family("strings", eval_strings, strategy=strat_strings, n_quick=3000, n_thorough=30000, shards_quick=2,
           shards_thorough=8, setup=setup, required_labels=["string-resolves", "string-rejected"]),
    Family("fresh", eval_fresh, enumerate=enum_fresh, shards_quick=1, shards_thorough=1, exhaustive=True),
    Family("ambient", eval_ambient, enumerate=enum_ambient, shards_quick=5, shards_thorough=16, exhaustive=True,
           setup=setup, required_labels=["ambient:trigger=register-subclass", "ambient:trigger=decimal-rounding",
                                         "ambient:engine=polars"]),
]


def selftest():
    """Calibration of the harness' own tables: descriptors rebuild what they describe, native tags are sane."""
    import numpy as np

    if S.tag_numpy(np.dtype("int16")) != {"kind": "int", "bits": 16, "variant": "np", "tz": None, "unit": None}:
        raise HarnessError("tag_numpy calibration failed")
    if S.compat(S._tag("int", 64), S._tag("int", 8, "np")) != ["bits"]:
        raise HarnessError("compat calibration failed")
    if S.build({"call": "numpy:dtype", "args": ["int64"]}) != np.dtype("int64"):
        raise HarnessError("descriptor build failed")


# ------------------------------------------------------------- known findings
# Each predicate matches the trigger (which spelling / which resolved classes) AND the symptom (bucket kind).


def _det(disc):
    return disc.detail if isinstance(disc.detail, dict) else {}


def _classes(disc):
    """class names (module.Class) mentioned in the discrepancy detail."""
    d = _det(disc)
    out = []
    for f in ("cls", "ra", "rb", "back", "resolved", "first", "class_resolves", "instance_resolves"):
        v = d.get(f)
        if isinstance(v, str):
            out.append(v.split("(")[0])
    return out


def _keys(disc):
    d = _det(disc)
    return [d[f] for f in ("key", "a", "b", "cls", "printed_from") if isinstance(d.get(f), dict)]


def _is_raw_pyarrow_simple(desc):
    return isinstance(desc, dict) and str(desc.get("call", "")).startswith("pyarrow:") and not desc.get("args") \
        and desc["call"].split(":")[1] in _SIMPLE_PA


def _is_abstract(desc, names):
    path = desc.get("call") or desc.get("attr") or ""
    return path.startswith("pandera.dtypes:") and path.split(":")[1] in names


def _kind_is(disc, *prefixes):
    return any(disc.kind == p or disc.kind.startswith(p + ":") for p in prefixes)


@known.finding("C09/numpy-abstract-default-instance-every-width")
def _(family, case, disc):
    # dtypes.Int()/UInt()/Float()/Complex() (and, by hash/eq collision, Float64()/Complex128()) registered for every width
    if disc.kind == "wrong-target:numpy:abstract-instance":
        return _det(disc).get("fields") == ["bits"] and _is_abstract(_det(disc)["key"], {"Int", "UInt", "Float", "Float64", "Complex", "Complex128"})
    if disc.kind == "abstract-instance-differs:numpy":
        return _is_abstract(_det(disc)["cls"], {"Int", "UInt", "Float", "Float64", "Complex", "Complex128"})
    return False


@known.finding("C09/numpy-datetime-registered-as-timedelta")
def _(family, case, disc):
    d = _det(disc)
    return (disc.kind == "wrong-target:numpy:py-class" and d.get("key") == {"attr": "datetime:datetime"}
            and str(d.get("resolved", "")).startswith("numpy_engine.Timedelta64"))


_ARROW_TEMPORAL = ("ArrowTimestamp", "ArrowDuration", "ArrowTime32", "ArrowTime64")


@known.finding("C09/arrow-temporal-print-not-resolvable")
def _(family, case, disc):
    d = _det(disc)
    return (disc.kind == "print-roundtrip-rejected:pandas" and str(d.get("cls", "")).split(".")[-1] in _ARROW_TEMPORAL
            and str(d.get("printed", "")).endswith("[pyarrow]"))


@known.finding("C09/pandas-native-parser-error-leak")
def _(family, case, disc):
    d = _det(disc)
    return (disc.kind.startswith("resolve-leaks:pandas:") and disc.kind.endswith("@pandas_engine.dtype")
            and set(d.get("bases", [])) & {"ValueError", "NotImplementedError", "AssertionError", "SyntaxError"}
            and isinstance(d.get("key"), dict) and "s" in d["key"])


@known.finding("C09/numpy-native-parser-error-leak")
def _(family, case, disc):
    d = _det(disc)
    return (disc.kind.startswith("resolve-leaks:numpy:") and disc.kind.endswith("@numpy_engine.dtype")
            and set(d.get("bases", [])) & {"ValueError", "SyntaxError"} and isinstance(d.get("key"), dict)
            and "s" in d["key"])


_RAW_PA_WRONG = ("ArrowBinary", "Bool", "Float64", "STRING")


@known.finding("C09/raw-pyarrow-instance-misresolved")
def _(family, case, disc):
    d = _det(disc)
    if disc.kind in ("wrong-target:pandas:pyarrow-instance", "native-not-preserved:pandas:pyarrow-instance"):
        return _is_raw_pyarrow_simple(d.get("key")) and str(d.get("resolved", "")).split("(")[0].split(".")[-1] in _RAW_PA_WRONG
    if disc.kind in ("equivalent-spellings-differ:pandas", "same-parameters-resolve-differently:pandas:arrow_simple"):
        ra, rb = str(d.get("ra", "")).split("(")[0].split(".")[-1], str(d.get("rb", "")).split("(")[0].split(".")[-1]
        a_bad = _is_raw_pyarrow_simple(d.get("a")) and ra in _RAW_PA_WRONG
        b_bad = _is_raw_pyarrow_simple(d.get("b")) and rb in _RAW_PA_WRONG
        return a_bad or b_bad
    return False


@known.finding("C09/arrowbinary-dispatch-catches-every-pyarrow-type")
def _(family, case, disc):
    d = _det(disc)
    if disc.kind not in ("wrong-target:pandas:pd-arrowdtype", "native-not-preserved:pandas:pd-arrowdtype"):
        return False
    inner = (d.get("key", {}).get("args") or [{}])[0]
    return (str(d.get("resolved", "")).split("(")[0].endswith(".ArrowBinary") and isinstance(inner, dict)
            and inner.get("call") in ("pyarrow:large_list", "pyarrow:decimal256", "pyarrow:month_day_nano_interval"))


@known.finding("C09/abstract-parametrised-instance-rejected")
def _(family, case, disc):
    d = _det(disc)
    if disc.kind == "abstract-instance-rejected:pandas":
        return _is_abstract(d.get("cls", {}), {"Decimal"})
    if disc.kind in ("spelling-rejected:pandas:abstract-instance", "spelling-rejected:polars:abstract-instance"):
        k = d.get("key", {})
        names = {"Decimal"} if disc.kind.startswith("spelling-rejected:pandas") else {"Decimal", "Category"}
        return "call" in k and _is_abstract(k, names) and bool(k.get("args"))
    return False


@known.finding("C09/pandas-decimal-equality-by-context-identity")
def _(family, case, disc):
    cl = _classes(disc)
    if disc.kind == "unstable-resolution:pandas":
        return cl[:1] == ["pandas_engine.Decimal"]
    if disc.kind == "same-parameters-resolve-differently:pandas:dec":
        return cl == ["pandas_engine.Decimal", "pandas_engine.Decimal"]
    return False


@known.finding("C09/arrowstruct-unhashable")
def _(family, case, disc):
    return disc.kind == "unhashable:pandas" and _classes(disc)[:1] in (["pyarrow_engine.ArrowStruct"], ["pandas_engine.ArrowStruct"])


@known.finding("C09/polars-enum-series-field")
def _(family, case, disc):
    cl = _classes(disc)
    if disc.kind in ("unhashable:polars", "unstable-resolution:polars"):
        return cl[:1] == ["polars_engine.Enum"]
    if disc.kind in ("eq-raised:polars", "same-parameters-resolve-differently:polars:enum"):
        return cl == ["polars_engine.Enum", "polars_engine.Enum"]
    return False


@known.finding("C09/polars-enum-without-categories-check-raises")
def _(family, case, disc):
    d = _det(disc)
    if disc.kind == "self-check-raised:polars":
        return _classes(disc) == ["polars_engine.Enum"] and d.get("exc") == "TypeError"
    if disc.kind == "check-raised-on-equal-types:polars":
        return _classes(disc) == ["polars_engine.Enum", "polars_engine.Enum"] and d.get("exc") == "TypeError"
    return False


@known.finding("C09/python-generic-type-does-not-recognise-itself")
def _(family, case, disc):
    return disc.kind == "self-check-false:pandas" and _classes(disc)[:1][0:1] and \
        _classes(disc)[0] in ("pandas_engine.PythonDict", "pandas_engine.PythonList", "pandas_engine.PythonTuple",
                              "pandas_engine.PythonTypedDict", "pandas_engine.PythonNamedTuple")


def _dup_pair(x, y):
    mx, _, cx = x.partition(".")
    my, _, cy = y.partition(".")
    return cx == cy and cx.startswith("Arrow") and {mx, my} == {"pandas_engine", "pyarrow_engine"}


@known.finding("C09/pyarrow-engine-duplicate-arrow-classes")
def _(family, case, disc):
    d = _det(disc)
    cl = _classes(disc)
    if disc.kind == "print-roundtrip-differs:pandas":
        return len(cl) == 2 and _dup_pair(cl[0], cl[1])
    if disc.kind.startswith("same-parameters-resolve-differently:pandas:arrow_"):
        return len(cl) == 2 and _dup_pair(cl[0], cl[1])
    if disc.kind == "resolution-depends-on-history:pandas":
        ex = d.get("example", {})
        return (case.get("trigger") != "none" and all(a.endswith("[pyarrow]") for a in d.get("aliases", []))
                and ".pandas_engine.Arrow" in str(ex.get("before")) and ".pyarrow_engine.Arrow" in str(ex.get("after")))
    return False


@known.finding("C09/string-pyarrow-alias-resolves-to-arrowstring")
def _(family, case, disc):
    d = _det(disc)
    cl = _classes(disc)
    if disc.kind == "print-roundtrip-differs:pandas":
        return d.get("printed") == "string[pyarrow]" and cl[:1] == ["pandas_engine.STRING"] and cl[1:] in (
            ["pyarrow_engine.ArrowString"], ["pandas_engine.ArrowString"])
    if disc.kind == "wrong-target:pandas:str":
        return d.get("key") == {"s": "string[pyarrow]"} and d.get("fields") == ["variant"] and cl in (
            ["pyarrow_engine.ArrowString"], ["pandas_engine.ArrowString"])
    if disc.kind in ("equivalent-spellings-differ:pandas", "same-parameters-resolve-differently:pandas:string"):
        return sorted(c.split(".")[-1] for c in cl) == ["ArrowString", "STRING"] and \
            {"s": "string[pyarrow]"} in (d.get("a"), d.get("b"))
    return False


@known.finding("C09/sparse-equal-but-hash-differs")
def _(family, case, disc):
    return disc.kind == "equal-but-hash-differs:pandas" and _classes(disc) == ["pandas_engine.Sparse", "pandas_engine.Sparse"]


@known.finding("C09/numpy-platform-scalar-alias-generic-datatype")
def _(family, case, disc):
    d = _det(disc)
    cl = _classes(disc)
    if disc.kind != "equivalent-spellings-differ:numpy" or "numpy_engine.DataType" not in cl:
        return False
    side = d.get("a") if cl[0] == "numpy_engine.DataType" else d.get("b")
    return side in ({"attr": "numpy:longlong"}, {"attr": "numpy:ulonglong"})


@known.finding("C09/python-typeddict-namedtuple-never-equal")
def _(family, case, disc):
    return disc.kind == "unstable-resolution:pandas" and _classes(disc)[:1] in (["pandas_engine.PythonTypedDict"],
                                                                                ["pandas_engine.PythonNamedTuple"])
