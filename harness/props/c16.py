"""C16 - a DataFrameModel means the same as the DataFrameSchema it describes.

A case is a *program*: 1-4 generated model classes (linear chains, siblings, two-root mixins, diamonds) rendered
to source text and exec'd, with new / overridden fields (annotation+Field, annotation only, Field only), Optional,
aliases (str, int, regex), Field options and Field check keywords, Config options / extras (three Config styles),
@check (by name, by FieldInfo reference, regex, name=, Check kwargs), @dataframe_check, @parser, @dataframe_parser,
method overrides (same kind, other kind, plain method), plus the order in which the classes are compiled and
three tables aimed at the target class.

Oracle (all of it computed from the spec, never from pandera's model code):
  * the expected schema = object-API DataFrameSchema built from the hierarchy by ordinary class semantics
    (_c16_spec.expected / build_expected);
  * structural: summary(M.to_schema()) == summary(expected) for *every* class of the hierarchy, where the summary is
    the harness fingerprint of the whole schema object graph plus the identity (tag, bound cls) of each generated
    check / parser function, with a component's checks compared as a multiset;
  * stability: a second to_schema() after all relatives were compiled (in the generated order) gives the same
    summary - "a subclass never alters its parents' schemas", compile order does not matter;
  * behavioural: outcome kind, returned frame (cell-wise snapshot) and lazy failure cases of M.validate(D) equal
    those of expected.validate(D).
"""
from __future__ import annotations

import copy
import json
import re

from .. import fp, known
from ..core import Eval, Family, HarnessError
from . import _c16_gen as G
from . import _c16_spec as S
from . import _c16_summ as SM

PROPERTY = "C16"
LEVEL = "exploration"
RULE = (
    "Hypothesis-generated class hierarchies (1-4 classes: chains, siblings, two-root mixins, diamonds) rendered to "
    "source text and exec'd, x the order in which the classes are compiled (definition order, a permutation, or "
    "incrementally while defining) x 3 tables aimed at the target class; pandas and polars families. 90 % of the "
    "cases take their choices from a PRNG seeded by one Hypothesis draw (honest feature probabilities), 10 % from "
    "Hypothesis draws directly (boundary-heavy). 35 % of the cases avoid every feature that triggers a recorded "
    "defect (label avoids-known-defect-features), so nothing is masked there. Non-trivial: hierarchy depth >= 2 with "
    ">= 1 field or method override, or an alias / regex field / Config extra is present, AND the target class compiled "
    "and >= 1 table was validated on both sides. Distinct = hash of the canonical JSON case. Labels give the histogram "
    "of features (override kinds, Config options, compile order, dtype styles) and of verdicts; required classes: "
    "accept and reject verdicts, field override, method override, alias, regex field, Config extras, diamond, parser."
)
ASSUMPTIONS = [
    "differential oracle: the object-API DataFrameSchema/Column/Index/Check constructors define what the options mean "
    "(C01/C08 check those against the reference model); the expected schema is computed from the spec only",
    "field order = first definition along the reversed MRO (typing.get_type_hints / dataclasses convention); "
    "re-annotating a field without assigning a Field resets its options (docs: inheritance 'completely overrides')",
    "a method name defined in a more derived class replaces the parent's attribute whatever its decorator is "
    "(ordinary attribute lookup); public field names are unique within a hierarchy (generator precondition)",
    "schema name is only compared when the class's own Config sets `name`; class docstrings are not generated "
    "(description falls back to __doc__)",
    "checks of one component are compared as a multiset (their relative order is not part of the property); "
    "generated parsers of one column are additive, so their order cannot matter",
    "regex @check patterns select string field names only (re.match, as documented by the '^a' example)",
    "polars: no @parser (not implemented by the polars backend), no frame-level built-in checks / Config extras "
    "(polars built-ins need a column key), no index fields, no registered custom checks",
    "not generated: string / forward-reference annotations, generic models, Config.from_format/to_format, groupby "
    "checks, class docstrings, MultiIndex uniqueness; Index[T] fields are generated but in this environment masked by "
    "the recorded Series[T]/Index[T] ValueError (they are scored once that is repaired; verified on a patched copy)",
]


# ------------------------------------------------------------------ tables -> frames


def pd_series(cells, phys):
    import pandas as pd

    try:
        if phys == "dttz":
            return pd.Series(pd.to_datetime(list(cells), utc=True))
        if phys == "object":
            return pd.Series(list(cells), dtype=object)
        return pd.Series(list(cells), dtype=phys)
    except Exception:
        try:
            return pd.Series(list(cells))
        except Exception:
            return pd.Series(list(cells), dtype=object)


def pd_frame(table):
    import pandas as pd

    n = table["n"]
    cols = table["cols"]
    if cols:
        parts = [pd_series(c["cells"], c["phys"]) for c in cols]
        df = pd.concat(parts, axis=1) if n or True else None
        df.columns = pd.Index([c["name"] for c in cols], dtype=object)
    else:
        df = pd.DataFrame(index=pd.RangeIndex(n))
    ix = table.get("index")
    if ix and ix["levels"]:
        lv = ix["levels"]
        arrs = [pd_series(l["cells"], l["phys"]) for l in lv]
        if len(lv) == 1:
            df.index = pd.Index(arrs[0].array, name=lv[0]["name"])
        else:
            df.index = pd.MultiIndex.from_arrays([a.array for a in arrs], names=[l["name"] for l in lv])
    return df


def pl_frame(table):
    import polars as pl

    out = []
    seen = set()
    for c in table["cols"]:
        if c["name"] in seen:
            continue
        seen.add(c["name"])
        dt = getattr(pl, c["phys"], None)
        try:
            out.append(pl.Series(str(c["name"]), list(c["cells"]), dtype=dt, strict=False))
        except Exception:
            out.append(pl.Series(str(c["name"]), [None if v is None else str(v) for v in c["cells"]], dtype=pl.String))
    return pl.DataFrame(out)


# ------------------------------------------------------------------ features / labels


def features(case):
    spec = case
    cl = spec["classes"]
    lab = set()
    lab.add("backend=" + spec["backend"])
    lab.add(f"classes={len(cl)}")
    depth = max(len(S.mro(cl, i)) for i in range(len(cl)))
    lab.add(f"depth={depth}")
    if any(len(c["bases"]) > 1 for c in cl):
        lab.add("multiple-inheritance")
    if len(cl) == 4 and cl[3]["bases"] == [1, 2]:
        lab.add("diamond")
    over_field = over_meth = False
    for i, c in enumerate(cl):
        inh_attrs, inh_meths = set(), {}
        for b in S.mro(cl, i)[1:]:
            inh_attrs |= {f["attr"] for f in cl[b]["fields"]}
            for m in cl[b]["methods"]:
                inh_meths.setdefault(m["meth"], m)
        for f in c["fields"]:
            fk = f["field"] or {}
            if f["attr"] in inh_attrs:
                over_field = True
                lab.add("override-field")
                lab.add("override-field:" + ("field-only" if f["ann"] is None else "ann-only" if f["field"] is None else "full"))
            if fk.get("alias") is not None:
                lab.add("alias-int" if isinstance(fk["alias"], int) else "alias")
            if fk.get("regex"):
                lab.add("regex-field")
            if f.get("optional"):
                lab.add("optional")
            if f["style"] == "series" and f["ann"] != "dttz" and spec["backend"] == "pandas":
                lab.add("series-style")
            if f["style"] == "index":
                lab.add("index-field")
            if f["ann"] == "dttz":
                lab.add("dtype-params:" + f["style"])
            if any(k in fk for k in S.CHECK_METHOD):
                lab.add("field-checks")
        for m in c["methods"]:
            lab.add("method:" + m["kind"])
            if m["meth"] in inh_meths:
                over_meth = True
                old = inh_meths[m["meth"]]["kind"]
                lab.add("override-method")
                lab.add("override-method:same-kind" if old == m["kind"] else f"override-method:{old}->{m['kind']}")
            if m.get("regex"):
                lab.add("regex-check")
            if m.get("name"):
                lab.add("named-method")
            tg = m.get("targets") or []
            if any(isinstance(t, dict) and "ref" in t for t in tg):
                lab.add("check-by-ref")
            if any(isinstance(t, dict) and "pref" in t for t in tg):
                lab.add("check-by-parent-ref")
            if tg == ["nope"]:
                lab.add("dangling-check")
        cfg = c.get("config")
        if cfg:
            lab.add("config-style=" + cfg["style"])
            if cfg["extras"]:
                lab.add("config-extras")
            for k in cfg["opts"]:
                lab.add("config:" + k)
    if case.get("clean"):
        lab.add("avoids-known-defect-features")
    if case.get("incremental"):
        lab.add("compile=incremental")
    elif case["order"] != sorted(case["order"]):
        lab.add("compile=permuted")
    else:
        lab.add("compile=definition-order")
    nontrivial = (depth >= 2 and (over_field or over_meth)) or bool(
        lab & {"alias", "alias-int", "regex-field", "config-extras"})
    return lab, nontrivial


# ------------------------------------------------------------------ evaluate


def _failure_rows(exc, backend):
    fc = getattr(exc, "failure_cases", None)
    rows = []
    try:
        recs = fc.to_dict("records") if backend == "pandas" else fc.to_dicts()
    except Exception:
        return ["<unreadable failure_cases: %s>" % type(fc).__name__]
    for r in recs:
        case_ = str(r.get("failure_case"))
        if r.get("index") is None and re.match(r"^[A-Za-z_]+(Error|Exception)\(", case_):
            # a check that crashed: the library's error text (which of several regex-matched columns polars names first,
            # addresses, ...) is not part of the comparison, the exception type is
            case_ = case_.split("(", 1)[0] + "(...)"
        rows.append(json.dumps([str(r.get("schema_context")), str(r.get("column")), str(r.get("check")),
                                case_, str(r.get("index"))]))
    return sorted(rows)


def _expected_name(exp, actual_schema):
    if exp["own_name"] is not None:
        return exp["own_name"]
    return getattr(actual_schema, "name", None)


def evaluate(case):
    from . import _c16_rt as rt

    backend = case["backend"]
    if backend == "pandas":
        rt.register_custom_checks()
    ev = Eval()
    lab, nontriv = features(case)
    ev.labels = sorted(lab)
    spec = case
    ncls = len(spec["classes"])
    exps = [S.expected(spec, i) for i in range(ncls)]
    if any(e.get("error") == "outside-domain" for e in exps):
        ev.skipped = "dtype_kwargs-without-parametrised-annotation"
        return ev
    ns = {"__name__": "c16_generated"}
    exec(compile(S.PRELUDE[backend], "<c16-prelude>", "exec", dont_inherit=True), ns)  # noqa: S102
    from pandera.api.dataframe import model as _model

    outcomes = {}
    first = {}
    defined = {}
    src = {}

    def define(i):
        src[i] = S.render_class(spec, i)
        if not all(defined.get(b) for b in spec["classes"][i]["bases"]):
            defined[i] = False  # a base could not be defined (already reported)
            return
        try:
            exec(compile(src[i], "<c16-generated>", "exec", dont_inherit=True), ns)  # noqa: S102
            defined[i] = True
        except Exception as e:
            defined[i] = False
            ev.add(f"class-definition-raised:{type(e).__name__}", {"class": spec["classes"][i]["name"], "msg": str(e)[:300],
                                                                    "source": src[i]})

    def compile_(i):
        if not defined.get(i):
            return
        cls = ns[spec["classes"][i]["name"]]
        o = fp.outcome(cls.to_schema)
        outcomes[i] = o
        if o["kind"] == "ok":
            try:
                first[i] = SM.summarize(o["value"])
            except Exception as e:  # a mutant may return anything
                first[i] = {"unsummarizable": type(e).__name__}

    try:
        if case.get("incremental"):
            for i in range(ncls):
                define(i)
                compile_(i)
        else:
            for i in range(ncls):
                define(i)
            for i in case["order"]:
                compile_(i)

        struct = {}  # class idx -> sorted structural kinds
        struct_discs = {}
        for i in range(ncls):
            if i not in outcomes:
                continue
            name = spec["classes"][i]["name"]
            cls = ns[name]
            o, exp = outcomes[i], exps[i]
            if "error" in exp:
                ev.labels.append("expected-init-error")
                if not (o["kind"] == "usage" and o.get("exc_type") == "SchemaInitError"):
                    ev.add("expected-SchemaInitError", {"class": name, "why": exp["why"], "tag": exp.get("tag"),
                                                        "observed": _o(o), "source": _src(src)})
                continue
            # the object-API schema with the same columns, checks and options
            want, want_err = None, None
            try:
                want = S.build_expected(spec, exp, ns, cls, _expected_name(exp, o.get("value")))
            except Exception as e:
                import pandera.errors as pe

                if not isinstance(e, (pe.SchemaInitError, pe.SchemaDefinitionError)):
                    raise HarnessError(f"C16: object-API construction of the expected schema failed: "
                                       f"{type(e).__name__}: {e}\n{_src(src)}")
                want_err = type(e).__name__  # the options themselves are invalid (usage error)
            if want_err is not None:
                ev.labels.append("options-rejected-by-object-api")
                if not (o["kind"] == "usage" and o.get("exc_type") == want_err):
                    ev.add(f"object-api-raises-{want_err}-model-does-not", {"class": name, "observed": _o(o),
                                                                            "source": _src(src)})
                continue
            if o["kind"] != "ok":
                ev.add(f"to_schema-raised:{o.get('exc_type', o['kind'])}",
                       {"class": name, "observed": _o(o), "source": _src(src)})
                continue
            actual = o["value"]
            diffs = SM.diff(SM.summarize(want), first[i])
            kinds = sorted({k for k, _ in diffs})
            struct[i] = kinds
            struct_discs[i] = []
            for k, det in diffs:
                dd = {"class": name, **(det if isinstance(det, dict) else {"detail": det})}
                struct_discs[i].append({"kind": "schema" + k, "detail": dd})
                ev.add("schema" + k, {**dd, "source": _src(src)})
            # stability: repeated call, after every relative has been compiled
            o2 = fp.outcome(cls.to_schema)
            if o2["kind"] != "ok":
                ev.add("to_schema-second-call-raised", {"class": name, "observed": _o(o2)})
            else:
                again = SM.diff(first[i], _safe_summ(o2["value"]))
                if again:
                    ev.add("schema-changed-after-relatives-compiled",
                           {"class": name, "changes": [[k, d] for k, d in again][:4], "order": case["order"],
                            "source": _src(src)})

        # ---------------------------------------------------------------- behaviour
        t = case["target"]
        want = None
        if t in outcomes and outcomes[t]["kind"] == "ok" and "error" not in exps[t] and case["tables"]:
            name = spec["classes"][t]["name"]
            cls = ns[name]
            exp = exps[t]
            try:
                want = S.build_expected(spec, exp, ns, cls, _expected_name(exp, outcomes[t]["value"]))
            except Exception as e:
                import pandera.errors as pe

                if not isinstance(e, (pe.SchemaInitError, pe.SchemaDefinitionError)):
                    raise HarnessError(f"C16: object-API construction failed for a compiled target: {type(e).__name__}: {e}")
                want = None  # already reported above (object API rejects the options)
        if want is not None and t in outcomes and outcomes[t]["kind"] == "ok" and "error" not in exps[t] and case["tables"]:
            want0 = SM.summarize(want)
            suffix = ("|struct=" + ",".join(struct.get(t, []))) if struct.get(t) else ""
            build = pd_frame if backend == "pandas" else pl_frame
            validated = 0
            for ti, table in enumerate(case["tables"]):
                try:
                    d1, d2 = build(table), build(table)
                except Exception as e:
                    raise HarnessError(f"C16: cannot build table {table}: {type(e).__name__}: {e}")
                lazy = bool(table.get("lazy"))
                om = fp.outcome(lambda: cls.validate(d1, lazy=lazy))
                oe = fp.outcome(lambda: want.validate(d2, lazy=lazy))
                validated += 1
                vm, ve = _verdict(om), _verdict(oe)
                ev.labels.append("verdict=" + ve.split(":")[0])
                if lazy:
                    ev.labels.append("lazy")
                det = {"class": name, "table": ti, "lazy": lazy, "model": _o(om), "object_api": _o(oe),
                       "struct": struct_discs.get(t, []), "source": _src(src)}
                if vm != ve:
                    ev.add("validate-verdict-differs" + suffix, det)
                elif om["kind"] == "ok":
                    try:
                        sm_, se_ = fp.snapshot(om["value"]), fp.snapshot(oe["value"])
                    except Exception as e:
                        sm_, se_ = {"unsnapshotable": type(e).__name__}, None
                    if sm_ != se_:
                        ev.add("validate-output-differs" + suffix, {**det, "model_out": sm_, "object_api_out": se_})
                elif om["kind"] == "SchemaErrors":
                    fm, fe = _failure_rows(om["exc"], backend), _failure_rows(oe["exc"], backend)
                    if fm != fe:
                        ev.add("validate-failure-cases-differ" + suffix, {**det, "model_fc": fm[:12], "object_api_fc": fe[:12]})
            # other public entry points of the model class that work through its (cached) schema: whatever they return
            # or raise, to_schema() afterwards is what it was
            for meth in ("empty", "to_json_schema", "get_metadata"):
                fnm = getattr(cls, meth, None)
                if callable(fnm):
                    try:
                        fnm()
                    except Exception:  # noqa: BLE001 - e.g. empty() is not defined for MultiIndex models
                        ev.labels.append(f"{meth}-raised")
            # validation must not leave the model's cached schema in another state than the object-API schema
            after_m = SM.diff(first[t], _safe_summ(cls.to_schema()))
            after_e = SM.diff(want0, SM.summarize(want))
            if sorted(k for k, _ in after_m) != sorted(k for k, _ in after_e):
                ev.add("schema-changed-by-validate", {"class": name, "model_changes": [[k, d] for k, d in after_m][:4],
                                                      "object_api_changes": [[k, d] for k, d in after_e][:4]})
            ev.nontrivial = nontriv and validated > 0
    finally:
        for c in spec["classes"]:
            cls = ns.get(c["name"])
            if cls is not None:
                _model.MODEL_CACHE.pop(cls, None)
    ev.labels = sorted(set(ev.labels))
    return ev


def _safe_summ(x):
    try:
        return SM.summarize(x)
    except Exception as e:
        return {"unsummarizable": type(e).__name__}


def _verdict(o):
    k = o["kind"]
    if k == "ok":
        return "accept"
    if k in ("SchemaError", "SchemaErrors"):
        return "reject:" + k
    if k == "usage":
        return "usage:" + o.get("exc_type", "?")
    return "internal:" + o.get("exc_type", "?")


def _o(o):
    d = {k: v for k, v in o.items() if k not in ("exc", "value")}
    if "exc" in o and o["kind"] in ("SchemaError", "SchemaErrors"):
        d["msg"] = str(o["exc"])[:300]
    return d


def _src(src):
    return "\n".join(src[i] for i in sorted(src))


# ------------------------------------------------------------------ known findings
# Each predicate needs the trigger (features of the *case*, computed from the spec by `analysis`) and the symptom
# (bucket kind + the tags / names shown in the discrepancy).  A behavioural discrepancy (validate-*) carries the
# structural discrepancies of the target class in detail["struct"]; it is attributed to a finding only if every
# one of them is explained by a recorded finding, so a behavioural difference with an unexplained (or no)
# structural cause is still reported.


def analysis(case, i):
    """Trigger features of class i of the hierarchy."""
    cl = case["classes"]
    m = S.mro(cl, i)  # most derived first
    defs = {}  # method name -> [(cls idx, method spec)] most derived first
    for c in m:
        for me in cl[c]["methods"]:
            defs.setdefault(me["meth"], []).append((c, me))
    tag = lambda c, me: f"{cl[c]['name']}.{me['meth']}"  # noqa: E731
    overridden_parsers, overridden_checks_other_kind = set(), set()
    names_of = {}  # tag -> names the compiled Check / Parser may carry
    for name, lst in defs.items():
        for pos, (c, me) in enumerate(lst):
            if pos == 0:
                continue
            more_derived = [x[1]["kind"] for x in lst[:pos]]
            names_of[tag(c, me)] = {me["meth"], me.get("name")}
            if me["kind"] in ("parser", "dfparser"):
                overridden_parsers.add(tag(c, me))
            elif me["kind"] in ("check", "dfcheck") and me["kind"] not in more_derived:
                overridden_checks_other_kind.add(tag(c, me))
    # named methods whose CheckInfo / ParserInfo object is compiled by >= 2 classes; pandera also compiles the
    # wrongly inherited (overridden) infos, so every class that has the defining class in its MRO counts
    shared_named = {}
    for c in m:
        for me in cl[c]["methods"]:
            if me.get("name") and me["kind"] != "plain":
                users = [j for j in range(len(cl)) if c in S.mro(cl, j)]
                if len(users) >= 2:
                    shared_named[tag(c, me)] = (me["name"], me["meth"])
    multi_ref = set()
    for c in m:
        fields = {f["attr"]: f for f in cl[c]["fields"]}
        for me in cl[c]["methods"]:
            refs = [t["ref"] for t in (me.get("targets") or []) if isinstance(t, dict) and "ref" in t]
            keys = [repr((fields[r]["field"] or {}).get("alias")) for r in refs if r in fields]
            if len(keys) != len(set(keys)):
                multi_ref.add(tag(c, me))
    eff = S.effective(case, i)
    series = any(f["style"] in ("series", "index") and f["ann"] != "dttz" for f in eff["fields"]) and case["backend"] == "pandas"
    regex_nonstr = (any(me.get("regex") for lst in defs.values() for _, me in lst)
                    and any(not isinstance(f["name"], str) for f in eff["fields"]))
    return {"names_of": names_of, "regex_nonstr": regex_nonstr, "overridden_parsers": overridden_parsers, "overridden_checks_other_kind": overridden_checks_other_kind,
            "shared_named": shared_named, "multi_ref": multi_ref, "series": series,
            "metadata": eff["opts"].get("metadata")}


def _cls_idx(detail):
    try:
        return int(str(detail.get("class"))[1:])
    except Exception:
        return None


def _tags(items):
    out = set()
    for it in items or []:
        ident = (it or {}).get("ident")
        if not ident:
            return None  # an unidentified (built-in / foreign) check: not one of the generated methods
        out.add(ident[1])
    return out


def _explain(case, kind, detail):
    """known-finding id that explains one *structural* discrepancy, or None."""
    i = _cls_idx(detail)
    if i is None or i >= len(case["classes"]):
        return None
    a = analysis(case, i)
    if kind.endswith("checks:name") or kind.endswith("parsers:name"):
        e, o = detail.get("expected") or {}, detail.get("observed") or {}
        t = (e.get("ident") or [None, None])[1]
        if t in a["shared_named"] and a["shared_named"][t] == (e.get("name"), o.get("name")):
            return "C16/check-name-popped"
        return None
    if kind.endswith("parsers:extra"):
        t = _tags(detail.get("unexpected"))
        if t and t <= a["overridden_parsers"]:
            return "C16/parser-override-ignored"
        return None
    if kind.endswith("checks:extra"):
        t = _tags(detail.get("unexpected"))
        if t and t <= a["overridden_checks_other_kind"]:
            return "C16/check-overridden-by-other-kind"
        return None
    if kind == "schema.columns.*.checks:missing" or kind == "schema.columns.*.parsers:missing":
        t = _tags(detail.get("missing"))
        if t and t <= a["multi_ref"]:
            return "C16/multi-field-ref-dedup"
        return None
    if kind == "schema.metadata":
        if a["metadata"] is not None and detail.get("observed") is None:
            return "C16/config-metadata-not-forwarded"
        return None
    obs = detail.get("observed") if isinstance(detail.get("observed"), dict) else {}
    raised_kinds = kind in ("to_schema-raised:ValueError", "to_schema-raised:TypeError", "expected-SchemaInitError") \
        or kind.startswith("object-api-raises-")
    if raised_kinds and obs.get("exc_type") == "ValueError":
        # the ValueError pre-empts whatever to_schema() should have done (incl. raising a usage error)
        if (a["series"] and "Could not convert" in str(obs.get("msg"))
                and str(obs.get("where")).endswith("pandas_engine.py:dtype")):
            return "C16/series-annotation-valueerror"
        return None
    if raised_kinds and obs.get("exc_type") == "TypeError":
        if a["regex_nonstr"] and str(obs.get("where")).endswith("_regex_filter"):
            return "C16/regex-check-nonstr-field-name"
        return None
    if kind == "expected-SchemaInitError":
        # the dangling target was one of the deduplicated references, so pandera never looks it up
        if detail.get("tag") in a["multi_ref"] and obs.get("kind") == "ok":
            return "C16/multi-field-ref-dedup"
        return None
    if kind == "to_schema-raised:SchemaInitError":
        msg = str((detail.get("observed") or {}).get("msg"))
        # "Parser <name> is assigned to a non-existing field ...": <name> must be one of the overridden methods
        word = msg.split(" ")[1] if msg.count(" ") >= 2 else None
        if msg.startswith("Parser ") and "non-existing field" in msg and any(
                word in a["names_of"].get(t, ()) for t in a["overridden_parsers"]):
            return "C16/parser-override-ignored"
        if msg.startswith("Check ") and "non-existing field" in msg and any(
                word in a["names_of"].get(t, ()) for t in a["overridden_checks_other_kind"]):
            return "C16/check-overridden-by-other-kind"
        return None
    return None


def _known_id(case, disc):
    kind, detail = disc.kind, disc.detail if isinstance(disc.detail, dict) else {}
    if kind.startswith("validate-"):
        struct = detail.get("struct") or []
        if not struct:
            return None
        ids = [_explain(case, s["kind"], s["detail"]) for s in struct]
        if any(x is None for x in ids):
            return None
        # metadata / names alone cannot change a verdict or an output
        base = kind.split("|")[0]
        strong = [x for x in ids if x not in ("C16/config-metadata-not-forwarded",)]
        if base in ("validate-verdict-differs", "validate-output-differs"):
            strong = [x for x in strong if x != "C16/check-name-popped"]
        return sorted(strong)[0] if strong else None
    return _explain(case, kind, detail)


def _register(fid):
    @known.finding(fid)
    def _pred(family, case, disc, _fid=fid):
        return _known_id(case, disc) == _fid

    return _pred


for _fid in ("C16/check-name-popped", "C16/parser-override-ignored", "C16/check-overridden-by-other-kind",
             "C16/multi-field-ref-dedup", "C16/config-metadata-not-forwarded", "C16/series-annotation-valueerror",
             "C16/regex-check-nonstr-field-name"):
    _register(_fid)


# ------------------------------------------------------------------ selftest (calibration of the oracle)


def selftest():
    """The expected-schema builder and the diff must not be vacuous: a literal hierarchy must give the documented
    result, and flipping one expected property must be noticed."""
    import pandas as pd

    case = {
        "backend": "pandas",
        "classes": [
            {"name": "M0", "bases": [], "config": {"style": "plain", "opts": {"strict": True}, "extras": {}},
             "fields": [{"attr": "a", "ann": "int", "style": "plain", "optional": False, "field": {"gt": 0, "alias": "x"}},
                        {"attr": "b", "ann": "float", "style": "plain", "optional": True, "field": None}],
             "methods": [{"meth": "ck0", "kind": "check", "targets": ["x"], "regex": False, "name": None, "op": "lt",
                          "k": 5, "kw": {}}]},
            {"name": "M1", "bases": [0], "config": {"style": "plain", "opts": {"ordered": True}, "extras": {}},
             "fields": [{"attr": "b", "ann": "str", "style": "plain", "optional": False, "field": None}],
             "methods": [{"meth": "ck0", "kind": "check", "targets": ["x"], "regex": False, "name": None, "op": "lt",
                          "k": 3, "kw": {}}]},
        ],
        "target": 1, "incremental": False, "order": [0, 1], "tables": [],
    }
    exp = S.expected(case, 1)
    cols = {c["name"]: c for c in exp["columns"]}
    ok = (list(cols) == ["x", "b"] and cols["b"]["dt"] == "str" and cols["b"]["required"] is True
          and exp["opts"]["strict"] is True and exp["opts"]["ordered"] is True
          and [e["tag"] for e in cols["x"]["checks"]] == ["M1.ck0"])
    if not ok:
        raise HarnessError(f"C16 selftest: resolver disagrees with ordinary class semantics: {exp}")
    ns = {}
    exec(S.PRELUDE["pandas"], ns)  # noqa: S102
    want = S.build_expected(case, exp, ns, type("M1", (), {}), "M1")
    for frame, accept in ((pd.DataFrame({"x": [1, 2], "b": ["a", "b"]}), True),
                          (pd.DataFrame({"x": [1, 4], "b": ["a", "b"]}), False),     # child's ck0: < 3
                          (pd.DataFrame({"x": [0, 2], "b": ["a", "b"]}), False),     # Field(gt=0)
                          (pd.DataFrame({"b": ["a", "b"], "x": [1, 2]}), False),     # ordered (child)
                          (pd.DataFrame({"x": [1, 2], "b": ["a", "b"], "z": [1, 2]}), False)):  # strict (parent)
        v = fp.verdict(lambda: want.validate(frame))
        if (v == "accept") != accept:
            raise HarnessError(f"C16 selftest: expected-schema calibration failed: {frame.to_dict('list')} -> {v}")
    exp2 = copy.deepcopy(exp)
    exp2["columns"][1]["required"] = False
    other = S.build_expected(case, exp2, ns, type("M1", (), {}), "M1")
    if not SM.diff(SM.summarize(want), SM.summarize(other)):
        raise HarnessError("C16 selftest: summary diff is blind to Column.required")
    exp3 = copy.deepcopy(exp)
    exp3["columns"][0]["checks"][0]["tag"] = "M0.ck0"
    other = S.build_expected(case, exp3, ns, type("M1", (), {}), "M1")
    if not SM.diff(SM.summarize(want), SM.summarize(other)):
        raise HarnessError("C16 selftest: summary diff is blind to the identity of a custom check function")


FAMILIES = [
    Family("pandas_models", evaluate, strategy=lambda: G.strategy("pandas"), n_quick=240, n_thorough=4000,
           shards_quick=6, shards_thorough=12,
           required_labels=["verdict=accept", "verdict=reject", "override-field", "override-method", "alias",
                            "regex-field", "config-extras", "diamond", "method:parser", "optional",
                            "avoids-known-defect-features"]),
    Family("polars_models", evaluate, strategy=lambda: G.strategy("polars"), n_quick=240, n_thorough=4000,
           shards_quick=2, shards_thorough=4,
           required_labels=["verdict=accept", "verdict=reject", "override-field", "override-method", "alias",
                            "diamond"]),
]
