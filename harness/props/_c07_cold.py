"""C07 driver for the cold-process family: run as ``python -m harness.props._c07_cold`` with a JSON case on stdin in
a freshly started interpreter.  The scheduled execution is the FIRST thing that touches pandera's validation
machinery in this process (backend registration, lazy imports, dispatch tables are all cold); the solo reference
outcomes are computed afterwards.  Prints one JSON line."""
from __future__ import annotations

import json
import sys
import warnings

warnings.filterwarnings("ignore")


def main():
    case = json.load(sys.stdin)
    from .. import fp
    from . import _c07_sched as sched
    from . import _c07_work as work

    w, schedule = case["workload"], case["schedule"]
    n = len(w["calls"])
    objs = work.Objects(w)
    cfg_before = fp.config_state()
    fns = [objs.call(i) for i in range(n)]
    r = sched.Sched(fns, schedule, probe=objs.probe).run()
    cfg_after = fp.config_state()
    out = {"status": r.status, "why": getattr(r, "why", None), "steps": list(r.steps or []),
           "cfg_changed": cfg_after != cfg_before, "n_preemptions": len(r.preemptions or [])}
    if r.status == "ok":
        out["results"] = [work.normalise(r.results[i]) for i in range(n)]
        from pandera import config

        config.reset_config_context()
        solo = []
        for i in range(n):
            o2 = work.Objects(w, only_call=i)
            fn = o2.call(i)
            try:
                res = ("ok", fn())
            except BaseException as e:  # noqa: BLE001
                res = ("exc", e)
            solo.append(work.normalise(res))
            config.reset_config_context()
        out["solo"] = solo
    print("C07COLD " + json.dumps(out, default=repr))


if __name__ == "__main__":
    main()
