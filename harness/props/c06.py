"""C06 - errors use the documented channel; failures leave no trace (exception safety).

Family `inputs`  : generated schemas x data x options (C01 / C03 / C20 generators + "unusual but legal" combinations):
                   the outcome is ok | SchemaError (eager) | SchemaErrors (lazy) | a documented usage error; never an
                   internal exception; afterwards schema fingerprint, global config and caller's data are unchanged.
Family `faults`  : every user callback of a schema (vectorised / element-wise check fns at column, index and dataframe
                   level, groupby fns, parser fns, a custom registered dtype's check/coerce) is a counting wrapper; the call
                   is run once clean to count N invocations, then re-run with an exception injected at invocation k for
                   every k in 1..N (exhaustive), eager and lazy: outcome stays in the documented channel (a failing check
                   callback must surface as a failed check) and schema / config / data state equals the state before.
"""
from __future__ import annotations

import copy

from hypothesis import strategies as st

from .. import fp, gen, known, spec as sp
from ..core import Eval, Family
from . import c01, c20

PROPERTY = "C06"
LEVEL = "fault_enumeration"
RULE = (
    "inputs: Hypothesis (C01/C03/C20 generators, lazy x head/tail/sample x drop_invalid_rows x non-dataframe arguments); "
    "non-trivial = the case reaches a parser-error, subsample, drop_invalid_rows or lazy-report path. faults: generated "
    "schemas with 3-8 wrapped callbacks; for each, EVERY k in 1..N (N = callback invocations of the clean run) x "
    "{eager, lazy} x exception type is executed; non-trivial = the fault lands while the callback belongs to a schema "
    "component whose attributes are temporarily overridden or after a parser already rewrote the working copy (k>1)."
)
ASSUMPTIONS = [
    "documented channel = SchemaError (eager) / SchemaErrors (lazy) / SchemaDefinitionError / SchemaInitError / "
    "BackendNotFoundError or TypeError('expected pd.DataFrame/pd.Series ...') for a non-dataframe argument",
    "for parser / groupby / custom-dtype callbacks the injected exception itself propagating is accepted (the property only "
    "requires check callbacks to be reported as failed checks)",
    "state = harness/fp.py fingerprint(schema) + config_state() + snapshot(data)",
]


# ------------------------------------------------------------------------------ inputs


@st.composite
def strat_inputs(draw):
    r = draw(st.integers(0, 9))
    if r < 4:
        case = draw(gen.case_strategy())
        case = dict(case, parser_ops=[], lazy=draw(st.booleans()))
        import re as _re

        names = [t["name"] for t in case["table"]["columns"]]
        cols = [i for i, c in enumerate(case["spec"]["columns"])
                if (c["name"] in names if not c.get("regex") else any(_re.match(c["name"], str(n)) for n in names))]
        rx = [i for i in cols if case["spec"]["columns"][i].get("regex")]
        if case["spec"].get("kind", "dataframe") == "dataframe" and cols and draw(st.integers(0, 5)) == 0:
            # unrepaired pairs through a standalone Column, regex columns first (their failures run per matched column)
            case = dict(case, entry="column", entry_col=draw(st.sampled_from(rx or cols)))
    elif r < 8:
        case = draw(gen.parser_case())
        names = [t["name"] for t in case["table"]["columns"]]
        import re as _re

        # (a standalone Column may also be a regex column: it then validates every column its pattern selects)
        cols = [i for i, c in enumerate(case["spec"]["columns"])
                if (c["name"] in names if not c.get("regex") else any(_re.match(c["name"], str(n)) for n in names))]
        if case["spec"].get("kind", "dataframe") == "dataframe" and cols and draw(st.integers(0, 5)) == 0:
            # a standalone Column component validating the frame (prefer a column a parsing option works on)
            hot = [i for i in cols if case["spec"]["columns"][i]["name"] in case.get("touched", [])]
            case = dict(case, entry="column", entry_col=draw(st.sampled_from(hot or cols)))
    else:
        case = draw(c20.strategy())
        case = dict(case, parser_ops=[], lazy=draw(st.booleans()))
    case = copy.deepcopy(case)
    if draw(st.integers(0, 5)) == 0:
        n = sp.table_nrows(case["table"])
        case["opts"] = {"head": draw(st.one_of(st.none(), st.integers(0, n))), "tail": draw(st.one_of(st.none(), st.integers(0, n))),
                        "sample": None, "random_state": None}
    if draw(st.integers(0, 7)) == 0:
        case["spec"]["drop_invalid_rows"] = True
        case["lazy"] = True
    if (draw(st.integers(0, 11)) == 0 and case["spec"].get("kind", "dataframe") == "dataframe"
            and case.get("entry") != "column" and case["table"]["columns"]):
        # a dataframe-level parser that changes the set of columns (drops / renames a column the schema names, or
        # adds one): only the error channel is judged here, so no reference semantics are needed
        col = draw(st.sampled_from([t["name"] for t in case["table"]["columns"]]))
        kind = draw(st.sampled_from(["frame_drop", "frame_drop", "frame_rename", "frame_add"]))
        case["spec"]["parsers"] = list(case["spec"].get("parsers") or []) + [{"kind": kind, "column": col}]
        case["parser_ops"] = list(case.get("parser_ops") or []) + ["structural-parser"]
    if draw(st.integers(0, 19)) == 0 and case.get("entry") != "column" and case["spec"].get("kind") != "column":
        case["argument"] = draw(st.sampled_from(["list", "series-for-frame", "frame-for-series", "dict", "int", "str"]))
    return case


def evaluate_inputs(case):
    import pandas as pd

    ev = Eval()
    spec, table = case["spec"], case["table"]
    if case.get("entry") == "column":
        schema = sp.pandas_column(spec["columns"][case["entry_col"]], with_name=True)
    else:
        schema = sp.pandas_schema(spec)
    series = spec.get("kind") == "series"
    data = sp.pandas_series(table) if series else sp.pandas_frame(table)
    arg = case.get("argument")
    if arg == "list":
        data = [1, 2]
    elif arg == "str":
        data = "df"
    elif arg == "dict":
        data = {"a": [1]}
    elif arg == "int":
        data = 3
    elif arg == "series-for-frame" and not series:
        data = pd.Series([1, 2], name="a")
    elif arg == "frame-for-series" and series:
        data = pd.DataFrame({"a": [1]})
    lazy = bool(case.get("lazy"))
    kw = c20.call_kwargs(case.get("opts") or {})
    if spec.get("drop_invalid_rows") and kw.get("sample") is not None:
        ev.skipped = "sample= together with drop_invalid_rows (population shrinks while validating: n <= len(D) cannot be kept)"
        return ev
    ev.labels += ["kind=" + spec.get("kind", "dataframe"), "lazy" if lazy else "eager", "entry=" + case.get("entry", "schema")]
    for op in sorted(set(case.get("parser_ops", []))):
        ev.labels.append("op=" + op)
    if kw:
        ev.labels.append("subsample")
    if spec.get("drop_invalid_rows"):
        ev.labels.append("drop_invalid_rows")
    if arg:
        ev.labels.append("argument=" + arg)
    ixt = table.get("index")
    multi = bool(ixt and "multi" in ixt)
    fp0, cfg0 = fp.fp_json(schema), fp.config_state()
    snap0 = fp.snapshot(data) if arg is None else None
    o = fp.outcome(lambda: schema.validate(data, lazy=lazy, **kw))
    ev.labels.append("outcome=" + o["kind"])
    ev.nontrivial = bool(case.get("parser_ops")) or bool(kw) or bool(spec.get("drop_invalid_rows")) or \
        o["kind"] == "SchemaErrors" or bool(arg)
    if o["kind"] == "internal":
        if arg and o["exc_type"] == "TypeError" and "expected pd." in o["msg"]:
            pass  # documented usage error for a non-dataframe argument
        else:
            ev.add(f"internal-exception:{o['exc_type']}@{o['where']}", {
                "msg": o["msg"][:200], "lazy": lazy, "drop": bool(spec.get("drop_invalid_rows")), "multiindex": multi,
                "subsample": bool(kw), "argument": arg, "frame_checks": bool(spec.get("checks"))})
    elif o["kind"] == "SchemaErrors" and not lazy:
        ev.add("eager-raises-SchemaErrors", {"reasons": o.get("reasons")})
    elif o["kind"] == "SchemaError" and lazy:
        ev.add("lazy-raises-bare-SchemaError:" + "+".join(o.get("reasons", [])), {"multiindex": multi, "series": series})
    if fp.fp_json(schema) != fp0:
        import json

        ev.add("schema-changed-by-validate:" + o["kind"], {"diff": fp.fp_diff(json.loads(fp0), fp.fingerprint(schema))[:4]})
    if fp.config_state() != cfg0:
        ev.add("config-changed-by-validate:" + o["kind"], {"before": cfg0, "after": fp.config_state()})
        from pandera import config

        config.reset_config_context()
    if snap0 is not None and fp.snapshot(data) != snap0:
        ev.add("data-changed-by-validate:" + o["kind"], {"diff": fp.fp_diff(snap0, fp.snapshot(data))[:4]})
    return ev


def _dup_index_labels(case):
    ix = case["table"].get("index")
    if ix is None:
        return False
    labels = list(zip(*[l["cells"] for l in ix["multi"]])) if "multi" in ix else ix["cells"]
    return len(set(map(repr, labels))) != len(labels)


@known.finding("C06/drop_invalid_rows-non-tabular-failure-cases")
def _kf_drop(family, case, disc):
    return (family == "inputs" and case["spec"].get("drop_invalid_rows") and disc.kind.startswith("internal-exception:")
            and disc.kind.split(":")[1].split("@")[0] in ("TypeError", "IndexError", "KeyError")
            and disc.kind.endswith("@backends/pandas/base.py:drop_invalid_rows"))


@known.finding("C06/drop_invalid_rows-multiindex-labels-eval")
def _kf_drop_eval(family, case, disc):
    ix = case["table"].get("index")
    return (family == "inputs" and case["spec"].get("drop_invalid_rows") and ix is not None and "multi" in ix
            and disc.kind.startswith("internal-exception:") and disc.kind.split(":")[1].split("@")[0] in ("NameError", "SyntaxError", "TypeError")
            and ("drop_invalid_rows" in disc.kind or "<module>" in disc.kind or "eval" in disc.kind))


@known.finding("C06/add_missing_columns-coercion-failure-leaks-ParserError")
def _kf_add_missing(family, case, disc):
    return (family == "inputs" and case["spec"].get("add_missing_columns")
            and disc.kind.startswith("internal-exception:ParserError@") and disc.kind.endswith(":try_coerce"))


@known.finding("C06/multiindex-coerce-with-undeclared-levels")
def _kf_index_coerce_multi(family, case, disc):
    ixs, ixt = case["spec"].get("index"), case["table"].get("index")
    if not (family == "inputs" and ixs is not None and "multi" in ixs and ixt is not None and "multi" in ixt):
        return False
    coerce = ixs.get("coerce") or case["spec"].get("coerce") or any(l.get("coerce") for l in ixs["multi"])
    declared = {l.get("name") for l in ixs["multi"]}
    present = [l.get("name") for l in ixt["multi"]]
    return (coerce and any(p not in declared for p in present)
            and disc.kind == "internal-exception:ValueError@backends/pandas/components.py:coerce_dtype")


@known.finding("C06/joint-uniqueness-report-with-duplicated-index-labels")
def _kf_joint_dup_labels(family, case, disc):
    return (family == "inputs" and case["spec"].get("unique") and _dup_index_labels(case)
            and disc.kind == "internal-exception:ValueError@backends/pandas/error_formatters.py:reshape_failure_cases")


@known.finding("C06/flat-index-schema-on-multiindex-lazy-raises-bare-SchemaError")
def _kf_mismatch(family, case, disc):
    ixs, ixt = case["spec"].get("index"), case["table"].get("index")
    return (family == "inputs" and disc.kind == "lazy-raises-bare-SchemaError:MISMATCH_INDEX" and ixs is not None
            and "multi" not in ixs and ixt is not None and "multi" in ixt)


FAMILIES = [
    Family("inputs", evaluate_inputs, strategy=strat_inputs, n_quick=1200, n_thorough=5000, shards_quick=4, shards_thorough=16,
           required_labels=["drop_invalid_rows", "subsample", "outcome=SchemaErrors", "outcome=usage", "op=coerce-bad"]),
]

from . import plx  # noqa: E402

FAMILIES.append(
    Family("polars_inputs", plx.eval_c06,
           strategy=lambda: plx.strat_case(parsers="many", containers=("df", "df", "lf_full", "lf"), drop_rate=2, subsample_rate=2, regex_rate=2, nan_rate=2, nfc_rate=2),
           n_quick=600, n_thorough=3000, shards_quick=3, shards_thorough=12,
           required_labels=["container=lf", "container=lf_full", "drop_invalid_rows", "subsample", "outcome=SchemaErrors"]))

from . import c06_labels as _labels  # noqa: E402

FAMILIES += _labels.FAMILIES

try:
    from . import c06_faults as _faults

    FAMILIES += _faults.FAMILIES
except ImportError:
    pass
