"""Model / decorated function definitions used by C18 'disabled' (no postponed annotations here)."""
import pandera as pa
import pandera.polars as pap
from pandera.typing import DataFrame


class PdM(pa.DataFrameModel):
    a: int = pa.Field(gt=100)
    b: int


class PlM(pap.DataFrameModel):
    a: int = pa.Field(gt=100)
    b: int


@pa.check_types(lazy=False)
def typed_eager(x: DataFrame[PdM]) -> DataFrame[PdM]:
    return x


@pa.check_types(lazy=True)
def typed_lazy(x: DataFrame[PdM]) -> DataFrame[PdM]:
    return x
