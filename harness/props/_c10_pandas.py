"""C10, pandas engine: dtype specs, the harness's own element classifier, evaluation.

The oracle never re-implements pandera's failure-case machinery.  For every element of the container it
has two independent opinions:

  own(T, v)   harness's own conservative classifier, grounded in the documented numpy/pandas conversion
              semantics:  exact(expected) | fail | null_ok | null_fail | grey
  cv(T, v)    does pandera's T.coerce_value(v) raise?   (only consulted for ``grey`` elements - the property
              text defines the failure cases through coerce_value)

exact      -> must convert, must not be a failure case, output value must equal ``expected``
fail       -> the whole coercion must fail and the element must be a failure case
null_ok    -> T can hold a null: must stay null, must never be a failure case
null_fail  -> T cannot hold nulls: coercion must fail and the element must be listed
grey       -> lossy / convention dependent: listed iff coerce_value raises; no value claim
"""
from __future__ import annotations

import datetime
import decimal
import math
import re

from . import _c10_values as V

INT_BOUNDS = {
    "int8": (-2 ** 7, 2 ** 7 - 1), "int16": (-2 ** 15, 2 ** 15 - 1), "int32": (-2 ** 31, 2 ** 31 - 1),
    "int64": (-2 ** 63, 2 ** 63 - 1), "uint8": (0, 2 ** 8 - 1), "uint16": (0, 2 ** 16 - 1),
    "uint32": (0, 2 ** 32 - 1), "uint64": (0, 2 ** 64 - 1),
}
FLOAT_MANT = {"float16": 11, "float32": 24, "float64": 53}
FLOAT_MAX = {"float16": 65504.0, "float32": 3.4028234663852886e38, "float64": 1.7976931348623157e308}

NP_INTS = ["int8", "int16", "int32", "int64"]
NP_UINTS = ["uint8", "uint16", "uint32", "uint64"]
NP_FLOATS = ["float16", "float32", "float64"]
NP_COMPLEX = ["complex64", "complex128"]
EXT_INTS = ["Int8", "Int16", "Int32", "Int64", "UInt8", "UInt16", "UInt32", "UInt64"]
EXT_FLOATS = ["Float32", "Float64"]

CATS = [["a", "b"], [1, 2, 3], ["1", "a", 2], ["x"], [1.5, 2.5], ["abc", "", "b"], [True, False]]
TZS = [None, "UTC", "Europe/Berlin"]
DECIMALS = [(4, 2), (6, 0), (10, 3), (28, 1)]


def all_specs():
    out = []
    for n in NP_INTS:
        out.append({"k": "npint", "name": n})
    for n in NP_UINTS:
        out.append({"k": "npint", "name": n})
    for n in NP_FLOATS:
        out.append({"k": "npfloat", "name": n})
    for n in NP_COMPLEX:
        out.append({"k": "npcomplex", "name": n})
    out.append({"k": "npbool", "name": "bool"})
    for n in EXT_INTS:
        out.append({"k": "extint", "name": n})
    for n in EXT_FLOATS:
        out.append({"k": "extfloat", "name": n})
    out.append({"k": "extbool", "name": "boolean"})
    out.append({"k": "str", "name": "str"})
    out.append({"k": "string", "name": "string"})
    out.append({"k": "object", "name": "object"})
    for i, c in enumerate(CATS):
        out.append({"k": "category", "name": f"category{i}", "cats": c, "ordered": bool(i % 2)})
    for tz in TZS:
        out.append({"k": "datetime", "name": f"datetime[{tz}]", "tz": tz})
    # a DateTime with its own parsing options (pandas_engine.DateTime(to_datetime_kwargs={"format": ...}))
    out.append({"k": "datetime", "name": "datetime[format=%d/%m/%Y]", "tz": None, "fmt": "%d/%m/%Y"})
    out.append({"k": "date", "name": "date"})
    out.append({"k": "timedelta", "name": "timedelta64[ns]"})
    for p, s in DECIMALS:
        out.append({"k": "decimal", "name": f"decimal({p},{s})", "p": p, "s": s})
    return out


def build_dtype(spec):
    from pandera.engines import pandas_engine as pe

    k = spec["k"]
    if k in ("npint", "npfloat", "npcomplex", "npbool", "extint", "extfloat", "extbool", "str", "string", "object",
             "timedelta"):
        return pe.Engine.dtype(spec["name"])
    if k == "category":
        return pe.Category(categories=list(spec["cats"]), ordered=spec["ordered"])
    if k == "datetime" and spec.get("fmt"):
        return pe.DateTime(to_datetime_kwargs={"format": spec["fmt"]})
    if k == "datetime":
        return pe.DateTime(tz=spec["tz"]) if spec["tz"] else pe.Engine.dtype("datetime64[ns]")
    if k == "date":
        return pe.Date()
    if k == "decimal":
        return pe.Decimal(spec["p"], spec["s"])
    raise ValueError(f"unknown dtype spec {spec!r}")


# ------------------------------------------------------------------- own classifier

_INT_RE = re.compile(r"^-?(0|[1-9][0-9]{0,25})$")
_NUMSTR = {"1": 1.0, "0": 0.0, "-1": -1.0, "2": 2.0, "1.5": 1.5, "300": 300.0, "-0.5": -0.5}
BAD_STR = ("abc", "x")  # not a number, not a date, not a duration, not a boolean literal
_DATE_RE = re.compile(r"^\d{4}-\d{2}-\d{2}$")
FMT_RE = re.compile(r"^\d{2}/\d{2}/\d{4}$")
FMT_CELLS = ["01/02/2021", "13/01/2021", "31/12/1999", "02/13/2021", "28/02/2020"]

EXACT, FAIL, NULL_OK, NULL_FAIL, GREY = "exact", "fail", "null_ok", "null_fail", "grey"


def _float_exact(name, x: float) -> bool:
    """x (python float or int) is exactly representable in float<bits>."""
    import numpy as np

    if isinstance(x, int):
        if abs(x) > 2 ** 1000:
            return False
        try:
            f = float(x)
        except OverflowError:
            return False
        if int(f) != x:
            return False
        x = f
    if math.isinf(x):
        return True
    if abs(x) > FLOAT_MAX[name]:
        return False
    with np.errstate(all="ignore"):
        return float(np.dtype(name).type(x)) == x


def own(spec, v):
    """-> (class, expected) ; expected only meaningful for EXACT."""
    import pandas as pd

    v = V.norm(v)
    k = spec["k"]
    null = V.is_null(v)
    nk = V.null_kind(v) if null else None

    if k == "object":
        return (NULL_OK, None) if null else (EXACT, v)

    if k == "npint" or k == "extint":
        lo, hi = INT_BOUNDS[spec["name"].lower()]
        if null:
            if nk == "NaT":  # NaT of a datetime64 container is reinterpreted as an integer by numpy: no claim
                return (GREY, None)
            if k == "npint":
                return (NULL_FAIL, None)
            return (NULL_OK, None)
        if isinstance(v, bool):
            return (EXACT, int(v))
        if isinstance(v, int):
            return (EXACT, v) if lo <= v <= hi else (GREY, None)
        if isinstance(v, float):
            if math.isinf(v):
                return (GREY, None)
            if v == int(v):
                return (EXACT, int(v)) if abs(v) < 2 ** 53 and lo <= int(v) <= hi else (GREY, None)
            # pandas nullable integers refuse non-integral floats ("cannot safely cast non-equivalent");
            # numpy integers truncate them silently: lossy, no claim.
            return (FAIL, None) if k == "extint" else (GREY, None)
        if isinstance(v, str):
            if v in BAD_STR:
                return (FAIL, None)
            # pandas only parses strings into *nullable* integers when the whole container is strings
            if _INT_RE.match(v) and k == "npint":
                return (EXACT, int(v)) if lo <= int(v) <= hi else (GREY, None)
            return (GREY, None)
        return (GREY, None)

    if k in ("npfloat", "extfloat", "npcomplex"):
        fname = {"complex64": "float32", "complex128": "float64"}.get(spec["name"], spec["name"].lower())
        conv = complex if k == "npcomplex" else float
        if null:
            if nk in ("None", "nan"):
                return (NULL_OK, None)
            if nk == "NA" and k == "extfloat":
                return (NULL_OK, None)
            return (GREY, None)
        if isinstance(v, bool):
            return (EXACT, conv(v))
        if isinstance(v, (int, float)):
            return (EXACT, conv(v)) if _float_exact(fname, v) else (GREY, None)
        if isinstance(v, str):
            if v in _NUMSTR and k == "npfloat":
                return (EXACT, conv(_NUMSTR[v])) if _float_exact(fname, _NUMSTR[v]) else (GREY, None)
            if v in BAD_STR:
                return (FAIL, None)
            return (GREY, None)
        return (GREY, None)

    if k == "npbool":
        if isinstance(v, bool):
            return (EXACT, v)
        return (GREY, None)

    if k == "extbool":
        if null:
            return (NULL_OK, None) if nk in ("None", "nan", "NA") else (GREY, None)
        if isinstance(v, bool):
            return (EXACT, v)
        if isinstance(v, str) and v in BAD_STR:
            return (FAIL, None)
        return (GREY, None)

    if k in ("str", "string"):
        if null:
            return (NULL_OK, None) if nk != "NaT" else (GREY, None)
        if isinstance(v, str):
            return (EXACT, v)
        if isinstance(v, bool):
            return (EXACT, str(v))
        if isinstance(v, int):
            return (EXACT, str(v))
        return (GREY, None)

    if k == "category":
        cats = spec["cats"]
        if null:
            return (NULL_OK, None) if nk in ("None", "nan", "NA") else (GREY, None)
        if cats and all(isinstance(c, bool) for c in cats):
            # boolean categories: True == 1 == 1.0 and False == 0 (python equality is what membership means)
            if isinstance(v, bool):
                return (EXACT, v) if v in cats else (FAIL, None)
            if isinstance(v, (int, float)) and not (isinstance(v, float) and (math.isnan(v) or math.isinf(v))):
                return (EXACT, bool(v)) if v in (0, 1) and bool(v) in cats else (FAIL, None) if v not in (0, 1) else (GREY, None)
            if isinstance(v, str):
                return (FAIL, None)
            return (GREY, None)
        if isinstance(v, (str, int, float)) and not isinstance(v, bool):
            same_type = [c for c in cats if type(c) is type(v) and c == v]
            if same_type:
                return (EXACT, v)
            if isinstance(v, float) and math.isinf(v):
                return (GREY, None)
            if not any((not isinstance(c, str)) == (not isinstance(v, str)) and c == v for c in cats):
                return (FAIL, None)
        return (GREY, None)

    if k in ("datetime", "date"):
        tz = spec.get("tz")
        if null:
            return (NULL_OK, None)
        if spec.get("fmt"):
            # an explicit format: strings in that format convert to the moment they spell, strings in another
            # (ISO) format or no format at all cannot be converted; everything else is left unclassified
            if isinstance(v, str):
                if FMT_RE.match(v):
                    try:
                        return (EXACT, pd.Timestamp(datetime.datetime.strptime(v, spec["fmt"])))
                    except ValueError:
                        return (FAIL, None)
                if _DATE_RE.match(v) or v in BAD_STR:
                    return (FAIL, None)
            return (GREY, None)

        def fin(ts):
            if k == "date":
                return ts.date()
            return ts

        if isinstance(v, pd.Timestamp):
            if k == "date":
                return (EXACT, v.date()) if v.tzinfo is None else (GREY, None)
            if v.tzinfo is None:
                return (EXACT, v.tz_localize(tz) if tz else v)
            return (EXACT, v.tz_convert(tz)) if tz else (GREY, None)
        if isinstance(v, bool):
            return (FAIL, None)
        if isinstance(v, str):
            if _DATE_RE.match(v):
                try:
                    d = datetime.date.fromisoformat(v)
                except ValueError:
                    return (FAIL, None)  # e.g. 2020-02-30
                ts = pd.Timestamp(d)
                return (EXACT, fin(ts.tz_localize(tz) if tz else ts))
            if v in BAD_STR:
                return (FAIL, None)
            return (GREY, None)
        if type(v) is datetime.date:
            ts = pd.Timestamp(v)
            return (EXACT, fin(ts.tz_localize(tz) if tz else ts))
        return (GREY, None)

    if k == "timedelta":
        if null:
            return (NULL_OK, None)
        if isinstance(v, pd.Timedelta):
            return (EXACT, v)
        if isinstance(v, bool):
            return (GREY, None)
        if isinstance(v, int):
            return (EXACT, pd.Timedelta(v, "ns")) if abs(v) < 2 ** 62 else (GREY, None)
        if isinstance(v, str):
            if v in ("1s", "1 days", "2 days 03:00:00"):
                return (EXACT, pd.Timedelta(v))
            if v in BAD_STR:
                return (FAIL, None)
        return (GREY, None)

    if k == "decimal":
        p, s = spec["p"], spec["s"]
        if null:
            return (NULL_OK, None)
        d = None
        if isinstance(v, bool):
            return (GREY, None)
        if isinstance(v, int):
            d = decimal.Decimal(v)
        elif isinstance(v, decimal.Decimal):
            d = v if v.is_finite() else None
        elif isinstance(v, str):
            if v in BAD_STR:
                return (FAIL, None)
            if re.match(r"^-?\d{1,20}(\.\d{1,10})?$", v):
                d = decimal.Decimal(v)
        if d is None:
            return (GREY, None)
        sign, digits, exp = d.as_tuple()
        scale = max(0, -exp)
        int_digits = max(1, len(digits) + exp) if d != 0 else 1
        if scale <= s and int_digits + s <= p:
            return (EXACT, d)
        return (GREY, None)

    return (GREY, None)


def can_hold_null(spec):
    return spec["k"] not in ("npint", "npbool")


def same_value(spec, got, exp) -> bool:
    """got: element of the coerced container; exp: harness's expected python value."""
    import numpy as np
    import pandas as pd

    got = V.norm(got)
    if V.is_null(got):
        return False
    k = spec["k"]
    try:
        if k == "object":
            return got is exp or bool(got == exp)
        if k in ("npint", "extint"):
            return isinstance(got, int) and not isinstance(got, bool) and got == exp
        if k in ("npfloat", "extfloat"):
            return isinstance(got, float) and got == exp
        if k == "npcomplex":
            return complex(got) == exp
        if k in ("npbool", "extbool"):
            return isinstance(got, bool) and got == exp
        if k in ("str", "string"):
            return isinstance(got, str) and got == exp
        if k == "category":
            return type(got) is type(exp) and got == exp
        if k == "datetime":
            if not isinstance(got, pd.Timestamp):
                return False
            if (got.tzinfo is None) != (exp.tzinfo is None):
                return False
            return got == exp
        if k == "date":
            return type(got) is datetime.date and got == exp
        if k == "timedelta":
            return isinstance(got, pd.Timedelta) and got == exp
        if k == "decimal":
            return isinstance(got, decimal.Decimal) and got == exp
    except Exception:
        return False
    return False


# ----------------------------------------------------------------------- containers


def build_container(case):
    """-> (container kind, pandas object handed to pandera, list of python elements, list of labels)."""
    import pandas as pd

    vals = [V.decode(c) for c in case["cells"]]
    phys = case.get("phys", "object")
    kind = case["container"]
    name = case.get("name", "a")
    if kind == "index":
        obj = pd.Index(vals, dtype=object, name=name) if phys == "object" else pd.Index(vals, name=name)
        elems = list(obj.astype(object))
        return obj, elems, list(elems)
    labels = case.get("index")
    idx = None if labels is None else pd.Index([V.decode(l) for l in labels][: len(vals)], dtype=object)
    if idx is not None and len(idx) != len(vals):
        idx = None
    if phys == "category":
        # categorical data that still declares a category no element carries (e.g. after rows were filtered out)
        nn = [v for v in vals if not V.is_null(V.norm(v))]
        cats = []
        for v in nn:
            if not any(type(c) is type(v) and c == v for c in cats):
                cats.append(v)
        try:
            cat = pd.Categorical(vals, categories=cats + [case.get("unused_category", "zz_unused")])
            ser = pd.Series(cat, index=idx, name=name)
        except (TypeError, ValueError):
            ser = pd.Series(vals, dtype=object, index=idx, name=name)
        elems = list(ser.astype(object))
        return ser, elems, list(ser.index)
    ser = pd.Series(vals, dtype=object, index=idx, name=name) if phys == "object" else \
        pd.Series(vals, index=idx, name=name)
    elems = list(ser.astype(object))
    return ser, elems, list(ser.index)


def datetime_precondition(elems):
    """pd.to_datetime infers ONE string format per container and cannot mix naive with aware values; both are
    documented pandas semantics of the vectorised conversion, outside element-wise convertibility.  Only used
    to gate the rule "a container of individually convertible elements must convert"."""
    import pandas as pd

    fmts = set()
    zones = set()
    aware = naive = False
    for v in elems:
        if V.is_null(v):
            continue
        if isinstance(v, str):
            fmts.add(re.sub(r"\d", "9", v))
            naive = True
        elif isinstance(v, pd.Timestamp) and v.tzinfo is not None:
            aware = True
            zones.add(str(v.tzinfo))
        else:
            naive = True
    if aware and naive:
        return "datetime-mixed-naive-aware"
    if len(zones) > 1:
        return "datetime-mixed-timezones"
    if len(fmts) > 1:
        return "datetime-mixed-string-formats"
    return None
