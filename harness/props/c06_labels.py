"""C06 family `label_kinds`: column labels that are neither text nor plain numbers (timestamps, dates, periods, decimals,
enum members, bytes, floats - "one column per month / bucket" frames).  Every scenario violates its schema in one way, so
validate must end in SchemaError (eager) / SchemaErrors (lazy) - never in an internal exception - the lazy report must be
readable, and the schema must be as before."""
from __future__ import annotations

import copy

from hypothesis import strategies as st

from .. import fp
from ..core import Eval, Family

LABEL_KINDS = ["ts", "date", "period", "decimal", "enum", "bytes", "float", "str", "int"]
SCENARIOS = ["missing-required", "strict-extra", "check-fails", "check-raises", "wrong-dtype", "not-ordered", "joint-duplicates",
             "nulls", "column-duplicates", "two-errors", "coerce-fails", "frame-check-fails", "add-missing-ok", "filter-ok",
             "drop-ok"]
RETURNS = {"add-missing-ok", "filter-ok", "drop-ok"}  # scenarios in which a parsing option repairs the violation


def _labels(kind):
    import datetime
    import decimal
    import enum

    import pandas as pd

    if kind == "ts":
        return pd.Timestamp("2024-01-01"), pd.Timestamp("2024-02-01")
    if kind == "date":
        return datetime.date(2024, 1, 1), datetime.date(2024, 2, 1)
    if kind == "period":
        return pd.Period("2024-01"), pd.Period("2024-02")
    if kind == "decimal":
        return decimal.Decimal("0.1"), decimal.Decimal("0.2")
    if kind == "enum":
        global _Quarter
        try:
            _Quarter
        except NameError:
            _Quarter = enum.Enum("Quarter", {"Q1": 1, "Q2": 2})
        return _Quarter.Q1, _Quarter.Q2
    if kind == "bytes":
        return b"a", b"b"
    if kind == "float":
        return 1.5, 2.5
    if kind == "str":
        return "jan", "feb"
    return 1, 2


def _raises(s):
    raise ZeroDivisionError("raised by the user's check")


def build(case):
    import numpy as np
    import pandas as pd
    import pandera as pa

    a, b = _labels(case["labels"])
    if case.get("swap"):
        a, b = b, a
    sc = case["scenario"]
    one = pd.DataFrame({a: [1.0, 2.0]})
    both = pd.DataFrame({a: [1.0, 2.0], b: [3.0, 4.0]})
    if sc == "missing-required":
        return pa.DataFrameSchema({a: pa.Column(float), b: pa.Column(float)}), one
    if sc == "strict-extra":
        return pa.DataFrameSchema({a: pa.Column(float)}, strict=True), both
    if sc == "check-fails":
        return pa.DataFrameSchema({a: pa.Column(float, pa.Check.ge(2)), b: pa.Column(float)}), both
    if sc == "check-raises":
        return pa.DataFrameSchema({a: pa.Column(float, pa.Check(_raises)), b: pa.Column(float)}), both
    if sc == "wrong-dtype":
        return pa.DataFrameSchema({a: pa.Column(int), b: pa.Column(float)}), both
    if sc == "not-ordered":
        return pa.DataFrameSchema({b: pa.Column(float), a: pa.Column(float)}, ordered=True), both
    if sc == "joint-duplicates":
        return pa.DataFrameSchema({a: pa.Column(float), b: pa.Column(float)}, unique=[a, b]), pd.DataFrame({a: [1.0, 1.0], b: [3.0, 3.0]})
    if sc == "nulls":
        return pa.DataFrameSchema({a: pa.Column(float), b: pa.Column(float)}), pd.DataFrame({a: [1.0, np.nan], b: [3.0, 4.0]})
    if sc == "column-duplicates":
        return pa.DataFrameSchema({a: pa.Column(float, unique=True), b: pa.Column(float)}), pd.DataFrame({a: [1.0, 1.0], b: [3.0, 4.0]})
    if sc == "coerce-fails":
        return pa.DataFrameSchema({a: pa.Column(int, coerce=True), b: pa.Column(float)}), pd.DataFrame({a: ["x", "1"], b: [3.0, 4.0]})
    if sc == "frame-check-fails":
        return pa.DataFrameSchema({a: pa.Column(float), b: pa.Column(float)}, checks=pa.Check(lambda df: df[a] < df[b] - 5)), both
    if sc == "add-missing-ok":
        return pa.DataFrameSchema({a: pa.Column(float), b: pa.Column(float, default=0.5)}, add_missing_columns=True), one
    if sc == "filter-ok":
        return pa.DataFrameSchema({a: pa.Column(float)}, strict="filter"), both
    if sc == "drop-ok":
        return pa.DataFrameSchema({a: pa.Column(float, pa.Check.ge(2)), b: pa.Column(float)}, drop_invalid_rows=True), both
    # two errors at once: a missing column and a failing check
    return pa.DataFrameSchema({a: pa.Column(float, pa.Check.ge(2)), b: pa.Column(float)}), one


@st.composite
def strat(draw):
    return {"labels": draw(st.sampled_from(LABEL_KINDS)), "scenario": draw(st.sampled_from(SCENARIOS)),
            "lazy": draw(st.booleans()), "swap": draw(st.booleans())}


def evaluate(case):
    ev = Eval()
    schema, data = build(case)
    before = copy.deepcopy(schema)
    data0 = data.copy()
    ev.labels += ["labels=" + case["labels"], "scenario=" + case["scenario"], "lazy" if case["lazy"] else "eager"]
    ev.nontrivial = case["labels"] not in ("str", "int")
    lazy = case["lazy"] or case["scenario"] == "drop-ok"  # (drop_invalid_rows is documented for lazy validation)
    o = fp.outcome(lambda: schema.validate(data, lazy=lazy))
    want = "ok" if case["scenario"] in RETURNS else "SchemaErrors" if lazy else "SchemaError"
    if o["kind"] == "internal":
        ev.add(f"internal-exception:{o['exc_type']}@{o['where']}", {"msg": o["msg"][:200], "scenario": case["scenario"]})
    elif o["kind"] != want:
        ev.add(f"outcome-not-in-channel:{o['kind']}:{case['scenario']}", {"wanted": want})
    elif want == "ok":
        exp_cols = {"add-missing-ok": 2, "filter-ok": 1, "drop-ok": 2}[case["scenario"]]
        exp_rows = 1 if case["scenario"] == "drop-ok" else 2
        if getattr(o["value"], "shape", None) != (exp_rows, exp_cols):
            ev.add("parsed-result-wrong-shape:" + case["scenario"], {"shape": list(getattr(o["value"], "shape", ())), "wanted": [exp_rows, exp_cols]})
    elif lazy:
        try:
            fc = o["exc"].failure_cases
            str(o["exc"])
            if len(fc) == 0:
                ev.add("lazy-report-empty:" + case["scenario"], {})
        except Exception as e:
            ev.add(f"lazy-report-unreadable:{type(e).__name__}", {"msg": str(e)[:200], "scenario": case["scenario"]})
    else:
        try:
            str(o["exc"])
        except Exception as e:
            ev.add(f"error-message-unreadable:{type(e).__name__}", {"msg": str(e)[:200], "scenario": case["scenario"]})
    try:
        same = schema == before
    except Exception as e:
        same = True
        ev.add(f"schema-not-comparable-after-validate:{type(e).__name__}", {"msg": str(e)[:200]})
    if not same:
        ev.add("schema-changed-by-validate:" + o["kind"], {"scenario": case["scenario"]})
    if not data.equals(data0) or list(data.columns) != list(data0.columns):
        ev.add("data-changed-by-validate:" + o["kind"], {"scenario": case["scenario"]})
    return ev


FAMILIES = [
    Family("label_kinds", evaluate, strategy=strat, n_quick=200, n_thorough=400, shards_quick=2, shards_thorough=2,
           required_labels=["labels=ts", "labels=decimal", "scenario=missing-required", "lazy", "eager"]),
]
