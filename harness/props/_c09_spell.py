"""C09 helpers: JSON descriptors of dtype *spellings*, and native-library introspection ("tags").

A spelling descriptor is a small JSON expression that rebuilds the Python object handed to
``Engine.dtype``:

    {"s": "int64"}                                        a string alias
    {"attr": "numpy:int64"}                               module attribute (class / function)
    {"call": "pandas:DatetimeTZDtype", "args": ["ns", "UTC"], "kw": {...}}   a constructed instance
    {"map": {"a": <desc>}}                                a dict argument
    {"lit": <json>}                                       a literal (None, 1, [..])

Arguments of a call: JSON scalars are literals, dicts are nested descriptors, lists are lists of arguments.

Tags are computed from the *native* libraries (numpy / pandas / pyarrow / polars / pyspark), never from
pandera:  {"kind": bool|int|uint|float|complex|decimal|str|bytes|object|datetime|date|timedelta|time|
category|null|nested|other, "bits": int|None, "variant": np|ext|arrow|None, "tz": str|None}
"""
from __future__ import annotations

import datetime
import decimal
import importlib
import inspect

PHYSICAL_KINDS = ("bool", "int", "uint", "float", "complex", "datetime", "date", "timedelta", "time")


# --------------------------------------------------------------------------- build


def _attr(path):
    mod, _, qual = path.partition(":")
    obj = importlib.import_module(mod)
    for p in qual.split("."):
        obj = getattr(obj, p)
    return obj


def build_arg(a):
    if isinstance(a, dict):
        return build(a)
    if isinstance(a, list):
        return [build_arg(x) for x in a]
    return a


def build(desc):
    if "s" in desc:
        return desc["s"]
    if "lit" in desc:
        return desc["lit"]
    if "attr" in desc:
        return _attr(desc["attr"])
    if "map" in desc:
        return {k: build_arg(v) for k, v in desc["map"].items()}
    if "tuple" in desc:
        return tuple(build_arg(x) for x in desc["tuple"])
    if "call" in desc:
        fn = _attr(desc["call"])
        args = [build_arg(a) for a in desc.get("args", [])]
        kw = {k: build_arg(v) for k, v in desc.get("kw", {}).items()}
        return fn(*args, **kw)
    raise ValueError(f"bad descriptor {desc!r}")


# ------------------------------------------------------------------------ describe

_PA_SIMPLE = ["bool_", "int8", "int16", "int32", "int64", "uint8", "uint16", "uint32", "uint64", "float16",
              "float32", "float64", "string", "large_string", "binary", "large_binary", "null", "date32", "date64",
              "month_day_nano_interval", "string_view", "binary_view"]


def describe_pa(t):
    import pyarrow as pa

    for name in _PA_SIMPLE:
        f = getattr(pa, name, None)
        if f is None:
            continue
        try:
            if f() == t and str(f()) == str(t):
                return {"call": "pyarrow:" + name}
        except Exception:
            continue
    T = pa.types
    if T.is_timestamp(t):
        return {"call": "pyarrow:timestamp", "args": [t.unit, t.tz]}
    if T.is_duration(t):
        return {"call": "pyarrow:duration", "args": [t.unit]}
    if T.is_time32(t):
        return {"call": "pyarrow:time32", "args": [t.unit]}
    if T.is_time64(t):
        return {"call": "pyarrow:time64", "args": [t.unit]}
    if T.is_decimal128(t):
        return {"call": "pyarrow:decimal128", "args": [t.precision, t.scale]}
    if T.is_decimal256(t):
        return {"call": "pyarrow:decimal256", "args": [t.precision, t.scale]}
    if T.is_fixed_size_binary(t):
        return {"call": "pyarrow:binary", "args": [t.byte_width]}
    if T.is_fixed_size_list(t):
        return {"call": "pyarrow:list_", "args": [describe_pa(t.value_type), t.list_size]}
    if T.is_large_list(t):
        return {"call": "pyarrow:large_list", "args": [describe_pa(t.value_type)]}
    if T.is_list(t):
        return {"call": "pyarrow:list_", "args": [describe_pa(t.value_type)]}
    if T.is_struct(t):
        return {"call": "pyarrow:struct", "args": [{"map": {t.field(i).name: describe_pa(t.field(i).type)
                                                             for i in range(t.num_fields)}}]}
    if T.is_map(t):
        return {"call": "pyarrow:map_", "args": [describe_pa(t.key_type), describe_pa(t.item_type)]}
    if T.is_dictionary(t):
        return {"call": "pyarrow:dictionary", "args": [describe_pa(t.index_type), describe_pa(t.value_type), t.ordered]}
    return None


def _qual(obj):
    mod = getattr(obj, "__module__", None)
    qual = getattr(obj, "__qualname__", None) or getattr(obj, "__name__", None)
    if not mod or not qual or "<" in qual:
        return None
    return f"{mod}:{qual}"


def _same(a, b):
    if a is b:
        return True
    try:
        return type(a) is type(b) and bool(a == b) and not inspect.isclass(a) and not inspect.isfunction(a)
    except Exception:
        return False


def describe(obj):
    """Descriptor of a registry key (or None when this harness cannot spell it)."""
    if isinstance(obj, str):
        return {"s": obj}
    if obj is None:
        return {"lit": None}
    # classes, functions, polars DataTypeClass objects
    if inspect.isclass(obj) or inspect.isroutine(obj) or type(obj).__name__ == "cython_function_or_method":
        path = _qual(obj)
        # prefer the public module path for well-known libraries
        for pub in ("numpy", "pandas", "pyarrow", "polars", "typing", "pandera.dtypes"):
            name = getattr(obj, "__name__", None)
            try:
                if name and getattr(importlib.import_module(pub), name, None) is obj:
                    path = f"{pub}:{name}"
                    break
            except Exception:
                pass
        if path:
            try:
                if _attr(path) is obj:
                    return {"attr": path}
            except Exception:
                pass
        return None
    try:
        import numpy as np

        if isinstance(obj, np.dtype):
            d = {"call": "numpy:dtype", "args": [str(obj)]}
            return d if build(d) == obj else None
    except ImportError:
        pass
    try:
        import pandas as pd
        import pyarrow as pa

        if isinstance(obj, pd.ArrowDtype):
            inner = describe_pa(obj.pyarrow_dtype)
            return None if inner is None else {"call": "pandas:ArrowDtype", "args": [inner]}
        if isinstance(obj, pa.DataType):
            return describe_pa(obj)
    except ImportError:
        pass
    # generic: default-constructible instance
    cls = type(obj)
    path = None
    for pub in ("pandas", "polars", "pandera.dtypes", "pyspark.sql.types"):
        try:
            if getattr(importlib.import_module(pub), cls.__name__, None) is cls:
                path = f"{pub}:{cls.__name__}"
                break
        except Exception:
            pass
    path = path or _qual(cls)
    if path:
        try:
            d = {"call": path}
            if _same(build(d), obj):
                return d
        except Exception:
            pass
    return None


def keyform(obj):
    """Class of spelling (label)."""
    import numpy as np

    if isinstance(obj, str):
        return "str"
    mod = getattr(obj, "__module__", "") or ""
    tmod = type(obj).__module__ or ""
    if type(obj).__name__ == "cython_function_or_method" or (inspect.isroutine(obj) and mod.startswith("pyarrow")):
        return "pyarrow-fn"
    if inspect.isroutine(obj):
        return "typing-fn"
    if type(obj).__name__ == "DataTypeClass":
        return "polars-class"
    if inspect.isclass(obj):
        if mod == "pandera.dtypes":
            return "abstract-class"
        if mod.startswith("pandera."):
            return "engine-class"
        if mod == "builtins" or mod in ("datetime", "decimal"):
            return "py-class"
        if mod.startswith("numpy"):
            return "np-class"
        if mod.startswith("pandas"):
            return "pd-class"
        if mod.startswith("pyarrow"):
            return "pyarrow-class"
        if mod.startswith("pyspark"):
            return "pyspark-class"
        if mod.startswith("polars"):
            return "polars-class"
        return "other-class"
    if isinstance(obj, np.dtype):
        return "np-dtype"
    if tmod == "pandera.dtypes":
        return "abstract-instance"
    if tmod.startswith("pandera."):
        return "engine-instance"
    if type(obj).__name__ == "ArrowDtype":
        return "pd-arrowdtype"
    if tmod.startswith("pandas"):
        return "pd-instance"
    if tmod.startswith("pyarrow"):
        return "pyarrow-instance"
    if tmod.startswith("polars"):
        return "polars-instance"
    if tmod.startswith("pyspark"):
        return "pyspark-instance"
    if tmod.startswith("typing") or hasattr(obj, "__origin__"):
        return "typing-generic"
    return "other"


# ---------------------------------------------------------------------------- tags


def _tag(kind, bits=None, variant=None, tz=None, unit=None):
    return {"kind": kind, "bits": bits, "variant": variant, "tz": tz, "unit": unit}


def _tzname(tz):
    if tz is None:
        return None
    if isinstance(tz, str):
        s = tz
    else:
        s = getattr(tz, "zone", None) or getattr(tz, "key", None) or str(tz)
    if s in ("UTC", "utc", "UTC+00:00", "+00:00", "Z"):
        return "UTC"
    return s


def tag_numpy(dt):
    import numpy as np

    dt = np.dtype(dt)
    k = dt.kind
    if k == "b":
        return _tag("bool", None, "np")
    if k == "i":
        return _tag("int", dt.itemsize * 8, "np")
    if k == "u":
        return _tag("uint", dt.itemsize * 8, "np")
    if k == "f":
        return _tag("float", dt.itemsize * 8, "np")
    if k == "c":
        return _tag("complex", dt.itemsize * 8, "np")
    if k == "M":
        u = np.datetime_data(dt)[0]
        return _tag("datetime", 64, "np", None, None if u == "generic" else u)
    if k == "m":
        u = np.datetime_data(dt)[0]
        return _tag("timedelta", 64, "np", None, None if u == "generic" else u)
    if k == "O":
        return _tag("object", None, "np")
    if k in ("U", "T"):  # "T": numpy 2 variable-width StringDType
        return _tag("str", None, "np")
    if k == "S":
        return _tag("bytes", None, "np")
    return _tag("other", None, "np")


def tag_pyarrow(t):
    import pyarrow as pa

    T = pa.types
    v = "arrow"
    if T.is_boolean(t):
        return _tag("bool", None, v)
    if T.is_signed_integer(t):
        return _tag("int", t.bit_width, v)
    if T.is_unsigned_integer(t):
        return _tag("uint", t.bit_width, v)
    if T.is_floating(t):
        return _tag("float", t.bit_width, v)
    if T.is_decimal(t):
        return _tag("decimal", None, v)
    if T.is_string(t) or T.is_large_string(t):
        return _tag("str", 64 if T.is_large_string(t) else 32, v)
    if T.is_binary(t) or T.is_large_binary(t) or T.is_fixed_size_binary(t):
        return _tag("bytes", None, v)
    if T.is_timestamp(t):
        return _tag("datetime", 64, v, _tzname(t.tz), t.unit)
    if T.is_date(t):
        return _tag("date", t.bit_width, v)
    if T.is_duration(t):
        return _tag("timedelta", 64, v, None, t.unit)
    if T.is_time(t):
        return _tag("time", t.bit_width, v, None, t.unit)
    if T.is_null(t):
        return _tag("null", None, v)
    if T.is_nested(t) or T.is_dictionary(t):
        return _tag("nested", None, v)
    return _tag("other", None, v)


def tag_pandas(n):
    """n: numpy dtype or pandas extension dtype instance."""
    import numpy as np
    import pandas as pd

    if isinstance(n, np.dtype):
        t = tag_numpy(n)
        if t["kind"] in ("bytes", "other"):  # pandas stores bytes / void as object
            t = _tag("object", None, "np")
        return t
    if isinstance(n, pd.ArrowDtype):
        return tag_pyarrow(n.pyarrow_dtype)
    if isinstance(n, pd.BooleanDtype):
        return _tag("bool", None, "ext")
    if isinstance(n, pd.StringDtype):
        return _tag("str", None, "ext:" + str(n.storage))
    if isinstance(n, pd.CategoricalDtype):
        return _tag("category", None, "ext")
    if isinstance(n, pd.DatetimeTZDtype):
        return _tag("datetime", 64, "ext", _tzname(n.tz), n.unit)
    if isinstance(n, (pd.PeriodDtype, pd.IntervalDtype, pd.SparseDtype)):
        return _tag("other", None, "ext:" + type(n).__name__)
    npdt = getattr(n, "numpy_dtype", None)
    if isinstance(npdt, np.dtype) and type(n).__module__.startswith("pandas.core.arrays"):
        t = tag_numpy(npdt)
        t["variant"] = "ext"
        return t
    return None


_PL_BITS = {"Int8": ("int", 8), "Int16": ("int", 16), "Int32": ("int", 32), "Int64": ("int", 64), "Int128": ("int", 128),
            "UInt8": ("uint", 8), "UInt16": ("uint", 16), "UInt32": ("uint", 32), "UInt64": ("uint", 64),
            "Float32": ("float", 32), "Float64": ("float", 64)}


def tag_polars(n):
    import polars as pl

    try:
        base = n.base_type()
    except Exception:
        return None
    name = getattr(base, "__name__", str(base))
    if name in _PL_BITS:
        k, b = _PL_BITS[name]
        return _tag(k, b, "pl")
    if name == "Boolean":
        return _tag("bool", None, "pl")
    if name in ("String", "Utf8"):
        return _tag("str", None, "pl")
    if name == "Binary":
        return _tag("bytes", None, "pl")
    if name == "Date":
        return _tag("date", 32, "pl")
    if name == "Datetime":
        inst = isinstance(n, pl.DataType)
        return _tag("datetime", 64, "pl", _tzname(getattr(n, "time_zone", None)) if inst else None,
                    getattr(n, "time_unit", None) if inst else None)
    if name == "Duration":
        inst = isinstance(n, pl.DataType)
        return _tag("timedelta", 64, "pl", None, getattr(n, "time_unit", None) if inst else None)
    if name == "Time":
        return _tag("time", 64, "pl")
    if name == "Decimal":
        return _tag("decimal", None, "pl")
    if name in ("Categorical", "Enum"):
        return _tag("category", None, "pl")
    if name in ("List", "Array", "Struct"):
        return _tag("nested", None, "pl")
    if name == "Null":
        return _tag("null", None, "pl")
    if name == "Object":
        return _tag("object", None, "pl")
    return _tag("other", None, "pl")


_SPARK = {"ByteType": ("int", 8), "ShortType": ("int", 16), "IntegerType": ("int", 32), "LongType": ("int", 64),
          "FloatType": ("float", 32), "DoubleType": ("float", 64), "BooleanType": ("bool", None),
          "StringType": ("str", None), "BinaryType": ("bytes", None), "DateType": ("date", 32),
          "TimestampType": ("datetime", 64), "TimestampNTZType": ("datetime", 64), "DecimalType": ("decimal", None),
          "ArrayType": ("nested", None), "MapType": ("nested", None), "StructType": ("nested", None)}


def tag_pyspark(n):
    name = type(n).__name__
    if name in _SPARK:
        k, b = _SPARK[name]
        return _tag(k, b, "spark")
    return None


def native_tag(engine, n):
    """Tag of a native dtype object as boxed in ``DataType.type`` of the given engine (None = unknown)."""
    try:
        import numpy as np

        if n is None:
            return None
        if engine == "numpy":
            return tag_numpy(n) if isinstance(n, np.dtype) else None
        if engine == "pandas":
            return tag_pandas(n)
        if engine == "polars":
            return tag_polars(n)
        if engine == "pyspark":
            return tag_pyspark(n)
    except Exception:
        return None
    return None


_BUILTIN = {
    bool: ("bool", None), int: ("int", 64), float: ("float", 64), complex: ("complex", 128), str: ("str", None),
    bytes: ("bytes", None), object: ("object", None), datetime.datetime: ("datetime", 64),
    datetime.date: ("date", None), datetime.timedelta: ("timedelta", 64), datetime.time: ("time", None),
    decimal.Decimal: ("decimal", None),
}

_POLARS_ALIAS = {
    **{f"int{b}": ("int", b) for b in (8, 16, 32, 64)}, **{f"uint{b}": ("uint", b) for b in (8, 16, 32, 64)},
    "float32": ("float", 32), "float64": ("float", 64), "bool": ("bool", None), "string": ("str", None),
    "binary": ("bytes", None), "date": ("date", None), "datetime": ("datetime", 64), "timedelta": ("timedelta", 64),
    "time": ("time", None), "decimal": ("decimal", None), "category": None, "null": ("null", None),
    "object": ("object", None),
}

# documented results of pandas.api.types.infer_dtype that pandera registers as aliases (pandas engine)
_PANDAS_INFER_ALIAS = {"integer": ("int", 64), "floating": ("float", 64), "mixed-integer-float": ("float", 64),
                       "mixed-integer": ("object", None), "mixed": ("object", None), "decimal": ("decimal", None),
                       "date": ("date", None), "datetime": ("datetime", 64), "timedelta": ("timedelta", 64),
                       "categorical": ("category", None)}


def _abstract_tag(cls):
    from pandera import dtypes as D

    if issubclass(cls, D.Bool):
        return _tag("bool")
    if issubclass(cls, D.Int):
        signed = cls.__dataclass_fields__["signed"].default if "signed" in cls.__dataclass_fields__ else True
        return _tag("int" if signed else "uint", cls.bit_width)
    if issubclass(cls, D.Float):
        return _tag("float", cls.bit_width)
    if issubclass(cls, D.Complex):
        return _tag("complex", cls.bit_width)
    if issubclass(cls, D.Decimal):
        return _tag("decimal")
    if issubclass(cls, D.Category):
        return _tag("category")
    if issubclass(cls, D.String):
        return _tag("str")
    if issubclass(cls, D.Timestamp):
        return _tag("datetime", 64)
    if issubclass(cls, D.Date):
        return _tag("date")
    if issubclass(cls, D.Timedelta):
        return _tag("timedelta", 64)
    if issubclass(cls, D.Binary):
        return _tag("bytes")
    return None


def _spark_alias(s):
    import pyspark.sql.types as pst

    for name in _SPARK:
        cls = getattr(pst, name, None)
        if cls is None or name in ("ArrayType", "MapType", "StructType"):
            continue
        inst = cls()
        names = {name, name + "()", inst.typeName(), inst.simpleString()}
        if name == "DecimalType":
            names |= {"decimal"}
        if s in names:
            return tag_pyspark(inst)
    return None


def key_tag(engine, obj):
    """What the *spelling itself* denotes, according to the native libraries / the abstract pandera hierarchy /
    Python.  None = this harness has no independent opinion (unscored)."""
    import numpy as np

    try:
        form = keyform(obj)
        if form in ("abstract-class", "abstract-instance"):
            return _abstract_tag(obj if inspect.isclass(obj) else type(obj))
        if form == "py-class":
            if obj not in _BUILTIN:
                return None
            if engine == "pyspark" and obj in (int, float, bytes, complex, object):
                return None  # Spark SQL names: "int" is 32 bit, "float" is 32 bit; pandera documents no Python mapping
            k, b = _BUILTIN[obj]
            t = _tag(k, b)
            if engine == "pandas" and k == "bytes":
                t = _tag("object")
            return t
        if form == "str":
            if engine == "numpy":
                try:
                    t = tag_numpy(np.dtype(obj))
                except Exception:
                    return None
                if t["kind"] in ("datetime", "timedelta"):
                    t["unit"] = None  # numpy engine boxes generic datetime64 / timedelta64[ns] only
                return t
            if engine == "pandas":
                import pandas as pd

                if obj in _PANDAS_INFER_ALIAS:
                    return _tag(*_PANDAS_INFER_ALIAS[obj])
                try:
                    n = pd.api.types.pandas_dtype(obj)
                except Exception:
                    return None
                t = tag_pandas(n)
                if t and t["kind"] in ("datetime", "timedelta") and t["variant"] == "np":
                    t["unit"] = None  # pandera documents that only ns is supported for numpy datetimes
                return t
            if engine == "polars":
                v = _POLARS_ALIAS.get(obj)
                return _tag(*v) if v else None
            if engine == "pyspark":
                return _spark_alias(obj)
        if form == "np-class":
            try:
                t = tag_numpy(np.dtype(obj))
            except Exception:
                return None
            if engine == "pandas":
                t = tag_pandas(np.dtype(obj))
            if t and engine != "numpy" and t["kind"] in ("datetime", "timedelta"):
                t["unit"] = None
            return t if engine in ("numpy", "pandas") else None
        if form == "np-dtype":
            t = tag_pandas(obj) if engine == "pandas" else tag_numpy(obj)
            if t["kind"] in ("datetime", "timedelta"):
                t["unit"] = None
            return t if engine in ("numpy", "pandas") else None
        if form == "pd-class" and engine == "pandas":
            import pandas as pd

            if obj is pd.Timestamp:
                return _tag("datetime", 64)
            if obj is pd.Timedelta:
                return _tag("timedelta", 64)
            try:
                return tag_pandas(obj())
            except Exception:
                return None
        if form in ("pd-instance", "pd-arrowdtype") and engine == "pandas":
            return tag_pandas(obj)
        if form == "pyarrow-instance" and engine == "pandas":
            return tag_pyarrow(obj)
        if form == "pyarrow-fn" and engine == "pandas":
            try:
                return tag_pyarrow(obj())
            except Exception:
                return None
        if form in ("polars-class", "polars-instance") and engine == "polars":
            return tag_polars(obj)
        if form == "pyspark-instance" and engine == "pyspark":
            return tag_pyspark(obj)
        if form == "pyspark-class" and engine == "pyspark":
            try:
                return tag_pyspark(obj())
            except Exception:
                return None
    except Exception:
        return None
    return None


def compat(tk, tr):
    """None = unscored, else list of field names on which key tag and result tag disagree."""
    if tk is None or tr is None:
        return None
    bad = []
    if tk["kind"] != tr["kind"]:
        bad.append("kind")
    for f in ("bits", "variant", "tz", "unit"):
        if tk[f] is not None and tr[f] is not None and tk[f] != tr[f]:
            bad.append(f)
    # a spelling that carries a time zone must keep it; a naive spelling must stay naive
    if tk["kind"] == "datetime" and tk["variant"] is not None and (tk["tz"] is None) != (tr["tz"] is None):
        bad.append("tz")
    return bad


def phys(t):
    """(kind, bits) of a physical (numeric / boolean / temporal) native tag, else None."""
    if t is None or t["kind"] not in PHYSICAL_KINDS:
        return None
    return (t["kind"], t["bits"])
