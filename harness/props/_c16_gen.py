"""C16 generators: model class hierarchies (ModelSpec) + tables aimed at the target class's expected schema.

Construction, not rejection: every draw consults the partial spec through the resolver (`effective`), so that
aliases stay unique, check targets exist (except in the labelled 'dangling' class) and table cells are mostly
drawn from the values that satisfy the cell-level predicates of the column (about half of the tables conform).
"""
from __future__ import annotations

import re

from hypothesis import strategies as st

from . import _c16_spec as S

SERIES_P = 0.1  # share of (non-clean) pandas cases that use Series[T] / Index[T] annotations
ATTRS = ["a", "b", "c", "d", "e", "f"]
ALIASES = ["x", "y", "key", "col_1", "z", "w", 2020, 0, ""]  # (0 and "" are legal labels: falsy is not the same as absent)
# regex field names: pattern -> (matching labels, a non-matching label)
REGEX_FIELDS = {"^r[0-9]$": (["r1", "r2"], "rx"), "s.": (["s1", "sa"], "s"), "t1|t2": (["t1", "t2"], "t3")}
CHECK_PATTERNS = [".", "^[a-c]$", "x|y", "a", "^[d-z]"]
SHAPES = [
    [[]],
    [[], [0]], [[], [0]], [[], [0]],
    [[], [0], [1]], [[], [0], [1]],
    [[], [0], [0]],
    [[], [], [0, 1]],
    [[], [0], [0], [1, 2]], [[], [0], [0], [1, 2]],
    [[], [0], [1], [2]],
]
DOMAIN = {
    "int": list(range(-2, 8)),
    "float": [-1.5, 0.0, 0.5, 1.0, 2.0, 2.5, 3.0, 4.0, 5.5, 7.0],
    "str": ["", "a", "b", "ab", "ba", "abc", "bb", "c"],
    "bool": [True, False],
    "dt": ["2020-01-01T00:00:00Z", "2021-06-01T12:00:00Z", "1999-12-31T23:59:59Z"],
}


class D:
    """Source of choices.  Hypothesis' integer draws are heavily biased towards boundary values (a 2 % feature
    came out at 15 %), so 90 % of the cases take all their choices from a ``random.Random`` seeded by a
    single Hypothesis draw (honest probabilities); 10 % use Hypothesis draws directly (edge-heavy,
    shrinkable)."""

    def __init__(self, draw):
        import random

        self.draw = draw
        self.rng = random.Random(draw(st.integers(0, 2**32 - 1)))
        self.clean = self.rng.random() < 0.35  # avoid every feature that triggers a recorded defect
        if self.rng.random() < 0.1:
            self.rng = None

    def int(self, a, b):
        if self.rng is not None:
            return self.rng.randint(a, b)
        return self.draw(st.integers(a, b))

    def p(self, prob):
        if self.rng is None and prob < 0.01:
            return False  # Hypothesis' bias towards 0 would turn a rare feature into a common one
        return self.int(0, 999) < int(prob * 1000)

    def choice(self, seq):
        seq = list(seq)
        return seq[self.int(0, len(seq) - 1)]

    def subset(self, seq, lo=0, hi=None):
        seq = list(seq)
        hi = len(seq) if hi is None else min(hi, len(seq))
        lo = min(lo, hi)
        n = self.int(lo, hi)
        out = []
        pool = list(seq)
        for _ in range(n):
            out.append(pool.pop(self.int(0, len(pool) - 1)))
        return out

    def perm(self, seq):
        return self.subset(seq, len(seq), len(seq))


# ------------------------------------------------------------------ Field options


def gen_field_kwargs(d, backend, kind, *, allow_alias, used_names, style):
    fk = {}
    if kind in ("int", "float"):
        for key, lo, hi in (("gt", -4, 1), ("ge", -3, 2), ("lt", 5, 9), ("le", 4, 8)):
            if d.p(0.13):
                fk[key] = d.int(lo, hi) if d.p(0.75) else d.int(0, 6)
        if d.p(0.08):
            fk["ne"] = d.int(0, 5)
        if d.p(0.04):
            fk["eq"] = d.int(0, 3)
        if d.p(0.1):
            a = d.int(-3, 3)
            fk["in_range"] = {"min_value": a, "max_value": a + d.int(1, 8)}
            if d.p(0.3):
                fk["in_range"]["include_min"] = False
        if d.p(0.08):
            fk["isin"] = sorted(d.subset(range(-2, 8), 2, 8))
        if d.p(0.06):
            fk["notin"] = sorted(d.subset(range(-2, 8), 1, 3))
        if d.p(0.07):  # several built-in checks on one field: their order is part of the schema (first failing check, report order)
            a = d.int(-3, 3)
            fk["in_range"] = {"min_value": a, "max_value": a + d.int(2, 8)}
            fk[d.choice(["isin", "notin"])] = sorted(d.subset(range(-2, 8), 2, 4))
            if d.p(0.5):
                fk["ne"] = d.int(0, 5)
        if backend == "pandas" and d.p(0.06):
            fk["c16_le"] = d.int(3, 8)
    elif kind == "str":
        if d.p(0.1):
            fk["str_startswith"] = d.choice(["a", "b", ""])
        if d.p(0.08):
            fk["str_endswith"] = d.choice(["b", "c", "a"])
        if d.p(0.08):
            fk["str_contains"] = d.choice(["b", "a", "^a"])
        if d.p(0.1):
            fk["str_length"] = d.choice([{"min_value": 0, "max_value": 2}, {"max_value": 3}, {"min_value": 1}])
        if d.p(0.06):
            fk["str_matches"] = d.choice(["a", "^[ab]+$", "[abc]*"])
        if d.p(0.07):
            fk["str_length"] = d.choice([{"min_value": 0, "max_value": 2}, {"max_value": 3}, {"min_value": 1}])
            fk["str_matches"] = d.choice(["a", "^[ab]+$", "[abc]*"])
            if d.p(0.5):
                fk["str_startswith"] = d.choice(["a", "b", ""])
        if d.p(0.08):
            fk["isin"] = sorted(d.subset(DOMAIN["str"], 2, 7))
        if d.p(0.06):
            fk["ne"] = d.choice(["c", "a", ""])
    has_check = bool(fk)
    if has_check:
        if d.p(0.15):
            fk["ignore_na"] = False
        if d.p(0.1):
            fk["raise_warning"] = True
        if d.p(0.1):
            fk["n_failure_cases"] = d.int(1, 2)
    if d.p(0.22):
        fk["nullable"] = True
    if d.p(0.12) and kind != "bool":
        fk["unique"] = True
    if d.p(0.15):
        fk["coerce"] = True
    if d.p(0.06):
        fk["title"] = d.choice(["T1", "T2"])
    if d.p(0.06):
        fk["description"] = d.choice(["some text", "d"])
    if d.p(0.06):
        fk["metadata"] = d.choice([{"k": 1}, {"unit": "m", "n": [1, 2]}])
    if d.p(0.08) and kind in ("int", "float", "str"):
        fk["default"] = {"int": 1, "float": 0.5, "str": "a"}[kind]
    if style == "kw":
        fk["dtype_kwargs"] = {"unit": "ns", "tz": "UTC"}
    if allow_alias and d.p(0.22):
        if d.p(0.3) and kind in ("int", "str", "float") and style != "index":
            pats = [p for p in REGEX_FIELDS if p not in used_names]
            if pats:
                fk["alias"] = d.choice(pats)
                fk["regex"] = True
                fk.pop("default", None)
                fk.pop("unique", None)
        else:
            pool = [a for a in ALIASES if a not in used_names and (backend == "pandas" or isinstance(a, str))
                    and (isinstance(a, str) or not d.clean)]
            if pool:
                fk["alias"] = d.choice(pool)
    if style == "index":
        fk.pop("metadata", None)
        fk.pop("regex", None)
        if d.p(0.3):
            fk["check_name"] = d.choice([True, False])
    return fk


def gen_field(d, backend, attr, *, series_case, used_names, override_mode=None, allow_index=False, inherited_kind=None):
    DT = S.dt_table(backend)
    tag = d.choice(list(DT) + ["int", "float", "str", "int"])
    style = "plain"
    if backend == "polars":
        if d.p(0.2):
            style = "series"
    else:
        if tag == "dttz":
            style = d.choice(["plain", "series", "kw"])
        elif series_case and d.p(0.6):
            style = "series"
        if series_case and allow_index and d.p(0.3):
            style = "index"
    kind = DT[tag]["kind"]
    optional = d.p(0.2) and style != "index"
    if override_mode == "field":
        return {"attr": attr, "ann": None, "style": "plain", "optional": False,
                "field": gen_field_kwargs(d, backend, inherited_kind or "any", allow_alias=d.p(0.5), used_names=used_names,
                                          style="plain")}
    fk = None
    if style == "kw" or d.p(0.7) and override_mode != "ann":
        fk = gen_field_kwargs(d, backend, kind, allow_alias=True, used_names=used_names, style=style)
    out = {"attr": attr, "ann": tag, "style": style, "optional": optional, "field": fk}
    if optional:
        # the spellings of "may be absent": Optional[T], Union[T, None], T | None (PEP 604)
        out["opt_spelling"] = d.choice(["Optional", "Optional", "Union", "pep604"])
    return out


# ------------------------------------------------------------------ methods


def _kinds(eff_fields, backend, names):
    DT = S.dt_table(backend)
    ks = set()
    for f in eff_fields:
        if f["name"] in names:
            ks.add(DT[f["ann"]]["kind"])
    return ks


def gen_check(d, spec, ci, eff, meth, *, dangling=False):
    backend = spec["backend"]
    fields = eff["fields"]
    names = [f["name"] for f in fields]
    m = {"meth": meth, "kind": "check", "targets": [], "regex": False, "name": None, "op": "ne", "k": 3, "kw": {}}
    all_str = all(isinstance(n, str) for n in names)
    if dangling:
        m["targets"] = ["nope"]
        tn = []
    elif all_str and d.p(0.15):
        m["regex"] = True
        m["targets"] = d.subset(CHECK_PATTERNS, 1, 2)
        tn = [n for n in names if any(re.compile(p).match(n) for p in m["targets"])]
    else:
        chosen = d.subset(fields, 1, 2)
        for f in chosen:
            own = next((x for x in spec["classes"][ci]["fields"] if x["attr"] == f["attr"] and x["field"] is not None), None)
            r = d.int(0, 9)
            if own is not None and f["field_cls"] == ci and r < 3 and not (
                    d.clean and any(isinstance(t, dict) and "ref" in t for t in m["targets"])):
                m["targets"].append({"ref": f["attr"]})
            elif f["field_cls"] != ci and f["ann_cls"] != ci and r < 2:
                m["targets"].append({"pref": [f["field_cls"], f["attr"]]})
            else:
                m["targets"].append(f["name"])
        tn = [f["name"] for f in chosen]
    ks = _kinds(fields, backend, tn)
    if ks and ks <= {"int", "float"}:
        m["op"] = d.choice(["lt", "le", "gt", "ge", "ne"])
        m["k"] = {"lt": d.int(4, 9), "le": d.int(3, 8), "gt": d.int(-4, 2), "ge": d.int(-3, 3), "ne": d.int(0, 5)}[m["op"]]
        if d.p(0.2):
            m["k"] = d.int(0, 6)
    elif ks == {"str"}:
        m["op"] = d.choice(["ne", "le", "ge"])
        m["k"] = d.choice(["c", "b", "", "bb"])
    else:
        m["op"], m["k"] = "ne", d.int(0, 5)
    if d.p(0.06) and not d.clean:
        m["name"] = d.choice(["nm0", "nm1"])
    kw = {}
    if backend == "pandas" and d.p(0.12):
        kw["element_wise"] = True
    if d.p(0.12):
        kw["ignore_na"] = False
    if d.p(0.08):
        kw["raise_warning"] = True
    if d.p(0.08):
        kw["n_failure_cases"] = 1
    if d.p(0.08):
        kw["error"] = "custom error"
    if d.p(0.05):
        kw["title"] = "CT"
    m["kw"] = kw
    return m


def gen_methods(d, spec, ci, eff, inherited_methods):
    backend = spec["backend"]
    out = []
    used = set()

    def add(m):
        if m["meth"] not in used:
            used.add(m["meth"])
            out.append(m)

    fields = eff["fields"]
    if fields and d.p(0.6):
        for _ in range(d.int(1, 2)):
            add(gen_check(d, spec, ci, eff, d.choice(["ck0", "ck0", "ck1"]), dangling=d.p(0.004)))
    if d.p(0.3):
        m = {"meth": "dk0", "kind": "dfcheck", "op": "le", "k": d.int(2, 5), "name": None, "kw": {}}
        if d.p(0.3):
            m["op"], m["k"] = "ne", d.int(0, 3)
        if d.p(0.06) and not d.clean:
            m["name"] = d.choice(["nm2", "nm0"])
        if d.p(0.1):
            m["kw"] = {"raise_warning": True}
        add(m)
    if backend == "pandas":
        num = [f for f in fields if S.PD_DT[f["ann"]]["kind"] in ("int", "float") and not f["field"].get("regex")]
        if num and d.p(0.25):
            for _ in range(d.int(1, 2)):
                tg = d.subset(num, 1, 2)
                m = {"meth": d.choice([f"pr{ci}", f"pq{ci}"] if d.clean else ["pr0", "pr1", "pr2"]), "kind": "parser", "targets": [f["name"] for f in tg],
                     "regex": False, "name": None, "k": d.int(1, 3), "kw": {}}
                if d.p(0.1) and not d.clean:
                    m["name"] = "pn0"
                add(m)
        if d.p(0.08):
            add({"meth": f"dp{ci}" if d.clean else "dp0", "kind": "dfparser", "k": d.int(1, 4), "name": None, "kw": {}})
    # override an inherited method by something of another kind (plain method / other decorator)
    cand = [n for n in inherited_methods if n not in used]
    if cand and d.p(0.06) and not d.clean:
        n = d.choice(cand)
        old = inherited_methods[n][0]["kind"]
        new = d.choice([k for k in ("plain", "dfcheck", "check") if k != old and (k != "check" or fields)])
        if new == "plain":
            add({"meth": n, "kind": "plain"})
        elif new == "dfcheck":
            add({"meth": n, "kind": "dfcheck", "op": "le", "k": d.int(2, 5), "name": None, "kw": {}})
        else:
            add(gen_check(d, spec, ci, eff, n))
    return out


# ------------------------------------------------------------------ Config


def gen_config(d, spec, ci, eff):
    backend = spec["backend"]
    names = [f["name"] for f in eff["fields"] if isinstance(f["name"], str) and not f["field"].get("regex")
             and f["style"] != "index"]
    nindex = sum(1 for f in eff["fields"] if f["style"] == "index")
    opts = {}
    if d.p(0.3):
        opts["strict"] = d.choice([True, True, "filter", False])
    if d.p(0.2):
        opts["ordered"] = d.choice([True, True, False])
    if d.p(0.2):
        opts["coerce"] = d.choice([True, True, False])
    if names and d.p(0.12):
        opts["unique"] = d.subset(names, 1, 2)
        if len(opts["unique"]) == 1 and d.p(0.5):
            opts["unique"] = opts["unique"][0]  # a single column may be given as a bare string
    elif d.p(0.06):
        long = [n for n in names if len(n) > 1]
        if long:
            opts["unique"] = d.choice(long)
    if d.p(0.08):
        opts["unique_column_names"] = True
    if d.p(0.15):
        opts["add_missing_columns"] = d.choice([True, True, False])
    if d.p(0.04):  # rare: failing + drop_invalid_rows crashes the pandas backend on both sides (C06/C11)
        opts["drop_invalid_rows"] = d.choice([True, True, False])
    if d.p(0.08):
        opts["title"] = d.choice(["ST", "ST2"])
    if d.p(0.08):
        opts["description"] = d.choice(["schema text", "sd"])
    if d.p(0.12):
        opts["name"] = d.choice(["nm_a", "nm_b"])
    if d.p(0.05) and not d.clean:
        opts["metadata"] = d.choice([{"owner": "me"}, {"v": 2}])
    if d.p(0.04):
        opts["dtype"] = d.choice(["int", "float"] if backend == "pandas" else ["int", "pl.Int64"])
    if nindex >= 1 and d.p(0.5):
        if d.p(0.4):
            opts["multiindex_name"] = "mi"
        if d.p(0.4):
            opts["multiindex_coerce"] = True
        if d.p(0.4):
            opts["multiindex_strict"] = d.choice([True, "filter"])
        if d.p(0.3):
            opts["multiindex_ordered"] = False
    # an option inherited from a base Config explicitly set back to None (= "not set") in this class
    inherited = {}
    for b in spec["classes"][ci]["bases"]:
        bi = next((i for i, c in enumerate(spec["classes"]) if c["name"] == b), None) if isinstance(b, str) else b
        bc = spec["classes"][bi].get("config") if isinstance(bi, int) and bi < len(spec["classes"]) else None
        if bc:
            inherited.update(bc.get("opts") or {})
    for k in ("unique", "dtype", "name", "title", "description", "multiindex_name"):
        if k in inherited and inherited[k] is not None and k not in opts and d.p(0.35):
            opts[k] = None
    extras = {}
    if backend == "pandas" and d.p(0.28):
        for _ in range(d.int(1, 2)):
            k, v = d.choice([
                ("ne", 99), ("ne", 3), ("ne", {"$tuple": [2]}), ("gt", -50), ("ge", {"min_value": -50}),
                ("in_range", {"min_value": -50, "max_value": 50}), ("lt", {"$tuple": [6]}),
                ("c16_le", 7), ("c16_le", {"k": 50}), ("c16_any", {"$ellipsis": True}), ("notin", [98, 99]),
            ])
            extras[k] = v
    style = "plain"
    r = d.int(0, 9)
    if r < 2 and spec["classes"][ci]["bases"]:
        style = "parent"
    elif r < 3:
        style = "base"
    return {"style": style, "opts": opts, "extras": extras}


# ------------------------------------------------------------------ tables


def _num(v):
    return isinstance(v, (int, float)) and not isinstance(v, bool)


def _builtin_pred(key, arg):
    if key == "eq":
        return lambda v: v == arg
    if key == "ne":
        return lambda v: v != arg
    if key == "gt":
        return lambda v: v > arg
    if key == "ge":
        return lambda v: v >= arg
    if key == "lt":
        return lambda v: v < arg
    if key in ("le", "c16_le"):
        return lambda v: v <= (arg["k"] if isinstance(arg, dict) else arg)
    if key == "in_range":
        lo, hi = arg.get("min_value"), arg.get("max_value")
        imin, imax = arg.get("include_min", True), arg.get("include_max", True)
        return lambda v: (v >= lo if imin else v > lo) and (v <= hi if imax else v < hi)
    if key == "isin":
        return lambda v: v in arg
    if key == "notin":
        return lambda v: v not in arg
    if key == "str_startswith":
        return lambda v: v.startswith(arg)
    if key == "str_endswith":
        return lambda v: v.endswith(arg)
    if key == "str_contains":
        return lambda v: re.search(arg, v) is not None
    if key == "str_matches":
        return lambda v: re.match(arg, v) is not None
    if key == "str_length":
        return lambda v: (arg.get("min_value") is None or len(v) >= arg["min_value"]) and (
            arg.get("max_value") is None or len(v) <= arg["max_value"])
    return lambda v: True


_OPS = {"lt": lambda a, b: a < b, "le": lambda a, b: a <= b, "gt": lambda a, b: a > b, "ge": lambda a, b: a >= b,
        "ne": lambda a, b: a != b, "eq": lambda a, b: a == b}


def good_cells(col, exp):
    """domain values that satisfy every cell-level predicate of the column (after its additive parsers)"""
    kind = col["kind"]
    dom = DOMAIN[kind]
    shift = sum(e["m"]["k"] for e in col["parsers"]) if kind in ("int", "float") else 0
    preds = []
    for key in S.CHECK_METHOD:
        if col["field"].get(key) is not None and not col["field"].get("raise_warning"):
            preds.append(_builtin_pred(key, col["field"][key]))
    for e in col["checks"]:
        m = e["m"]
        if not (m.get("kw") or {}).get("raise_warning"):
            preds.append(lambda v, _m=m: _OPS[_m["op"]](v, _m["k"]))
    for k, v in exp["extras"].items():
        arg = v
        if isinstance(v, dict) and "$tuple" in v:
            arg = v["$tuple"][0]
        elif isinstance(v, dict) and "$ellipsis" in v:
            continue
        elif isinstance(v, dict) and k not in ("in_range", "c16_le"):
            arg = next(iter(v.values()))
        preds.append(_builtin_pred(k, arg))

    def ok(v):
        try:
            return all(p(v + shift if shift else v) for p in preds)
        except Exception:
            return True

    return [v for v in dom if ok(v)]


WRONG = {"int": ("float64", [0.5, 1.0, 2.0]), "float": ("object", ["a", "1"]), "str": ("int64", [1, 2, 3]),
         "bool": ("int64", [0, 1]), "dt": ("int64", [1, 2])}
COERCIBLE = {"int": ("float64", [0.0, 1.0, 2.0, 3.0]), "float": ("int64", [0, 1, 2, 3]), "str": ("int64", [1, 2]),
             "bool": ("int64", [0, 1]), "dt": ("object", ["2020-01-01T00:00:00Z"])}
PL_PHYS_OF = {"int64": "Int64", "float64": "Float64", "object": "String"}


def gen_table(d, spec, exp):
    backend = spec["backend"]
    n = d.choice([0, 1, 2, 2, 3, 3, 4])
    if exp["opts"]["unique"] and n == 0:
        n = 2  # joint uniqueness on an empty frame raises ValueError on both sides
    cols = []
    add_missing = exp["opts"]["add_missing_columns"]
    for c in exp["columns"]:
        fk = c["field"]
        if fk.get("regex"):
            match, miss = REGEX_FIELDS.get(c["name"], ([], "q"))
            labels = d.subset(match, 0, 2) + ([miss] if d.p(0.15) else [])
        else:
            labels = [c["name"]]
        good = good_cells(c, exp)
        for lab in labels:
            r = d.int(0, 99)
            absent_p = 30 if (not c["required"] or add_missing) else 5
            if r < absent_p:
                continue
            mode = "ok"
            if r >= 92:
                mode = "wrong"
            elif r >= 84:
                mode = "null"
            elif r >= 78:
                mode = "coercible"
            phys = c["phys"]
            if mode == "wrong":
                phys, dom = WRONG[c["kind"]]
                cells = [d.choice(dom) for _ in range(n)]
            elif mode == "coercible":
                phys, dom = COERCIBLE[c["kind"]]
                cells = [d.choice(dom) for _ in range(n)]
            else:
                cells = []
                pool = list(good)
                for _ in range(n):
                    if pool and d.int(0, 19) < 18:
                        v = d.choice(pool)
                        if fk.get("unique") and len(pool) > 1:
                            pool.remove(v)
                    else:
                        v = d.choice(DOMAIN[c["kind"]])
                    cells.append(v)
                if mode == "null" and n:
                    cells[d.int(0, n - 1)] = None
            if backend == "polars":
                phys = PL_PHYS_OF.get(phys, phys)
            cols.append({"name": lab, "phys": phys, "cells": cells})
    if d.p(0.15):
        cols.append({"name": "zz", "phys": "Int64" if backend == "polars" else "int64", "cells": [d.int(0, 3) for _ in range(n)]})
    if len(cols) > 1 and d.p(0.15):
        cols = d.perm(cols)
    if backend == "pandas" and cols and d.p(0.03):
        cols.append(dict(cols[0]))  # duplicated column label
    index = None
    if exp["index"]:
        levels = []
        for c in exp["index"]:
            good = good_cells(c, exp)
            cells = []
            for j in range(n):
                cells.append(d.choice(good) if good and d.int(0, 9) < 9 else d.choice(DOMAIN[c["kind"]]))
            nm = c["name"] if d.p(0.8) else d.choice([None, "other"])
            phys = c["phys"] if d.p(0.9) else WRONG[c["kind"]][0]
            if phys != c["phys"]:
                cells = [d.choice(WRONG[c["kind"]][1]) for _ in range(n)]
            levels.append({"name": nm, "phys": phys, "cells": cells})
        if len(levels) > 1 and d.p(0.1):
            levels = d.perm(levels)
        if len(levels) > 1 and d.p(0.08):
            levels = levels[:-1]
        if d.p(0.1):
            levels.append({"name": "extra_level", "phys": "int64", "cells": [d.int(0, 3) for _ in range(n)]})
        index = {"levels": levels} if d.p(0.9) else None
    lazy = d.p(0.5)
    if exp["opts"]["drop_invalid_rows"] and d.p(0.9):
        lazy = True  # drop_invalid_rows without lazy is a usage error on both sides
    return {"n": n, "cols": cols, "index": index, "lazy": lazy}


# ------------------------------------------------------------------ whole case


def build_case(draw, backend):
    d = D(draw)
    shape = d.choice(SHAPES)
    series_case = backend == "pandas" and d.p(SERIES_P) and not d.clean
    spec = {"backend": backend, "classes": []}
    all_aliases = []  # aliases are unique over the whole hierarchy (siblings meet again in a diamond / mixin)
    for ci, bases in enumerate(shape):
        cs = {"name": f"M{ci}", "bases": list(bases), "fields": [], "config": None, "methods": []}
        spec["classes"].append(cs)
        eff0 = S.effective(spec, ci)
        inherited = {f["attr"]: f for f in eff0["fields"]}
        used_names = all_aliases
        nnew = d.int(1, 3) if not bases else d.int(0, 2)
        free = [a for a in ATTRS if a not in inherited]
        for _ in range(nnew):
            if not free:
                break
            attr = free.pop(0) if d.p(0.7) else free.pop(d.int(0, len(free) - 1))
            f = gen_field(d, backend, attr, series_case=series_case, used_names=used_names, allow_index=True)
            cs["fields"].append(f)
            used_names.append(S.public(attr, f["field"]))
        if inherited and d.p(0.5):
            for attr in d.subset(list(inherited), 1, 2):
                mode = d.choice(["full", "full", "ann", "field"])
                if inherited[attr]["style"] == "index" or inherited[attr]["style"] == "kw":
                    mode = "full"
                # an override may drop / change the alias: other names stay unique because aliases and
                # attribute names come from disjoint pools
                f = gen_field(d, backend, attr, series_case=series_case, used_names=used_names, override_mode=mode,
                              allow_index=False, inherited_kind=S.dt_table(backend)[inherited[attr]["ann"]]["kind"])
                old_name, was_regex = inherited[attr]["name"], inherited[attr]["field"].get("regex")
                if S.public(attr, f["field"]) != old_name and not was_regex and not d.p(0.15):
                    # mostly keep the public name: inherited checks / parsers refer to it by name
                    if f["field"] is None and old_name != attr:
                        f["field"] = {}
                    if f["field"] is not None:
                        f["field"].pop("regex", None)
                        if old_name == attr:
                            f["field"].pop("alias", None)
                        else:
                            f["field"]["alias"] = old_name
                if mode == "field":
                    f["field"].pop("dtype_kwargs", None)
                    if f["field"].get("regex"):
                        f["field"].pop("regex")
                        f["field"].pop("alias", None)
                cs["fields"].append(f)
                used_names.append(S.public(attr, f["field"]))
        eff = S.effective(spec, ci)
        cs["methods"] = gen_methods(d, spec, ci, eff, eff0["methods"])
        if d.p(0.55):
            cs["config"] = gen_config(d, spec, ci, eff)
    ncls = len(shape)
    case = dict(spec)
    case["clean"] = bool(d.clean)
    case["target"] = ncls - 1 if d.p(0.7) else d.int(0, ncls - 1)
    case["incremental"] = d.p(0.3)
    case["order"] = d.perm(range(ncls)) if d.p(0.6) else list(range(ncls))
    exp = S.expected(spec, case["target"])
    case["tables"] = []
    if "error" not in exp:
        for _ in range(3):
            case["tables"].append(gen_table(d, spec, exp))
    return case


def strategy(backend):
    @st.composite
    def _s(draw):
        return build_case(draw, backend)

    return _s()
