"""C05 on the polars backend: a schema that has been used is indistinguishable from one that has not.

A case is a polars schema spec + table (C08's backend-neutral generator with parsing options) and a history of
operations.  After EVERY operation the structural fingerprint of the schema must be what it was, the configuration must
be what it was, and the verdicts of the used schema on a fixed set of probe frames (the table itself and variants of it:
a column removed, a cell nulled, a column cast to text, no rows; as DataFrame and as LazyFrame at full depth, eager and
lazy) must equal the verdicts of a schema freshly built from the same spec.

Oracle: history independence against pandera's own answer on a never-used schema (no reference semantics involved).
"""
from __future__ import annotations

import copy

from hypothesis import strategies as st

from .. import fp, spec as sp
from ..core import Eval, Family
from . import plx

DEPTHS = [None, None, "SCHEMA_ONLY", "DATA_ONLY", "SCHEMA_AND_DATA"]
VARIANTS = ["own", "drop-col", "null-cell", "text-col", "no-rows"]


@st.composite
def strat_history(draw):
    case = copy.deepcopy(draw(plx.strat_case(parsers="many", containers=("df",), drop_rate=1, regex_rate=2)))
    ncols = len(case["table"]["columns"])
    nsc = len(case["spec"]["columns"])
    ops = []
    for _ in range(draw(st.integers(2, 7))):
        k = draw(st.sampled_from(["validate"] * 5 + ["column_validate", "column_validate", "repr", "copy", "transform", "transform",
                                  "ctx_validate", "ctx_raise"]))
        op = {"op": k}
        if k in ("validate", "ctx_validate", "column_validate", "ctx_raise"):
            op.update(variant=draw(st.sampled_from(VARIANTS)), container=draw(st.sampled_from(["df", "df", "lf"])),
                      lazy=draw(st.booleans()), depth=draw(st.sampled_from(DEPTHS)) if k != "validate" else None,
                      which=draw(st.integers(0, max(0, ncols - 1))), row=draw(st.integers(0, 5)))
        if k == "column_validate":
            op["col"] = draw(st.integers(0, max(0, nsc - 1)))
        if k == "transform":
            op.update(kind=draw(st.sampled_from(["rename_columns", "remove_columns", "select_columns", "update_column",
                                                 "add_columns", "set_coerce"])), col=draw(st.integers(0, max(0, nsc - 1))))
        ops.append(op)
    case["ops"] = ops
    return case


def _variant(table, op):
    t = copy.deepcopy(table)
    v = op.get("variant", "own")
    cols = t["columns"]
    if not cols:
        return t
    c = cols[op.get("which", 0) % len(cols)]
    if v == "drop-col" and len(cols) > 1:
        t["columns"] = [x for x in cols if x is not c]
    elif v == "null-cell" and c["cells"]:
        r = op.get("row", 0) % len(c["cells"])
        c["cells"] = [None if i == r else x for i, x in enumerate(c["cells"])]
    elif v == "text-col":
        c["phys"], c["cells"] = "object", [None if x is None else str(x) for x in c["cells"]]
    elif v == "no-rows":
        for x in cols:
            x["cells"] = []
    return t


def _frame(table, container):
    return sp.polars_frame(table, lazy=(container != "df"))


def _norm(o):
    out = {"kind": o["kind"], "reasons": sorted(o.get("reasons") or [])}
    if o["kind"] == "ok":
        try:
            out["value"] = plx.snap(o["value"])
        except Exception as e:  # noqa: BLE001
            out["value"] = "unreadable:" + type(e).__name__
    elif o["kind"] == "internal":
        out["exc"] = o.get("exc_type")
    return out


def _validate(schema, frame, lazy, depth):
    if depth:
        from pandera.config import ValidationDepth, config_context

        def call():
            with config_context(validation_depth=ValidationDepth[depth]):
                return schema.validate(frame, lazy=lazy)
        return fp.outcome(call)
    return fp.outcome(lambda: schema.validate(frame, lazy=lazy))


def _probes(table):
    out = []
    for v in ("own", "null-cell", "text-col"):
        t = _variant(table, {"variant": v, "which": 0, "row": 0})
        for container, depth in (("df", None), ("lf", "SCHEMA_AND_DATA")):
            out.append((v, container, depth, t))
    return out


def _verdicts(schema, table):
    res = []
    for v, container, depth, t in _probes(table):
        for lazy in (False, True):
            res.append((f"{v}/{container}/{'lazy' if lazy else 'eager'}", _norm(_validate(schema, _frame(t, container), lazy, depth))))
    return res


def _run_op(schema, spec, table, op):
    """-> label; exceptions of pandera's documented channel are part of the history, anything else is recorded"""
    import pandera.polars as pap
    import polars as pl

    k = op["op"]
    if k in ("validate", "ctx_validate"):
        o = _validate(schema, _frame(_variant(table, op), op["container"]), op["lazy"], op.get("depth"))
        return k + ":" + o["kind"]
    if k == "ctx_raise":
        # an exception unwinding a user's config_context around a validation
        from pandera.config import ValidationDepth, config_context

        class _Boom(Exception):
            pass

        try:
            with config_context(validation_depth=ValidationDepth[op["depth"]] if op.get("depth") else None):
                fp.outcome(lambda: schema.validate(_frame(_variant(table, op), op["container"]), lazy=op["lazy"]))
                raise _Boom()
        except _Boom:
            pass
        return k
    if k == "column_validate":
        cols = list(schema.columns.values())
        if not cols:
            return k + ":no-columns"
        col = cols[op["col"] % len(cols)]
        frame = _frame(_variant(table, op), op["container"])
        o = fp.outcome(lambda: col.validate(frame, lazy=op["lazy"]))
        return k + ":" + o["kind"]
    if k == "repr":
        repr(schema)
        str(schema)
        return k
    if k == "copy":
        c = copy.deepcopy(schema)
        same = (c == schema)
        return k + (":equal" if same else ":unequal")
    if k == "transform":
        names = list(schema.columns)
        if not names:
            return k + ":no-columns"
        n = names[op["col"] % len(names)]
        kind = op["kind"]
        try:
            if kind == "rename_columns":
                schema.rename_columns({n: str(n) + "_r"})
            elif kind == "remove_columns":
                schema.remove_columns([n])
            elif kind == "select_columns":
                schema.select_columns([n])
            elif kind == "update_column":
                schema.update_column(n, nullable=not schema.columns[n].nullable)
            elif kind == "add_columns":
                schema.add_columns({"zz_new": pap.Column(pl.Int64, nullable=True)})
            elif kind == "set_coerce":
                # documented read/write property on the copy returned by a transformation, never on the receiver
                schema.update_columns({n: {"coerce": True}})
        except Exception as e:  # noqa: BLE001 - a refused request is a legal history step
            return k + ":" + kind + ":raised:" + type(e).__name__
        return k + ":" + kind
    raise ValueError(k)


def evaluate(case):
    ev = Eval()
    spec, table = case["spec"], case["table"]
    why = plx.domain_skip(spec, table, semantics=False)
    if why:
        ev.skipped = why
        return ev
    from pandera import config

    try:
        schema = sp.polars_schema(spec)
        fresh = sp.polars_schema(spec)
    except Exception as e:  # noqa: BLE001
        ev.skipped = "not buildable: " + type(e).__name__
        return ev
    fp0 = fp.fp_json(schema)
    cfg0 = fp.config_state()
    want = _verdicts(fresh, table)
    if _verdicts(sp.polars_schema(spec), table) != want:
        ev.skipped = "verdicts of two fresh schemas differ (not a function of the spec)"
        return ev
    ev.nontrivial = len(case["ops"]) >= 3
    ev.executions = len(case["ops"])
    for step, op in enumerate(case["ops"]):
        try:
            label = _run_op(schema, spec, table, op)
        except Exception as e:  # noqa: BLE001
            label = op["op"] + ":harness-visible-exception:" + type(e).__name__
        ev.labels.append("plh:op=" + label.split(":")[0])
        if op.get("container") == "lf":
            ev.labels.append("plh:lazyframe")
        if op.get("depth"):
            ev.labels.append("plh:depth")
        if ":SchemaError" in label:
            ev.labels.append("plh:failed-validation-in-history")
        now = fp.fp_json(schema)
        if now != fp0:
            import json

            ev.add("schema-changed-by:" + label.split(":")[0],
                   {"step": step, "op": op, "outcome": label, "diff": fp.fp_diff(json.loads(fp0), json.loads(now))[:4]})
            return ev
        if fp.config_state() != cfg0:
            ev.add("config-changed-by:" + label.split(":")[0], {"step": step, "op": op, "before": cfg0, "after": fp.config_state()})
            config.reset_config_context()
            return ev
        got = _verdicts(schema, table)
        if got != want:
            diff = [(a[0], a[1], b[1]) for a, b in zip(want, got) if a != b][:3]
            ev.add("used-schema-answers-differently-after:" + label.split(":")[0],
                   {"step": step, "op": op, "outcome": label, "probe/expected/observed": diff})
            return ev
    return ev


FAMILIES = [
    Family("polars_history", evaluate, strategy=strat_history, n_quick=150, n_thorough=1200, shards_quick=4, shards_thorough=12,
           required_labels=["plh:op=validate", "plh:op=column_validate", "plh:op=transform", "plh:lazyframe", "plh:depth",
                            "plh:failed-validation-in-history"]),
]


# ------------------------------------------------------------------ pandas: labels that are equal but print differently


@st.composite
def strat_label_types(draw):
    """A regex column over frames whose column labels are the same numbers as int, float, bool or text: which columns a
    pattern selects depends on how the label prints (2019 / 2019.0 / '2019'), never on which frame was validated before."""
    a = draw(st.integers(1000, 9999))
    b = draw(st.integers(1000, 9999).filter(lambda x: x != a))
    if draw(st.integers(0, 4)) == 0:
        a, b = 1, 0
    pattern = draw(st.sampled_from([r"^\d{4}$", r"^\d+$", r"^\d", r"^\d+\.0$", r"^(True|False)$", r"^[01]$", r"\.", r"^\d{4}"]))
    flavours = ["int", "float", "str"] + (["bool"] if (a, b) == (1, 0) else [])
    k = draw(st.integers(2, len(flavours)))
    chosen = list(draw(st.permutations(flavours)))[:k]
    return {"a": a, "b": b, "pattern": pattern, "flavours": chosen, "bad": draw(st.booleans()), "lazy": draw(st.booleans())}


def eval_label_types(case):
    import itertools

    import pandas as pd
    import pandera as pa

    ev = Eval()
    conv = {"int": int, "float": float, "str": str, "bool": bool}

    def frame(fl):
        labels = [conv[fl](case["a"]), conv[fl](case["b"])]
        df = pd.DataFrame([[1, -1 if case["bad"] else 2], [3, 4]])
        df.columns = labels
        return df

    def run(order, k):
        # (an equivalent spelling of the pattern per order - k empty groups appended - so that nothing keyed by the
        # pattern's text carries over from one order to the next; what is compared is the effect of the order itself)
        schema = pa.DataFrameSchema({case["pattern"] + "(?:)" * k: pa.Column(int, pa.Check.gt(0), regex=True, required=False)})
        out = {}
        for fl in order:
            o = fp.outcome(lambda: schema.validate(frame(fl), lazy=case["lazy"]))
            out[fl] = (o["kind"], tuple(sorted(o.get("reasons") or [])))
        return out

    ev.labels += ["lt:flavours=" + "+".join(sorted(case["flavours"])), "lt:pattern=" + case["pattern"]]
    ev.nontrivial = True
    results = {}
    for k, order in enumerate(itertools.permutations(case["flavours"])):
        results[order] = run(order, k + 1 + (case["a"] % 5) * 7)
        ev.executions += 1
    base_order = next(iter(results))
    for fl in case["flavours"]:
        verdicts = {order: r[fl] for order, r in results.items()}
        if len(set(verdicts.values())) > 1:
            ev.add("verdict-depends-on-frames-validated-before", {
                "labels": fl, "pattern": case["pattern"],
                "by_order": [["->".join(o), list(v)] for o, v in list(verdicts.items())[:4]]})
            return ev
    if len({r for res in results.values() for r in res.values()}) > 1:
        ev.labels.append("lt:flavours-get-different-verdicts")
    return ev


FAMILIES.append(
    Family("label_types", eval_label_types, strategy=strat_label_types, n_quick=150, n_thorough=1500, shards_quick=2, shards_thorough=8,
           required_labels=["lt:flavours-get-different-verdicts"]))
