"""C15 model: JSON schema specs, builders (pandas / polars), conforming frames, the *expected* effect of
every schema transformation on the spec (written from the docstrings of
pandera/api/dataframe/container.py and the property statement, not from the implementation),
and the paired dataframe operation.

Component spec (column or index level):
  {"id": int,                     # identity of the data that lives in this component (follows renames/moves)
   "name": str, "dtype": "int"|"float"|"str"|"dt"|"none",
   "checks": [check-id], "parsers": [parser-id], "nullable", "unique", "report_duplicates", "coerce",
   "required", "regex",           # columns only
   "title", "description", "default": bool (dtype-specific conforming value), "metadata": None|dict,
   "drop_invalid_rows": bool,
   "raws": [distinct ints 0..20], "null_at": None|int}
"""
from __future__ import annotations

import copy

from . import _c15_defs as defs

COMMON_ATTRS = ["dtype", "checks", "parsers", "nullable", "unique", "report_duplicates", "coerce", "name", "title",
                "description", "default", "metadata", "drop_invalid_rows"]
COL_ATTRS = COMMON_ATTRS + ["required", "regex"]
IDX_ATTRS = list(COMMON_ATTRS)
MI_ATTRS = ["coerce", "strict", "name", "ordered", "unique"]
SCHEMA_ATTRS = ["checks", "parsers", "dtype", "coerce", "strict", "name", "ordered", "unique", "report_duplicates",
                "unique_column_names", "add_missing_columns", "title", "description", "metadata", "drop_invalid_rows"]
# documented polars.Column signature (no parsers / report_duplicates)
POLARS_COL_ATTRS = ["dtype", "checks", "nullable", "unique", "coerce", "required", "name", "regex", "title",
                    "description", "default", "metadata", "drop_invalid_rows"]

COL_DEFAULTS = {"checks": [], "parsers": [], "nullable": False, "unique": False, "report_duplicates": "all",
                "coerce": False, "required": True, "regex": False, "title": None, "description": None,
                "default": False, "metadata": None, "drop_invalid_rows": False}

NUM = ("int", "float", "none")
NUM_CHECKS = ["ge0", "le20", "rng", "ne", "small", "elem", "ge0_opts"]
NUM_CHECKS_POLARS = ["ge0", "le20", "rng", "ne", "ge0_opts"]
STR_CHECKS = ["starts", "len", "match", "nonempty"]
STR_CHECKS_POLARS = ["starts", "len", "match"]
DT_CHECKS = ["dt_ge", "dt_lt"]
PARSERS = ["p_ident", "p_copy"]

BAD = {"ge0": -5, "le20": 99, "rng": -5, "ne": -1, "small": 5000, "elem": 5000, "ge0_opts": -5,
       "starts": "zz", "len": "a1234567", "match": "zz", "nonempty": "",
       "dt_ge": "2019-01-01", "dt_lt": "2022-01-01"}


def checks_for(dtype, backend="pandas"):
    if dtype in NUM:
        return NUM_CHECKS if backend == "pandas" else NUM_CHECKS_POLARS
    if dtype == "str":
        return STR_CHECKS if backend == "pandas" else STR_CHECKS_POLARS
    return DT_CHECKS


class Unspecified(Exception):
    """The request is outside the domain in which the docs/property fix an expected result."""


class Invalid(Exception):
    """The request is invalid: pandera must raise SchemaInitError/ValueError."""


# ------------------------------------------------------------------ builders


def _pa(backend):
    import pandera as pa

    if backend == "polars":
        import pandera.polars as pap

        return pa, pap
    return pa, pa


def mk_check(cid):
    import pandas as pd
    import pandera as pa

    C = pa.Check
    if cid == "ge0":
        return C.ge(0)
    if cid == "le20":
        return C.le(20)
    if cid == "rng":
        return C.in_range(0, 20)
    if cid == "ne":
        return C.ne(-1)
    if cid == "small":
        return C(defs.chk_small, name="small")
    if cid == "elem":
        return C(defs.chk_elem_small, element_wise=True, error="too big")
    if cid == "ge0_opts":
        return C.ge(0, ignore_na=False, n_failure_cases=1, error="neg")
    if cid == "starts":
        return C.str_startswith("a")
    if cid == "len":
        return C.str_length(2, 3)
    if cid == "match":
        return C.str_matches("^a[0-9]+$")
    if cid == "nonempty":
        return C(defs.chk_str_nonempty, name="nonempty", title="ne-title", description="ne-desc")
    if cid == "dt_ge":
        return C.ge(pd.Timestamp("2020-01-01"))
    if cid == "dt_lt":
        return C.lt(pd.Timestamp("2021-01-01"))
    if cid == "frame_ok":
        return C(defs.chk_frame_ok, name="frame_ok")
    raise KeyError(cid)


def mk_parser(pid):
    import pandera as pa

    return pa.Parser(getattr(defs, pid))


def dtype_arg(dtype, backend):
    if dtype == "none":
        return None
    if backend == "polars":
        import polars as pl

        return {"int": pl.Int64, "float": pl.Float64, "str": pl.String}[dtype]
    return {"int": "int64", "float": "float64", "str": str, "dt": "datetime64[ns]"}[dtype]


def default_value(dtype):
    import pandas as pd

    return {"int": 1, "none": 1, "float": 1, "str": "a1", "dt": pd.Timestamp("2020-01-02")}[dtype]


def attr_value(spec, attr, backend):
    """pandera constructor / update_column argument for one spec attribute"""
    v = spec.get(attr, COL_DEFAULTS.get(attr))
    if attr == "dtype":
        return dtype_arg(spec["dtype"], backend)
    if attr == "checks":
        return [mk_check(c) for c in v]
    if attr == "parsers":
        return [mk_parser(p) for p in v]
    if attr == "default":
        if v == "falsy":  # a default that is set and falsy
            # (the same value for every numeric dtype, like the truthy default: an update of the dtype keeps the default)
            return {"int": 0, "none": 0, "float": 0, "str": ""}.get(spec["dtype"], default_value(spec["dtype"]))
        return default_value(spec["dtype"]) if v else None
    if attr == "metadata":
        return copy.deepcopy(v)
    return v


def build_column(spec, backend="pandas"):
    pa, ns = _pa(backend)
    attrs = COL_ATTRS if backend == "pandas" else POLARS_COL_ATTRS
    return ns.Column(**{a: attr_value(spec, a, backend) for a in attrs})


def build_index_level(spec):
    import pandera as pa

    return pa.Index(**{a: attr_value(spec, a, "pandas") for a in IDX_ATTRS})


def build_index(ix):
    import pandera as pa

    if ix is None:
        return None
    if "levels" in ix:
        return pa.MultiIndex([build_index_level(l) for l in ix["levels"]],
                             **{a: copy.deepcopy(ix[a]) for a in MI_ATTRS})
    return build_index_level(ix)


def build_schema(spec, backend="pandas"):
    pa, ns = _pa(backend)
    kw = {a: copy.deepcopy(spec[a]) for a in SCHEMA_ATTRS if a not in ("checks", "parsers", "dtype")}
    kw["checks"] = [mk_check(c) for c in spec["checks"]]
    cols = {c["name"]: build_column(c, backend) for c in spec["columns"]}
    if backend == "pandas":
        kw["index"] = build_index(spec["index"])
    return ns.DataFrameSchema(cols, **kw)


# ---------------------------------------------------------------------- data


def joint_const(spec, comp):
    """first member of a joint-unique set of >=2 columns carries a constant: tuples stay distinct through the
    other members, so the joint constraint is strictly weaker than uniqueness of that member alone"""
    u = spec.get("unique")
    return bool(u) and len(u) >= 2 and comp["name"] == u[0] and not comp["unique"] and \
        any(c["name"] == comp["name"] for c in spec["columns"])


def make_cells(comp, nrows, const=False):
    import pandas as pd

    raws = list(comp["raws"][:nrows])
    if const:
        raws = [raws[0]] * nrows
    dt = comp["dtype"]
    if dt in ("int", "none"):
        cells = [int(r) for r in raws]
    elif dt == "float":
        cells = [float(r) for r in raws]
    elif dt == "str":
        cells = [f"a{r}" for r in raws]
    else:
        cells = [pd.Timestamp("2020-01-01") + pd.Timedelta(days=r) for r in raws]
    na = comp.get("null_at")
    if (na is not None and na < nrows and comp["nullable"] and dt in ("float", "str", "dt") and not const
            and "ge0_opts" not in comp["checks"] and not comp.get("default")):
        cells[na] = None
    return cells


PHYS = {"int": "int64", "none": "int64", "float": "float64", "str": "object", "dt": "datetime64[ns]"}


def pd_series(comp, cells, phys=None):
    import pandas as pd

    return pd.Series(cells, dtype=phys or PHYS[comp["dtype"]])


def index_levels(spec):
    ix = spec["index"]
    if ix is None:
        return []
    return ix["levels"] if "levels" in ix else [ix]


def components(spec):
    return list(spec["columns"]) + index_levels(spec)


def build_frame(spec, nrows, backend="pandas", override=None):
    """conforming frame of the spec; override = {component id: (cells, phys|None)} for broken variants"""
    import pandas as pd

    override = override or {}

    def cells_of(comp):
        if comp["id"] in override:
            return override[comp["id"]]
        return make_cells(comp, nrows, joint_const(spec, comp)), None

    if backend == "polars":
        import polars as pl

        pld = {"int": pl.Int64, "none": pl.Int64, "float": pl.Float64, "str": pl.String}
        data = {}
        for c in spec["columns"]:
            cells, phys = cells_of(c)
            pdt = {"float64": pl.Float64, "object": pl.String, None: pld[c["dtype"]]}[phys]
            data[c["name"]] = pl.Series(c["name"], cells, dtype=pdt, strict=False)
        return pl.DataFrame(data)
    cols = {}
    for c in spec["columns"]:
        cells, phys = cells_of(c)
        cols[c["name"]] = pd_series(c, cells, phys)
    df = pd.DataFrame(cols, index=pd.RangeIndex(nrows))
    if not spec["columns"]:
        df = pd.DataFrame(index=pd.RangeIndex(nrows))
    lv = index_levels(spec)
    if lv:
        arrs = []
        for l in lv:
            cells, phys = cells_of(l)
            arrs.append(pd.Index(pd_series(l, cells, phys), name=l["name"]))
        if "levels" in spec["index"]:
            df.index = pd.MultiIndex.from_arrays(arrs, names=[l["name"] for l in lv])
        else:
            df.index = arrs[0]
    return df


def break_cells(spec, nrows, breaker):
    """override dict for a frame violating exactly the constraint named by the breaker, or None if not applicable"""
    kind, tid = breaker["kind"], breaker.get("target")
    if kind == "joint_dup":
        u = spec.get("unique")
        if not u or nrows < 2:
            return None
        out = {}
        for c in spec["columns"]:
            if c["name"] in u:
                cells = make_cells(c, nrows, joint_const(spec, c))
                if cells[0] is None:
                    return None
                cells[1] = cells[0]
                out[c["id"]] = (cells, None)
        return out if len(out) == len(u) else None
    comp = next((c for c in components(spec) if c["id"] == tid), None)
    if comp is None:
        return None
    cells = make_cells(comp, nrows, joint_const(spec, comp))
    if kind == "check":
        if not comp["checks"]:
            return None
        import pandas as pd

        bad = BAD[comp["checks"][0]]
        if comp["dtype"] == "dt":
            bad = pd.Timestamp(bad)
        elif comp["dtype"] == "float":
            bad = float(bad)
        cells[0] = bad
        return {tid: (cells, None)}
    if kind == "dup":
        if not comp["unique"] or nrows < 2 or cells[0] is None:
            return None
        cells[1] = cells[0]
        return {tid: (cells, None)}
    if kind == "null":
        if comp["nullable"] or comp["dtype"] not in ("float", "str", "dt") or comp.get("default"):
            return None
        cells[0] = None
        return {tid: (cells, None)}
    if kind == "dtype":
        if comp["dtype"] == "int":
            return {tid: ([float(x) for x in cells], "float64")}
        if comp["dtype"] == "float" and all(x is not None for x in cells):
            return {tid: ([f"a{int(x)}" for x in cells], "object")}
        return None
    return None


# --------------------------------------------------------- expected effect of an op


def _col(spec, name):
    return next((c for c in spec["columns"] if c["name"] == name), None)


def _names(spec):
    return [c["name"] for c in spec["columns"]]


def to_index_level(col):
    lv = {k: copy.deepcopy(v) for k, v in col.items() if k not in ("required", "regex")}
    return lv


def to_column(level):
    c = copy.deepcopy(level)
    c["required"] = True
    c["regex"] = False
    return c


def apply_op(spec, op, backend="pandas"):
    """Expected spec after the op.  Returns (new_spec, info); raises Invalid / Unspecified.
    info: {"touched": [names], "moved": [names], "added": [names], "unique_members_removed": bool}"""
    s = copy.deepcopy(spec)
    kind = op["op"]
    names = _names(s)
    info = {"touched": [], "moved": [], "added": [], "unique_unspecified": False}
    uniq = list(s["unique"] or [])

    if kind == "add_columns":
        for c in op["cols"]:
            c = copy.deepcopy(c)
            info["added"].append(c["name"])
            if c["name"] in names:
                if c["name"] in uniq:
                    raise Unspecified("add_columns replaces a member of schema-level unique")
                s["columns"][names.index(c["name"])] = c
            else:
                s["columns"].append(c)
                names.append(c["name"])
        return s, info

    if kind in ("remove_columns", "select_columns"):
        cols = op["cols"]
        missing = [c for c in cols if c not in names]
        if missing:
            raise Invalid("unknown-key")
        if kind == "remove_columns":
            if len(set(cols)) != len(cols):
                raise Unspecified("duplicate keys in remove_columns")
            keep = [n for n in names if n not in cols]
        else:
            if len(set(cols)) != len(cols):
                raise Unspecified("duplicate keys in select_columns")
            keep = list(cols)
        if any(u not in keep for u in uniq):
            # docs do not say what becomes of a joint-uniqueness constraint whose member is removed
            info["unique_unspecified"] = True
        s["columns"] = [_col(s, n) for n in keep]
        return s, info

    if kind == "rename_columns":
        m = op["map"]
        if any(k not in names for k in m):
            raise Invalid("unknown-key")
        m = {k: v for k, v in m.items() if k != v}
        if any(v in names for v in m.values()):
            raise Invalid("rename-onto-existing")
        if len(set(m.values())) != len(m):
            raise Unspecified("two columns renamed to the same new name")
        for c in s["columns"]:
            if c["name"] in m:
                info["touched"].append(m[c["name"]])
                c["name"] = m[c["name"]]
        if s["unique"]:
            s["unique"] = [m.get(u, u) for u in s["unique"]]
        return s, info

    if kind in ("update_column", "update_columns"):
        ups = {op["col"]: {op["attr"]: op["value"]}} if kind == "update_column" else op["updates"]
        if any(k not in names for k in ups):
            raise Invalid("unknown-key")
        if any("name" in kw for kw in ups.values()):
            raise Invalid("name-update")
        for k, kw in ups.items():
            c = _col(s, k)
            for a, v in kw.items():
                c[a] = copy.deepcopy(v)
            info["touched"].append(k)
        return s, info

    if kind == "set_index":
        if backend != "pandas":
            raise Unspecified("set_index is a pandas notion")
        keys, drop, append = op["keys"], op["drop"], op["append"]
        if any(k not in names for k in keys):
            raise Invalid("unknown-key")
        if not keys or len(set(keys)) != len(keys):
            raise Unspecified("empty/duplicate keys")
        old = index_levels(s)
        if append and not old:
            raise Unspecified("append=True on a schema without index (index=None means 'not validated')")
        if append and any(k in [l["name"] for l in old] for k in keys):
            raise Unspecified("duplicate index level names")
        new = [to_index_level(_col(s, k)) for k in keys]
        info["moved"] = list(keys)
        if append:
            levels = old + new
            if "levels" in s["index"]:
                s["index"]["levels"] = levels
            else:
                s["index"] = {"levels": levels, "coerce": False, "strict": False, "name": None, "ordered": True,
                              "unique": None}
        else:
            s["index"] = new[0] if len(new) == 1 else {"levels": new, "coerce": False, "strict": False, "name": None,
                                                       "ordered": True, "unique": None}
        if drop:
            if any(u in keys for u in uniq):
                info["unique_unspecified"] = True
            s["columns"] = [c for c in s["columns"] if c["name"] not in keys]
        return s, info

    if kind == "reset_index":
        if backend != "pandas":
            raise Unspecified("reset_index is a pandas notion")
        level, drop = op["level"], op["drop"]
        old = index_levels(s)
        if level is not None and len(level) == 0:
            return s, info  # explicit empty list: nothing is reset (pandas: no-op), with or without an index
        if not old:
            raise Invalid("no-index")
        onames = [l["name"] for l in old]
        lv = list(onames) if level is None else list(level)
        if any(x not in onames for x in lv):
            raise Invalid("unknown-key")
        if len(set(lv)) != len(lv):
            raise Unspecified("duplicate levels")
        if not drop and any(x in names for x in lv):
            raise Unspecified("reset level name collides with a column (pandas raises)")
        rest = [l for l in old if l["name"] not in lv]
        moved = [l for l in old if l["name"] in lv]  # index order (pandas order for level=None)
        if level is not None:
            moved = sorted(moved, key=lambda l: lv.index(l["name"]))
        if not rest:
            s["index"] = None
        elif len(rest) == 1:
            s["index"] = rest[0]
        else:
            s["index"]["levels"] = rest
        if not drop:
            for l in moved:
                s["columns"].append(to_column(l))
                info["moved"].append(l["name"])
        info["moved_order_free"] = level is not None and len(lv) >= 2
        return s, info

    raise Unspecified(f"unknown op {kind}")


# ------------------------------------------------------------ paired frame operation


def frame_op(df, op, new_spec, nrows, backend="pandas", keep_broken=False):
    """The dataframe operation that mirrors the schema op (pandas / polars)."""
    import pandas as pd

    kind = op["op"]
    if backend == "polars":
        import polars as pl

        pld = {"int": pl.Int64, "none": pl.Int64, "float": pl.Float64, "str": pl.String}
        if kind == "add_columns":
            for c in op["cols"]:
                cc = _col(new_spec, c["name"])
                df = df.with_columns(pl.Series(c["name"], make_cells(cc, nrows, joint_const(new_spec, cc)),
                                               dtype=pld[cc["dtype"]], strict=False))
            return df
        if kind == "remove_columns":
            return df.drop(op["cols"])
        if kind == "select_columns":
            return df.select(op["cols"])
        if kind == "rename_columns":
            return df.rename({k: v for k, v in op["map"].items() if k != v})
        if kind in ("update_column", "update_columns"):
            cols = [op["col"]] if kind == "update_column" else list(op["updates"])
            for n in cols:
                cc = _col(new_spec, n)
                df = df.with_columns(pl.Series(n, make_cells(cc, nrows, joint_const(new_spec, cc)),
                                               dtype=pld[cc["dtype"]], strict=False))
            return df
        raise Unspecified(kind)

    if kind == "add_columns":
        for c in op["cols"]:
            cc = _col(new_spec, c["name"])
            s = pd_series(cc, make_cells(cc, nrows, joint_const(new_spec, cc)))
            s.index = df.index
            df = df.assign(**{c["name"]: s})
        return df
    if kind == "remove_columns":
        return df.drop(columns=op["cols"])
    if kind == "select_columns":
        return df[op["cols"]]
    if kind == "rename_columns":
        return df.rename(columns=op["map"])
    if kind in ("update_column", "update_columns"):
        cols = [op["col"]] if kind == "update_column" else list(op["updates"])
        df = df.copy()
        for n in cols:
            cc = _col(new_spec, n)
            s = pd_series(cc, make_cells(cc, nrows, joint_const(new_spec, cc)))
            s.index = df.index
            df[n] = s
        return df
    if kind == "set_index":
        return df.set_index(op["keys"], drop=op["drop"], append=op["append"])
    if kind == "reset_index":
        before = list(df.columns)
        out = df.reset_index(level=op["level"], drop=op["drop"])
        if not op["drop"]:
            # pandas inserts the reset levels in front; the docstring example of reset_index shows the schema
            # listing them after the existing columns.  Column position is not part of the mirrored operation.
            new = [c for c in out.columns if c not in before]
            want = [c["name"] for c in new_spec["columns"] if c["name"] in new]
            out = out[before + want]
        return out
    raise Unspecified(kind)
