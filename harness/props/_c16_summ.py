"""C16: structural summary of a schema (fingerprint + identity of generated check functions) and a
semantic diff whose bucket keys name *what* differs (option / column set / column attribute / check multiset)."""
from __future__ import annotations

import json

from .. import fp
from . import _c16_rt as rt


def _probe(fn):
    try:
        r = fn(rt.PROBE)
    except BaseException:  # built-in checks / foreign callables do not understand PROBE
        return None
    if isinstance(r, list) and len(r) == 4 and r[0] == "C16":
        return r[1:]
    return None


def _desc(o, fn_attr):
    d = fp.fingerprint(o, "none")
    if not isinstance(d, dict):
        return {"val": d}
    d = dict(d)
    d["ident"] = _probe(getattr(o, fn_attr, None)) if callable(getattr(o, fn_attr, None)) else None
    return d


def summarize(o, _depth=0):
    """JSON-able summary.  Lists of Check / Parser objects become *sorted* lists of descriptors
    (a component's checks are compared as a multiset; generated parsers of one component commute)."""
    from pandera.api.base.schema import BaseSchema
    from pandera.api.checks import Check
    from pandera.api.parsers import Parser

    if _depth > 8:
        return "<depth>"
    if isinstance(o, Check):
        return _desc(o, "_check_fn")
    if isinstance(o, Parser):
        return _desc(o, "_parser_fn")
    if isinstance(o, BaseSchema):
        out = {"__class__": type(o).__module__ + "." + type(o).__qualname__}
        for k, v in sorted(vars(o).items()):
            if k in ("checks", "parsers") and isinstance(v, (list, tuple)):
                items = [summarize(x, _depth + 1) for x in v]
                items.sort(key=lambda d: json.dumps(d, sort_keys=True, default=repr))
                out[k] = {"$multiset": items}
            else:
                out[k] = summarize(v, _depth + 1)
        return out
    if isinstance(o, (list, tuple)):
        return [summarize(x, _depth + 1) for x in o]
    if isinstance(o, dict) and any(isinstance(v, BaseSchema) for v in o.values()):
        return {"$ordered": [[fp.fingerprint(k, "none"), summarize(v, _depth + 1)] for k, v in o.items()]}
    return fp.fingerprint(o, "none")


def _j(x):
    return json.dumps(x, sort_keys=True, default=repr)


def _strip(d, keys):
    return {k: v for k, v in d.items() if k not in keys} if isinstance(d, dict) else d


def diff(exp, got, path="", out=None):
    """list of (kind, detail); kind has no data values / names / indices."""
    if out is None:
        out = []
    if len(out) > 12:
        return out
    if isinstance(exp, dict) and isinstance(got, dict) and "$multiset" in exp and "$multiset" in got:
        _multiset_diff(exp["$multiset"], got["$multiset"], path, out)
    elif isinstance(exp, dict) and isinstance(got, dict) and "$ordered" in exp and "$ordered" in got:
        ek = [_j(k) for k, _ in exp["$ordered"]]
        gk = [_j(k) for k, _ in got["$ordered"]]
        if sorted(ek) != sorted(gk):
            out.append((f"{path}:names", {"expected": ek, "observed": gk}))
        elif ek != gk:
            out.append((f"{path}:order", {"expected": ek, "observed": gk}))
        gd = {_j(k): v for k, v in got["$ordered"]}
        for k, v in exp["$ordered"]:
            if _j(k) in gd:
                diff(v, gd[_j(k)], path + ".*", out)
    elif isinstance(exp, dict) and isinstance(got, dict):
        for k in sorted(set(exp) | set(got)):
            if k not in exp or k not in got:
                out.append((f"{path}.{k}:presence", {"expected": exp.get(k, "<absent>"), "observed": got.get(k, "<absent>")}))
            else:
                diff(exp[k], got[k], f"{path}.{k}", out)
    elif isinstance(exp, list) and isinstance(got, list) and len(exp) == len(got):
        for e, g in zip(exp, got):
            diff(e, g, path + "[]", out)
    elif _j(exp) != _j(got):
        out.append((path or ".", {"expected": _short(exp), "observed": _short(got)}))
    return out


def _short(x):
    s = _j(x)
    return x if len(s) < 300 else s[:300] + "..."


def _multiset_diff(exp, got, path, out):
    e = sorted(_j(x) for x in exp)
    g = sorted(_j(x) for x in got)
    only_e = list(e)
    only_g = []
    for x in g:
        if x in only_e:
            only_e.remove(x)
        else:
            only_g.append(x)
    if not only_e and not only_g:
        return
    ee = [json.loads(x) for x in only_e]
    gg = [json.loads(x) for x in only_g]
    # pair up items that differ only in their name / only in the class they were bound to
    for field, label in (("name", "name"), ("ident", "ident")):
        for x in list(ee):
            m = next((y for y in gg if _j(_strip(x, (field, "error"))) == _j(_strip(y, (field, "error")))), None)
            if m is not None:
                out.append((f"{path}:{label}", {"expected": _brief(x), "observed": _brief(m)}))
                ee.remove(x)
                gg.remove(m)
    # a replaced check shows up as one missing + one extra entry (two buckets, each attributable on its own)
    if ee:
        out.append((f"{path}:missing", {"missing": [_brief(x) for x in ee]}))
    if gg:
        out.append((f"{path}:extra", {"unexpected": [_brief(x) for x in gg]}))


def _brief(d):
    if not isinstance(d, dict):
        return d
    keep = ("name", "ident", "statistics", "element_wise", "ignore_na", "raise_warning", "n_failure_cases", "error",
            "title", "description")
    return {k: d.get(k) for k in keep if k in d}
