"""C18 family (iii): validation depth only removes checks (pandas + polars default depths)."""
from __future__ import annotations

from hypothesis import strategies as st

from .. import fp, gen, known, refmodel, spec as sp
from ..core import Eval, Family
from . import c01

DEPTHS = ["SCHEMA_ONLY", "DATA_ONLY", "SCHEMA_AND_DATA"]


def _verdict(schema, data, depth, lazy):
    from pandera import config

    config.reset_config_context()
    try:
        with config.config_context(validation_depth=config.ValidationDepth[depth]):
            return fp.outcome(lambda: schema.validate(data, lazy=lazy))
    finally:
        config.reset_config_context()


def eval_depth(case):
    ev = Eval()
    spec, table = case["spec"], case["table"]
    try:
        ref = refmodel.ref_validate(spec, table)
    except refmodel.Undefined as e:
        ev.skipped = "undefined:" + str(e).split(" on ")[0][:40]
        return ev
    if any(e.reason == "<check-on-wrong-dtype>" for e in ref.errors):
        ev.skipped = "a check runs on data of the wrong dtype (outcome undefined)"
        return ev
    schema, data = c01.build(case)
    so, do = ref.accept_at("SCHEMA_ONLY"), ref.accept_at("DATA_ONLY")
    ev.labels.append("kind=" + spec.get("kind", "dataframe"))
    ev.labels.append(f"ref:SO={'A' if so else 'R'},DO={'A' if do else 'R'}")
    ev.nontrivial = so != do
    parser_phase = any(e.reason in ("COLUMN_NOT_IN_SCHEMA", "COLUMN_NOT_ORDERED") for e in ref.errors)
    for lazy in (False, True):
        mode = "lazy" if lazy else "eager"
        out = {d: _verdict(schema, data, d, lazy) for d in DEPTHS}
        if any(o["kind"] in ("internal", "usage") for o in out.values()):
            ev.labels.append("internal-outcome")
            continue
        acc = {d: out[d]["kind"] == "ok" for d in DEPTHS}
        # decomposition law (needs no scope assignment)
        if acc["SCHEMA_AND_DATA"] != (acc["SCHEMA_ONLY"] and acc["DATA_ONLY"]):
            ev.add(f"depth-decomposition-broken:{mode}", {"accept": acc, "parser_phase_violation": parser_phase,
                                                          "reference": [e.key() for e in ref.errors][:5]})
        # restricted schemas
        for d, want in (("SCHEMA_ONLY", so), ("DATA_ONLY", do), ("SCHEMA_AND_DATA", ref.accept)):
            if acc[d] != want:
                sym = "rejects" if want else "accepts"
                why = "+".join(out[d].get("reasons", [])) if want else "+".join(sorted({e.reason for e in ref.errors if (
                    d == "SCHEMA_AND_DATA" or e.scope == ("SCHEMA" if d == "SCHEMA_ONLY" else "DATA"))}))
                ev.add(f"{d}-{sym}:{mode}:{why}", {"accept": acc, "parser_phase_violation": parser_phase,
                                                    "reference": [(e.key(), e.scope) for e in ref.errors][:5]})
    # default depth == full depth for pandas
    from pandera import config

    config.reset_config_context()
    o = fp.outcome(lambda: schema.validate(data, lazy=True))
    if o["kind"] not in ("internal", "usage") and (o["kind"] == "ok") != ref.accept:
        ev.add("default-depth-not-full", {"pandera": o["kind"], "reference_accept": ref.accept})
    return ev


_UNSCOPED = ("COLUMN_NOT_IN_SCHEMA", "COLUMN_NOT_ORDERED", "INVALID_COLUMN_NAME", "MISMATCH_INDEX")


@known.finding("C18/structural-violations-raised-under-DATA_ONLY")
def _kf_unscoped(family, case, disc):
    """strict / ordered / regex-without-match / flat-index-schema-on-MultiIndex violations are raised from code that
    is not wrapped in validate_scope, so DATA_ONLY still rejects (and SAD != SO and DO)."""
    if family == "polars_default_depth":
        d = disc.detail if isinstance(disc.detail, dict) else {}
        return (":depth=DATA_ONLY:rejects" in disc.kind and d.get("schema_bad") and not d.get("data_bad")
                and set(d.get("reasons") or []) <= {"COLUMN_NOT_IN_SCHEMA", "COLUMN_NOT_ORDERED"})
    d = disc.detail if isinstance(disc.detail, dict) else {}
    refs = {r[0][0] if isinstance(r[0], (list, tuple)) else r[0] for r in d.get("reference", [])}
    if not (refs & set(_UNSCOPED)):
        return False
    if disc.kind.startswith("DATA_ONLY-rejects:"):
        reasons = set(disc.kind.split(":", 2)[2].split("+"))
        return reasons <= set(_UNSCOPED)
    if disc.kind.startswith("depth-decomposition-broken"):
        acc = d.get("accept", {})
        return acc.get("DATA_ONLY") is False
    return False


# ------------------------------------------------------------------------- polars defaults


def strat_polars():
    cell = st.integers(-3, 3)
    return st.fixed_dictionaries({
        "cells": st.lists(cell, min_size=0, max_size=5),
        "min_value": st.integers(-3, 3),
        "dtype_ok": st.booleans(),
        # (a subclass of pl.DataFrame - e.g. pandera.typing.polars.DataFrame - is a DataFrame)
        "container": st.sampled_from(["DataFrame", "DataFrame", "LazyFrame", "LazyFrame", "DataFrameSubclass", "DataFrameSubclass"]),
        "depth": st.sampled_from([None] + DEPTHS),
        "lazy": st.booleans(),
        "extra_col": st.booleans(),
        "strict": st.booleans(),
        # the same column through the other public entry points: a standalone Column, a DataFrameModel
        "entry": st.sampled_from(["schema", "schema", "column", "model"]),
    })


def eval_polars(case):
    import pandera as pa
    import pandera.polars as pap
    import polars as pl
    from pandera import config

    ev = Eval()
    config.reset_config_context()
    cells = case["cells"]
    cols = {"a": pl.Series("a", cells, dtype=pl.Int64)}
    if case["extra_col"]:
        cols["zz"] = pl.Series("zz", [1] * len(cells), dtype=pl.Int64)
    df = pl.DataFrame(cols)
    obj = df.lazy() if case["container"] == "LazyFrame" else df
    if case["container"] == "DataFrameSubclass":
        obj = type("UserFrame", (pl.DataFrame,), {})(df)
    entry = case.get("entry", "schema")
    dt = pl.Int64 if case["dtype_ok"] else pl.Utf8
    if entry == "column":
        schema = pap.Column(dt, pa.Check.gt(case["min_value"]), name="a")
    elif entry == "model":
        schema = type("M", (pap.DataFrameModel,), {
            "__annotations__": {"a": dt}, "a": pap.Field(gt=case["min_value"]),
            "Config": type("Config", (), {"strict": case["strict"]}), "__module__": __name__})
    else:
        schema = pap.DataFrameSchema({"a": pap.Column(dt, pa.Check.gt(case["min_value"]))}, strict=case["strict"])
    schema_bad = (not case["dtype_ok"]) or (case["strict"] and case["extra_col"] and entry != "column")
    data_bad = case["dtype_ok"] and any(c <= case["min_value"] for c in cells)
    eff = case["depth"] or ("SCHEMA_ONLY" if case["container"] == "LazyFrame" else "SCHEMA_AND_DATA")
    want_reject = (schema_bad and eff != "DATA_ONLY") or (data_bad and eff != "SCHEMA_ONLY")
    if not case["dtype_ok"] and eff != "SCHEMA_ONLY":
        # a data check on a column of the wrong type: outcome of the check itself is not specified
        if eff == "DATA_ONLY":
            ev.skipped = "data check on wrong-dtype column under DATA_ONLY"
            return ev
    ev.labels.append(f"polars:{case['container']}:depth={case['depth']}")
    ev.labels.append("polars:entry=" + entry)
    if entry == "column" and case["container"] == "LazyFrame" and case["depth"] is None:
        # the documented schema-only default for LazyFrames is stated for DataFrameSchema / DataFrameModel; which depth a
        # standalone Column applies to a LazyFrame when nothing is configured is not documented (it validates the data)
        ev.skipped = "default depth of a standalone Column on a LazyFrame (undocumented)"
        return ev
    ev.nontrivial = schema_bad != data_bad
    before = fp.config_state()

    def run():
        if case["depth"] is None:
            return schema.validate(obj, lazy=case["lazy"])
        with config.config_context(validation_depth=config.ValidationDepth[case["depth"]]):
            return schema.validate(obj, lazy=case["lazy"])

    o = fp.outcome(run)
    if o["kind"] in ("internal", "usage"):
        ev.add("polars-depth-internal:" + o.get("exc_type", "?"), {"msg": o.get("msg")})
    else:
        rejected = o["kind"] != "ok"
        if rejected != want_reject:
            ev.add(f"polars-depth-verdict:{case['container']}:depth={case['depth']}:{'accepts' if want_reject else 'rejects'}"
                   + ("" if entry == "schema" else ":entry=" + entry),
                   {"effective_depth": eff, "schema_bad": schema_bad, "data_bad": data_bad, "pandera": o["kind"],
                    "reasons": o.get("reasons")})
        elif not rejected and case["container"] != "DataFrameSubclass" and fp.kind_of(o["value"]) != "pl." + case["container"]:
            ev.add("polars-container-kind-changed", {"in": case["container"], "out": fp.kind_of(o["value"])})
    if fp.config_state() != before:
        ev.add("config-not-restored-after-polars-validate", {"before": before, "after": fp.config_state()})
    config.reset_config_context()
    return ev


FAMILIES = [
    Family("depth", eval_depth, strategy=lambda: gen.repaired_case(), n_quick=300, n_thorough=3000, shards_quick=4,
           shards_thorough=16, required_labels=["ref:SO=A,DO=R", "ref:SO=R,DO=A", "ref:SO=A,DO=A"]),
    Family("polars_default_depth", eval_polars, strategy=strat_polars, n_quick=700, n_thorough=3500, shards_quick=2,
           shards_thorough=8, required_labels=["polars:entry=column", "polars:entry=model", "polars:entry=schema"]),
]
