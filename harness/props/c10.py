"""C10 - coercion either yields conforming data or names exactly the uncoercible values.

Families
  pandas   every covered pandas-engine dtype x {Series, Index, DataFrame column via Column(coerce=True),
           SeriesSchema(coerce=True)} x containers drawn from a per-dtype mixed value pool
  polars   every scalar polars-engine dtype x {try_coerce on a LazyFrame column, on the whole frame,
           DataFrameSchema(Column(coerce=True)).validate} x typed source columns (String/Int64/Float64/...)

Oracle (see _c10_pandas.py / _c10_polars.py): the harness's own conservative element classifier
(exact / fail / null_ok / null_fail / grey) plus pandera's own coerce_value for grey elements.
"""
from __future__ import annotations

from collections import Counter

from hypothesis import strategies as st

from .. import known
from ..core import Eval, Family, HarnessError
from . import _c10_pandas as P
from . import _c10_values as V

PROPERTY = "C10"
LEVEL = "exploration"
RULE = (
    "Hypothesis draws a dtype spec (uniformly over the covered dtype classes of the engine), a container kind and "
    "0-6 cells from that dtype's value pool partitioned by the harness's own classifier into exactly-convertible / "
    "unconvertible / null / grey (lossy or convention dependent) values; mode 'free' mixes all, 'no-null' and "
    "'no-bad' avoid the trigger of the recorded null / element-wise defects so the search continues behind them, "
    "'good' draws conforming input. Non-trivial: the container mixes >=2 of {convertible, unconvertible, null}. "
    "Distinct = hash of the canonical JSON case."
)
ASSUMPTIONS = [
    "the harness's element classifier (own()) only claims 'exact'/'fail' where numpy/pandas/polars document the "
    "conversion (integers in range, exactly representable floats, ISO dates, category members, non-numeric strings); "
    "everything else is 'grey' and judged by pandera's own coerce_value (pandas) or a singleton strict cast (polars)",
    "all null kinds are compared as one value when matching reported failure cases with input elements",
    "pd.to_datetime infers one string format per container and cannot mix naive and aware values: such containers "
    "are not required to convert as a whole",
    "failure cases are read from ParserError.failure_cases / SchemaError.failure_cases (columns index, failure_case)",
]

MAX_LEN = 6
SIZES = [0, 1, 1, 2, 2, 2, 3, 3, 3, 4, 4, 5, 6]

# ----------------------------------------------------------------------------- pandas


def _fc_pairs(fc):
    """pandera failure_cases DataFrame -> list of (label, value) or raises ValueError."""
    import pandas as pd

    if fc is None:
        return []
    if not isinstance(fc, pd.DataFrame) or "failure_case" not in fc.columns or "index" not in fc.columns:
        raise ValueError(f"unexpected failure_cases: {type(fc).__name__}")
    return list(zip(list(fc["index"].astype(object)), list(fc["failure_case"].astype(object))))


def _run_pandas(case, T, obj):
    """-> {"kind": "ok", "value"} | {"kind": "parser", "pairs"} | {"kind": "other", ...}"""
    import pandas as pd
    import pandera as pa
    from pandera import errors

    route = case["container"]
    try:
        if route in ("series", "index"):
            return {"kind": "ok", "value": T.try_coerce(obj)}
        if route == "column":
            schema = pa.DataFrameSchema({obj.name: pa.Column(T, coerce=True, nullable=True)})
            out = schema.validate(pd.DataFrame({obj.name: obj}))
            if not isinstance(out, pd.DataFrame) or list(out.columns) != [obj.name]:
                return {"kind": "other", "exc_type": "bad-return", "msg": repr(type(out))}
            return {"kind": "ok", "value": out[obj.name]}
        if route == "regex_column":
            # one regex Column coercing two columns with the same cells: each is coerced, and reported, on its own
            schema = pa.DataFrameSchema({"^" + str(obj.name): pa.Column(T, coerce=True, nullable=True, regex=True)})
            twin = str(obj.name) + "2"
            if case.get("regex_lazy"):
                # lazily, the report has to name the uncoercible cells of *both* matched columns
                try:
                    out = schema.validate(pd.DataFrame({obj.name: obj, twin: obj.copy()}), lazy=True)
                except errors.SchemaErrors as e:
                    fc = e.failure_cases
                    fc = fc[fc["check"].astype(str).str.startswith("coerce_dtype")]
                    # (an error that names no cell arrives lazily as one entry without label and value: the same as
                    # failure_cases=None of the eager ParserError)
                    fc = fc[~(fc["index"].isna() & fc["failure_case"].isna())]
                    if fc.empty:
                        return {"kind": "parser", "pairs": []}
                    if fc.empty:
                        return {"kind": "other", "exc_type": "SchemaErrors-without-coercion-entries", "msg": str(e)[:200]}
                    # (the entries carry the column schema's pattern as "column", so the two matched columns cannot be told
                    # apart by name: every uncoercible cell has to appear twice)
                    from collections import Counter

                    cnt = Counter(map(repr, _fc_pairs(fc)))
                    if any(v % 2 for v in cnt.values()):  # (a multiple of two: the same label/value pair may repeat in the data)
                        return {"kind": "other", "exc_type": "regex-matched-twin-missing-from-lazy-report",
                                "msg": f"entries per uncoercible cell: {sorted(set(cnt.values()))}"}
                    left, pairs = Counter({k: v // 2 for k, v in cnt.items()}), []
                    for pr in _fc_pairs(fc):
                        if left[repr(pr)] > 0:
                            left[repr(pr)] -= 1
                            pairs.append(pr)
                    return {"kind": "parser", "pairs": pairs}
            else:
                out = schema.validate(pd.DataFrame({obj.name: obj, twin: obj.copy()}))
            if not isinstance(out, pd.DataFrame) or list(out.columns) != [obj.name, twin]:
                return {"kind": "other", "exc_type": "bad-return", "msg": repr(type(out))}
            if not out[obj.name].astype(object).map(repr).tolist() == out[twin].astype(object).map(repr).tolist() \
                    or out[obj.name].dtype != out[twin].dtype:
                return {"kind": "other", "exc_type": "regex-matched-twins-coerced-differently",
                        "msg": f"{out[obj.name].dtype} vs {out[twin].dtype}"}
            return {"kind": "ok", "value": out[obj.name]}
        if route == "series_schema":
            out = pa.SeriesSchema(T, coerce=True, nullable=True, name=obj.name).validate(obj)
            return {"kind": "ok", "value": out}
        raise HarnessError(f"unknown container {route!r}")
    except errors.ParserError as e:
        if route not in ("series", "index"):
            return {"kind": "other", "exc_type": "ParserError-leaked", "msg": str(e)[:200]}
        try:
            return {"kind": "parser", "pairs": _fc_pairs(e.failure_cases)}
        except ValueError as ve:
            return {"kind": "other", "exc_type": "malformed-failure-cases", "msg": str(ve)}
    except errors.SchemaError as e:
        rc = getattr(e.reason_code, "name", str(e.reason_code))
        if route in ("series", "index") or rc != "DATATYPE_COERCION":
            return {"kind": "other", "exc_type": f"SchemaError:{rc}", "msg": str(e)[:300]}
        try:
            return {"kind": "parser", "pairs": _fc_pairs(e.failure_cases)}
        except ValueError as ve:
            return {"kind": "other", "exc_type": "malformed-failure-cases", "msg": str(ve)}
    except HarnessError:
        raise
    except Exception as e:  # anything else is the wrong channel
        import traceback

        tb = traceback.extract_tb(e.__traceback__)
        inner = next((f"{fr.filename.split('/pandera/')[-1]}:{fr.name}" for fr in reversed(tb)
                      if "/pandera/" in fr.filename), "?")
        return {"kind": "other", "exc_type": type(e).__name__, "msg": str(e)[:300], "where": inner}


def _elements(container):
    return list(container.astype(object))


def eval_pandas(case):
    import numpy as np
    import pandas as pd
    from pandera.engines import pandas_engine as pe

    ev = Eval()
    spec = case["dtype"]
    fam = spec["k"]
    T = P.build_dtype(spec)
    try:
        obj, elems, labels = P.build_container(case)
    except Exception as e:
        ev.skipped = f"container-not-constructible:{type(e).__name__}"
        return ev
    route = case["container"]
    if route == "index" and spec["name"] == "float16":
        ev.skipped = "pandas-has-no-float16-index"
        return ev
    if route == "index" and any(type(v).__name__ == "Decimal" for v in elems) and \
            any(type(v).__name__ != "Decimal" for v in elems):
        ev.skipped = "pandas-index-mixing-Decimal-with-other-labels-is-not-orderable"
        return ev
    ev.labels += [f"pd:dtype={fam}", f"pd:container={route}", f"pd:mode={case.get('mode', 'free')}"]

    # --- per element opinions
    cls = []
    for v in elems:
        c, exp = P.own(spec, v)
        try:
            T.coerce_value(v)
            cvok = True
        except Exception:
            cvok = False
        cls.append({"own": c, "exp": exp, "cv": cvok})
    kinds = set()
    for c in cls:
        if c["own"] == P.EXACT or (c["own"] == P.GREY and c["cv"]):
            kinds.add("convertible")
        elif c["own"] in (P.FAIL, P.NULL_FAIL) or (c["own"] == P.GREY and not c["cv"]):
            kinds.add("unconvertible")
        if c["own"] in (P.NULL_OK, P.NULL_FAIL):
            kinds.add("null")
    ev.nontrivial = len(kinds) >= 2
    ev.labels.append("pd:mix=" + ("+".join(sorted(kinds)) or "empty"))
    if any(c["own"] == P.GREY for c in cls):
        ev.labels.append("pd:has-grey")

    before = [V.key(v) for v in elems]
    res = _run_pandas(case, T, obj)
    try:
        after = [V.key(v) for v in _elements(obj)]
    except Exception:
        after = None
    if after != before:
        ev.add(f"input-mutated:{fam}", {"before": before, "after": after})

    tag = f"{fam}:{'index' if route == 'index' else 'series'}"
    must_fail = [i for i, c in enumerate(cls) if c["own"] in (P.FAIL, P.NULL_FAIL)]
    all_clear = all(c["own"] in (P.EXACT, P.NULL_OK) for c in cls)

    if res["kind"] == "other":
        ev.labels.append("pd:outcome=other")
        ev.add(f"wrong-channel:{res['exc_type']}:{fam}", {k: res[k] for k in res if k != "kind"})
        return ev

    if res["kind"] == "ok":
        ev.labels.append("pd:outcome=ok")
        out = res["value"]
        want_type = pd.Index if route == "index" else pd.Series
        if not isinstance(out, want_type):
            ev.add(f"ok-wrong-container-type:{fam}", {"got": type(out).__name__})
            return ev
        if len(out) != len(elems):
            ev.add(f"ok-length-changed:{fam}", {"in": len(elems), "out": len(out)})
            return ev
        if route != "index":
            if [V.key(x) for x in out.index] != [V.key(x) for x in labels]:
                ev.add(f"ok-labels-changed:{fam}", {"in": [V.show(x) for x in labels],
                                                    "out": [V.show(x) for x in out.index]})
        if getattr(out, "name", None) != obj.name:
            ev.add(f"ok-name-changed:{fam}", {"in": obj.name, "out": V.show(getattr(out, "name", None))})
        if must_fail:
            ev.add(f"accepted-unconvertible:{tag}",
                   {"elements": [V.show(elems[i]) for i in must_fail], "out": [V.show(x) for x in _elements(out)],
                    "out_dtype": str(out.dtype)})
        # the type's own check
        try:
            chk = T.check(pe.Engine.dtype(out.dtype), out)
            ok = bool(np.all(np.asarray(chk)))
        except Exception as e:
            ok = False
            chk = f"{type(e).__name__}: {e}"[:200]
        if not ok:
            ev.add(f"coerced-fails-own-check:{fam}", {"out_dtype": str(out.dtype), "check": V.show(chk),
                                                      "out": [V.show(x) for x in _elements(out)]})
        outs = _elements(out)
        for i, c in enumerate(cls):
            if c["own"] == P.EXACT and not P.same_value(spec, outs[i], c["exp"]):
                ev.add(f"exact-value-changed:{fam}", {"pos": i, "in": V.show(elems[i]), "expected": V.show(c["exp"]),
                                                      "out": V.show(outs[i])})
                break
        for i, c in enumerate(cls):
            if c["own"] == P.NULL_OK and not V.is_null(outs[i]):
                ev.add(f"null-not-preserved:{fam}", {"pos": i, "in": V.show(elems[i]), "out": V.show(outs[i])})
                break
        # idempotence / identity on conforming input (direct routes; the schema routes re-validate themselves)
        try:
            out2 = T.try_coerce(out)
        except Exception as e:
            ev.add(f"recoerce-raised:{fam}", {"type": type(e).__name__, "msg": str(e)[:200],
                                              "out": [V.show(x) for x in outs]})
        else:
            if not isinstance(out2, want_type) or str(out2.dtype) != str(out.dtype) or \
                    [V.key(x) for x in _elements(out2)] != [V.key(x) for x in outs] or \
                    (route != "index" and [V.key(x) for x in out2.index] != [V.key(x) for x in out.index]):
                ev.add(f"not-idempotent:{fam}", {"once": [V.show(x) for x in outs], "once_dtype": str(out.dtype),
                                                 "twice": [V.show(x) for x in _elements(out2)] if hasattr(out2, "astype") else repr(out2)[:100],
                                                 "twice_dtype": str(getattr(out2, "dtype", None))})
        return ev

    # --- ParserError / DATATYPE_COERCION
    ev.labels.append("pd:outcome=parser-error")
    pairs = res["pairs"]
    # a typed datetime64/timedelta64 source may be refused as a whole by numpy/pandas casting rules
    # (datetime64 -> timedelta64 ...): that is a container-level, not an element-level, incompatibility
    src_kind = getattr(obj.dtype, "kind", "O")
    typed_incompatible = (src_kind == "M" and fam not in ("datetime", "date", "object", "str", "string")) or \
                         (src_kind == "m" and fam not in ("timedelta", "object", "str", "string"))
    if fam == "category" and src_kind in "iuf" and all(isinstance(c, bool) for c in case["dtype"].get("cats", [])):
        # python's 1 == True makes 1 a member of boolean categories element by element, but a numeric-typed container is
        # matched against them dtype-wise by pandas: a container-level incompatibility
        typed_incompatible = True
    if all_clear and elems and not typed_incompatible and \
            not (fam in ("datetime", "date") and P.datetime_precondition(elems)):
        ev.add(f"rejected-all-convertible:{tag}", {"elements": [V.show(v) for v in elems], "phys": str(obj.dtype),
                                                   "reported": [[V.show(l), V.show(v)] for l, v in pairs]})
    # ---- nulls are compared by count (all null kinds share one key; pandas may re-box one kind into another):
    #      null_fail nulls must be listed, null_ok nulls must not, grey nulls (convention dependent) may be
    nulls = [c for c, v in zip(cls, elems) if V.is_null(v)]
    n_must = sum(1 for c in nulls if c["own"] in (P.NULL_FAIL, P.FAIL))
    n_may = sum(1 for c in nulls if c["own"] == P.GREY)
    n_rep = sum(1 for _, v in pairs if V.is_null(v))
    detail = {"elements": [V.show(v) for v in elems], "labels": [V.show(l) for l in labels],
              "own": [c["own"] for c in cls], "coerce_value_ok": [c["cv"] for c in cls],
              "reported": [[V.show(l), V.show(v)] for l, v in pairs]}
    lenient = False
    if route == "index" and nulls:
        # Index.to_series() re-infers object labels (None may come back as NaT): if the verdict depends on the
        # null kind for this dtype, the nulls of an Index are not judged
        lenient = len({P.own(spec, nv)[0] for nv in (None, float("nan"), pd.NA, pd.NaT)}) > 1
        if lenient:
            ev.labels.append("pd:index-nulls-not-judged")
    if not lenient:
        if n_rep > n_must + n_may:
            ev.add(f"null-listed-as-failure-case:{fam}", detail)
        elif n_rep < n_must:
            ev.add(f"null-missing-from-failure-cases:{fam}", detail)

    # ---- non-null elements: multiset of (label, value)
    pairs = [(l, v) for l, v in pairs if not V.is_null(v)]
    got = Counter((V.label_key(l), V.key(v)) for l, v in pairs)
    got_vals = Counter(V.key(v) for _, v in pairs)
    exp_pairs = Counter()
    why = {}
    for i, c in enumerate(cls):
        if V.is_null(elems[i]):
            continue
        o = c["own"]
        listed = (o == P.FAIL) or (o == P.GREY and not c["cv"])
        if listed:
            exp_pairs[(V.label_key(labels[i]), V.key(elems[i]))] += 1
        why.setdefault(V.key(elems[i]), set()).add(o)
    if got == exp_pairs:
        return ev
    exp_vals = Counter(k[1] for k in exp_pairs.elements())
    if got_vals == exp_vals:
        ev.add(f"failure-case-labels-wrong:{fam}", {"expected": sorted(exp_pairs.elements()), "reported": sorted(got.elements())})
        return ev
    extra = got_vals - exp_vals
    missing = exp_vals - got_vals
    for k in extra:
        cl = why.get(k)
        if cl is None:
            ev.add(f"failure-case-not-an-input-element:{fam}", detail)
        elif P.EXACT in cl:
            ev.add(f"convertible-listed-as-failure-case:{fam}", detail)
        else:
            ev.add(f"failure-case-extra:{fam}", detail)
    for k in missing:
        cl = why.get(k, set())
        if P.FAIL in cl:
            ev.add(f"unconvertible-missing-from-failure-cases:{tag}", detail)
        else:
            ev.add(f"failure-case-missing-vs-coerce_value:{fam}", detail)
    return ev


# --- generator

_POOL = None


def _pool_cells():
    ints = [0, 1, -1, 2, 3, 127, 128, -128, -129, 255, 256, 300, 32767, 32768, 65535, 65536, 2147483647, 2147483648,
            4294967295, 4294967296, 9007199254740993, 9223372036854775807, 9223372036854775808,
            18446744073709551615, 18446744073709551616, -9223372036854775808, -9223372036854775809]
    floats = [0.0, 1.0, -1.0, 1.5, 0.1, 2.5, -0.5, 1e10, 1e300, 16777217.0, 65504.0, 100000.0,
              {"t": "inf"}, {"t": "-inf"}]
    strs = ["1", "0", "-1", "2", "1.5", "300", "1e3", "abc", "x", "", " 1", "True", "False", "nan", "inf",
            "2020-01-01", "1999-12-31", "2020-02-30", "2020-01-01 12:30:00", "1s", "1 days", "a", "b", "-0.5"]
    nulls = [None, {"t": "nan"}, {"t": "NA"}, {"t": "NaT"}]
    other = [True, False,
             {"t": "ts", "v": "2020-01-01T12:00:00", "tz": None}, {"t": "ts", "v": "1999-12-31T00:00:00", "tz": None},
             {"t": "ts", "v": "2020-01-01T12:00:00", "tz": "UTC"}, {"t": "ts", "v": "2021-06-15T08:30:00", "tz": "Europe/Berlin"},
             {"t": "ts", "v": "1999-12-31T23:00:00", "tz": "UTC"}, {"t": "ts", "v": "2020-01-01T12:00:00", "tz": "Europe/Berlin"},
             {"t": "date", "v": "2020-01-01"}, {"t": "td", "v": "1s"}, {"t": "td", "v": "1 days"},
             {"t": "dec", "v": "1.50"}, {"t": "dec", "v": "2"}, {"t": "dec", "v": "-1.25"}, {"t": "dec", "v": "123456.789"}]
    return ints + floats + strs + other, nulls


def _partition(spec):
    """value pool of a dtype, partitioned by own()."""
    cells, nulls = _pool_cells()
    extra = []
    if spec["k"] == "category":
        extra = list(spec["cats"])
    if spec.get("fmt"):
        extra = list(P.FMT_CELLS)
    good, bad, grey = [], [], []
    for c in cells + extra:
        cl, _ = P.own(spec, V.decode(c))
        (good if cl == P.EXACT else bad if cl == P.FAIL else grey).append(c)
    return good, bad, grey, nulls


def strat_pandas():
    specs = P.all_specs()
    parts = {s["name"]: _partition(s) for s in specs}

    @st.composite
    def case(draw):
        spec = draw(st.sampled_from(specs))
        good, bad, grey, nulls = parts[spec["name"]]
        mode = draw(st.sampled_from(["free", "free", "free", "no-null", "no-bad", "good", "clear"]))
        if spec["k"] == "datetime" and draw(st.integers(0, 2)) == 0:
            # pandas cannot mix naive and aware values (or two zones) in one conversion: a third of the datetime
            # cases draw their convertible values from ONE zone of aware timestamps only
            zone = draw(st.sampled_from(["UTC", "Europe/Berlin"]))
            good = [c for c in good if isinstance(c, dict) and c.get("tz") == zone]
            grey = [c for c in grey if isinstance(c, dict) and c.get("tz") == zone]
            mode = "aware:" + mode
        pools = []
        if good:
            pools += [st.sampled_from(good)] * 4
        m = mode.split(":")[-1]
        if m in ("free", "no-null", "clear") and bad:
            pools += [st.sampled_from(bad)] * 2
        if m in ("free", "no-bad", "clear", "good"):
            pools += [st.sampled_from(nulls)] * (1 if m == "good" else 2)
        if m in ("free", "no-null", "no-bad") and grey:
            pools += [st.sampled_from(grey)] * 2
        if not pools:
            pools = [st.sampled_from(grey or nulls)]
        n = draw(st.sampled_from(SIZES))
        cells = draw(st.lists(st.one_of(*pools), min_size=n, max_size=n))
        if draw(st.integers(0, 9)) < 2:
            # values that compare (and hash) equal but are of different types - 1, 1.0, True / 0, 0.0, False - side by side:
            # each element has its own convertibility
            n = max(n, 2)
            twins = st.sampled_from([1, True, 1.0, 0, False, 0.0, 1, True])
            cells = draw(st.lists(st.one_of(twins, twins, twins, *pools), min_size=n, max_size=n))
            mode = "twins:" + mode
        container = draw(st.sampled_from(["series", "series", "index", "column", "series_schema", "regex_column"]))
        if container == "index" and spec["name"] == "float16":  # pandas: "float16 indexes are not supported"
            container = "series"
        # (categorical input is only paired with categorical targets: for any other target pandas casts the *categories*,
        # not the elements, so an unused category decides the outcome - a pandas convention the property does not cover)
        phys = draw(st.sampled_from(["object", "object", "infer"] + (["category"] * 2 if container != "index"
                                                                      and spec["k"] == "category" else [])))
        index = None
        if container != "index" and draw(st.integers(0, 2)) == 0:
            index = draw(st.lists(st.sampled_from([10, 20, -1, "p", "q", 0, 2.5]), min_size=len(cells), max_size=len(cells)))
        out = {"dtype": spec, "container": container, "cells": cells, "phys": phys, "index": index, "mode": mode}
        if container == "regex_column" and index is None and draw(st.booleans()):
            out["regex_lazy"] = True  # (default row labels: every label/value pair of the report is distinct)
        return out

    return case()


FAMILIES = [
    Family("pandas", eval_pandas, strategy=strat_pandas, n_quick=1600, n_thorough=6000, shards_quick=6,
           shards_thorough=16,
           required_labels=["pd:outcome=ok", "pd:outcome=parser-error", "pd:container=index", "pd:container=column",
                            "pd:mix=convertible+null+unconvertible"]),
]


# ----------------------------------------------------------------------------- polars

from . import _c10_polars as L  # noqa: E402


def _pl_frame(case, cells):
    import polars as pl

    vals = [V.decode(c) for c in cells]
    col = pl.Series("a", vals, dtype=L.pl_phys(case["phys"]))
    if case["route"] == "frame":
        return pl.DataFrame({"a": col})
    return pl.DataFrame({"a": col, "z": pl.Series("z", list(range(len(vals))), dtype=pl.Int64)})


def _pl_fc_values(fc):
    import polars as pl

    if fc is None:
        return []
    if isinstance(fc, pl.LazyFrame):
        fc = fc.collect()
    if not isinstance(fc, pl.DataFrame):
        raise ValueError(f"unexpected failure_cases: {type(fc).__name__}")
    if "a" in fc.columns:
        return fc["a"].to_list()
    if "failure_case" in fc.columns:
        return fc["failure_case"].to_list()
    raise ValueError(f"unexpected failure_cases columns: {fc.columns}")


def _run_polars(case, T, df):
    import polars as pl
    import pandera.polars as pap
    from pandera import errors
    from pandera.api.polars.types import PolarsData

    route = case["route"]
    try:
        if route == "key":
            out = T.try_coerce(PolarsData(df.lazy(), "a"))
        elif route == "frame":
            out = T.try_coerce(df.lazy())
        elif route == "schema" and case.get("depth"):
            # coercion failures name their values whenever the data is looked at (SCHEMA_AND_DATA and DATA_ONLY)
            from pandera.config import ValidationDepth, config_context

            with config_context(validation_depth=ValidationDepth[case["depth"]]):
                out = pap.DataFrameSchema({"a": pap.Column(T, coerce=True, nullable=True)}).validate(df)
        elif route == "schema":
            out = pap.DataFrameSchema({"a": pap.Column(T, coerce=True, nullable=True)}).validate(df)
        else:
            raise HarnessError(f"unknown route {route!r}")
        if isinstance(out, pl.LazyFrame):
            out = out.collect()
        if not isinstance(out, pl.DataFrame):
            return {"kind": "other", "exc_type": "bad-return", "msg": repr(type(out))}
        return {"kind": "ok", "value": out}
    except errors.ParserError as e:
        if route == "schema":
            return {"kind": "other", "exc_type": "ParserError-leaked", "msg": str(e)[:200]}
        try:
            vals = _pl_fc_values(e.failure_cases)
        except Exception as ve:
            return {"kind": "other", "exc_type": "malformed-failure-cases", "msg": f"{type(ve).__name__}: {ve}"[:200]}
        pos = None
        po = getattr(e, "parser_output", None)
        try:
            if po is not None:
                if isinstance(po, pl.LazyFrame):
                    po = po.collect()
                pos = [i for i, ok in enumerate(po.to_series().to_list()) if not ok]
        except Exception:
            pos = None
        return {"kind": "parser", "values": vals, "positions": pos}
    except (errors.SchemaError, errors.SchemaErrors) as e:
        errs = list(e.schema_errors) if isinstance(e, errors.SchemaErrors) else [e]
        rcs = [getattr(x.reason_code, "name", str(x.reason_code)) for x in errs]
        if route != "schema" or any(rc != "DATATYPE_COERCION" for rc in rcs):
            return {"kind": "other", "exc_type": "SchemaError:" + "+".join(sorted(set(rcs))), "msg": str(e)[:300]}
        try:
            vals = []
            for x in errs:
                vals += _pl_fc_values(x.failure_cases)
        except Exception as ve:
            return {"kind": "other", "exc_type": "malformed-failure-cases", "msg": f"{type(ve).__name__}: {ve}"[:200]}
        return {"kind": "parser", "values": vals, "positions": None}
    except HarnessError:
        raise
    except Exception as e:
        import traceback

        tb = traceback.extract_tb(e.__traceback__)
        inner = next((f"{fr.filename.split('/pandera/')[-1]}:{fr.name}" for fr in reversed(tb)
                      if "/pandera/" in fr.filename), "?")
        return {"kind": "other", "exc_type": type(e).__name__, "msg": str(e)[:300], "where": inner}


class _Unreadable(Exception):
    pass


def _tolist(series):
    try:
        return series.to_list()
    except (ValueError, OverflowError) as e:  # e.g. "year 47904 is out of range" for python datetime
        raise _Unreadable(str(e)) from e


def eval_polars(case):
    try:
        return _eval_polars(case)
    except _Unreadable:
        ev = Eval()
        ev.skipped = "python-cannot-represent-coerced-values"
        return ev
    except BaseException as e:  # pyo3 PanicException derives from BaseException and would kill the worker
        if type(e).__name__ != "PanicException":
            raise
        ev = Eval()
        ev.skipped = "polars-rust-panic-while-reading-values"
        return ev


def _eval_polars(case):
    from pandera.engines import polars_engine as ple

    ev = Eval()
    spec = case["dtype"]
    fam = spec["k"]
    phys = case["phys"]
    route = case["route"]
    T = L.build_dtype(spec)
    try:
        df = _pl_frame(case, case["cells"])
    except Exception as e:
        ev.skipped = f"frame-not-constructible:{type(e).__name__}"
        return ev
    elems = df["a"].to_list()
    ev.labels += [f"pl:dtype={fam}", f"pl:src={phys}", f"pl:route={route}", f"pl:mode={case.get('mode', 'free')}"]
    if case.get("depth"):
        ev.labels.append("pl:depth=" + case["depth"])

    cls = []
    for i, v in enumerate(elems):
        c, exp = L.own(spec, phys, v)
        single = None
        if c == L.GREY:
            r1 = _run_polars(case, T, _pl_frame(case, [case["cells"][i]]))
            single = r1["kind"] == "ok"
        cls.append({"own": c, "exp": exp, "single": single})
    kinds = set()
    for c in cls:
        if c["own"] == L.EXACT or (c["own"] == L.GREY and c["single"]):
            kinds.add("convertible")
        elif c["own"] == L.FAIL or (c["own"] == L.GREY and not c["single"]):
            kinds.add("unconvertible")
        else:
            kinds.add("null")
    ev.nontrivial = len(kinds) >= 2
    ev.labels.append("pl:mix=" + ("+".join(sorted(kinds)) or "empty"))

    res = _run_polars(case, T, df)
    if df["a"].to_list() != elems and [L.vkey(x) for x in df["a"].to_list()] != [L.vkey(x) for x in elems]:
        ev.add(f"input-mutated:pl:{fam}", None)
    tag = f"pl:{fam}"
    must_fail = [i for i, c in enumerate(cls) if c["own"] == L.FAIL]
    all_clear = all(c["own"] in (L.EXACT, L.NULL_OK) for c in cls)

    if res["kind"] == "other":
        ev.labels.append("pl:outcome=other")
        ev.add(f"wrong-channel:{res['exc_type']}:{tag}", {k: res[k] for k in res if k != "kind"})
        return ev

    if res["kind"] == "ok":
        ev.labels.append("pl:outcome=ok")
        out = res["value"]
        if "a" not in out.columns or out.height != len(elems):
            ev.add(f"ok-shape-changed:{tag}", {"columns": out.columns, "height": out.height, "in": len(elems)})
            return ev
        if route != "frame" and ("z" not in out.columns or out["z"].to_list() != list(range(len(elems)))):
            ev.add(f"ok-other-column-changed:{tag}", {"z": out["z"].to_list() if "z" in out.columns else None})
        outs = _tolist(out["a"])
        if must_fail:
            ev.add(f"accepted-unconvertible:{tag}", {"elements": [V.show(elems[i]) for i in must_fail],
                                                     "out": [V.show(x) for x in outs], "out_dtype": str(out["a"].dtype)})
        try:
            ok = bool(T.check(ple.Engine.dtype(out["a"].dtype)))
        except Exception as e:
            ok = False
        if not ok:
            ev.add(f"coerced-fails-own-check:{tag}", {"out_dtype": str(out["a"].dtype), "dtype": str(T)})
        for i, c in enumerate(cls):
            if c["own"] == L.EXACT and not L.same_value(spec, outs[i], c["exp"]):
                ev.add(f"exact-value-changed:{tag}", {"pos": i, "src": phys, "in": V.show(elems[i]),
                                                      "expected": V.show(c["exp"]), "out": V.show(outs[i])})
                break
        for i, c in enumerate(cls):
            if c["own"] == L.NULL_OK and outs[i] is not None:
                ev.add(f"null-not-preserved:{tag}", {"pos": i, "out": V.show(outs[i])})
                break
        # idempotence on the conforming result (same route, result as input)
        try:
            from pandera.api.polars.types import PolarsData

            again = T.try_coerce(PolarsData(out.lazy(), "a")).collect()
        except Exception as e:
            ev.add(f"recoerce-raised:{tag}", {"type": type(e).__name__, "msg": str(e)[:200],
                                              "out": [V.show(x) for x in outs], "out_dtype": str(out["a"].dtype)})
        else:
            if again["a"].dtype != out["a"].dtype or [L.vkey(x) for x in _tolist(again["a"])] != [L.vkey(x) for x in outs]:
                ev.add(f"not-idempotent:{tag}", {"once": [V.show(x) for x in outs], "twice": [V.show(x) for x in again["a"].to_list()],
                                                 "once_dtype": str(out["a"].dtype), "twice_dtype": str(again["a"].dtype)})
        return ev

    ev.labels.append("pl:outcome=parser-error")
    vals = res["values"]
    if all_clear and elems:
        ev.add(f"rejected-all-convertible:{tag}", {"src": phys, "elements": [V.show(v) for v in elems],
                                                   "reported": [V.show(v) for v in vals]})
    exp_idx = [i for i, c in enumerate(cls) if c["own"] == L.FAIL or (c["own"] == L.GREY and not c["single"])]
    got = Counter(L.vkey(v) for v in vals)
    exp = Counter(L.vkey(elems[i]) for i in exp_idx)
    detail = {"src": phys, "elements": [V.show(v) for v in elems], "own": [c["own"] for c in cls],
              "singleton_ok": [c["single"] for c in cls], "reported": [V.show(v) for v in vals]}
    if got != exp:
        why = {}
        for c, v in zip(cls, elems):
            why.setdefault(L.vkey(v), set()).add(c["own"])
        for k in (got - exp):
            cl = why.get(k)
            if cl is None:
                ev.add(f"failure-case-not-an-input-element:{tag}", detail)
            elif L.NULL_OK in cl:
                ev.add(f"null-listed-as-failure-case:{tag}", detail)
            elif L.EXACT in cl:
                ev.add(f"convertible-listed-as-failure-case:{tag}", detail)
            else:
                ev.add(f"failure-case-extra-vs-singleton:{tag}", detail)
        for k in (exp - got):
            cl = why.get(k, set())
            if L.FAIL in cl:
                ev.add(f"unconvertible-missing-from-failure-cases:{tag}", detail)
            else:
                ev.add(f"failure-case-missing-vs-singleton:{tag}", detail)
    elif res["positions"] is not None and sorted(res["positions"]) != exp_idx:
        ev.add(f"parser-output-positions-wrong:{tag}", dict(detail, positions=res["positions"], expected=exp_idx))
    return ev


def _pl_pools():
    return {
        "String": ["1", "0", "-1", "2", "300", "1.5", "-0.5", "abc", "x", "", "true", "a", "b", "2020-01-01", "1999-12-31",
                   "2020-02-30", "2020-01-01T12:30:00", "1999-12-31T23:59:59", "12:30:00", " 1", "1e3", "70000", "5000000000"],
        "Int64": [0, 1, -1, 2, 3, 127, 128, -128, -129, 255, 256, 300, 32767, 32768, 65535, 65536, 2147483647, 2147483648,
                  4294967295, 4294967296, 9007199254740993, 9223372036854775807, -9223372036854775808],
        # temporal targets: python datetime/timedelta cannot represent the extremes when values are read back
        "Int64:temporal": [0, 1, -1, 2, 3, 127, 300, 32768, 65536, 86400000, 2147483648],
        "Float64": [0.0, 1.0, -1.0, 1.5, 2.5, -0.5, 0.1, 300.0, 1e10, 1e300, 16777217.0, {"t": "nan"}, {"t": "inf"}],
        "Boolean": [True, False],
    }


def strat_polars():
    specs = L.all_specs()
    pools = _pl_pools()
    parts = {}
    for s in specs:
        for ph, cells in pools.items():
            if ph == "Int64:temporal":
                continue
            if ph == "Int64" and s["k"] in ("date", "datetime", "time", "duration"):
                cells = pools["Int64:temporal"]
            good, bad, grey = [], [], []
            for c in cells:
                cl, _ = L.own(s, ph, V.decode(c))
                (good if cl == L.EXACT else bad if cl == L.FAIL else grey).append(c)
            parts[(s["name"], ph)] = (good, bad, grey)

    @st.composite
    def case(draw):
        spec = draw(st.sampled_from(specs))
        phys = draw(st.sampled_from(["String", "String", "Int64", "Float64", "Boolean"]))
        good, bad, grey = parts[(spec["name"], phys)]
        mode = draw(st.sampled_from(["free", "free", "free", "no-null", "no-bad", "good", "clear"]))
        ps = []
        if good:
            ps += [st.sampled_from(good)] * 4
        if mode in ("free", "no-null", "clear") and bad:
            ps += [st.sampled_from(bad)] * 2
        if mode in ("free", "no-bad", "clear", "good"):
            ps += [st.none()] * (1 if mode == "good" else 2)
        if mode in ("free", "no-null", "no-bad") and grey:
            ps += [st.sampled_from(grey)] * 2
        if not ps:
            ps = [st.sampled_from(grey or [None])]
        n = draw(st.sampled_from(SIZES))
        cells = draw(st.lists(st.one_of(*ps), min_size=n, max_size=n))
        route = draw(st.sampled_from(["key", "key", "frame", "schema", "schema"]))
        out = {"dtype": spec, "phys": phys, "cells": cells, "route": route, "mode": mode}
        if route == "schema" and draw(st.integers(0, 2)) == 0:
            out["depth"] = draw(st.sampled_from(["DATA_ONLY", "SCHEMA_AND_DATA"]))
        return out

    return case()


FAMILIES.append(
    Family("polars", eval_polars, strategy=strat_polars, n_quick=900, n_thorough=3500, shards_quick=6, shards_thorough=16,
           required_labels=["pl:outcome=ok", "pl:outcome=parser-error", "pl:route=schema", "pl:depth=DATA_ONLY",
                            "pl:mix=convertible+null+unconvertible"]))


# ------------------------------------------------------------------------ known findings


def _elems(case):
    return [V.decode(c) for c in case.get("cells", [])]


def _has_null(case):
    return any(V.is_null(v) for v in _elems(case))


@known.finding("C10/null-listed-for-nullable-dtype")
def _k_null_listed(family, case, disc):
    # trigger: pandas dtype that can hold nulls + a null element; symptom: that null reported as failure case
    return (family == "pandas" and disc.kind.startswith("null-listed-as-failure-case:")
            and case["dtype"]["k"] in ("extint", "extfloat", "extbool", "category", "timedelta") and _has_null(case))


@known.finding("C10/timedelta-string-rejected-elementwise")
def _k_td_string(family, case, disc):
    return (family == "pandas" and disc.kind == "convertible-listed-as-failure-case:timedelta"
            and case["dtype"]["k"] == "timedelta"
            and any(isinstance(v, str) and v in ("1s", "1 days", "2 days 03:00:00") for v in _elems(case)))


@known.finding("C10/nullable-int-fractional-float-unreported")
def _k_extint_fraction(family, case, disc):
    import math
    # (lazily the same unattributed error arrives as one entry without label and value)
    return (family == "pandas" and (disc.kind.startswith("unconvertible-missing-from-failure-cases:extint:")
                                    or (disc.kind == "null-listed-as-failure-case:extint" and case.get("regex_lazy")))  # (kept: harmless)
            and case["dtype"]["k"] == "extint"
            and any(isinstance(V.norm(v), float) and math.isfinite(v) and v != int(v) for v in _elems(case)))


@known.finding("C10/date-all-null-yields-datetime64")
def _k_date_all_null(family, case, disc):
    # trigger: Date dtype and every element converts to NaT; symptom: datetime64[ns] result failing Date.check
    if family != "pandas" or case["dtype"]["k"] != "date":
        return False
    d = disc.detail or {}
    if disc.kind == "coerced-fails-own-check:date":
        return str(d.get("out_dtype")) == "datetime64[ns]" and all("NaT" in str(x) for x in d.get("out", ["?"]))
    if disc.kind == "wrong-channel:SchemaError:WRONG_DATATYPE:date":
        rows = [l for l in str(d.get("msg", "")).splitlines() if l and l.split()[0].isdigit()]
        return bool(rows) and all(l.rstrip().endswith("NaT") for l in rows)
    return False


@known.finding("C10/date-coerce-index-unsupported")
def _k_date_index(family, case, disc):
    return (family == "pandas" and case["dtype"]["k"] == "date" and case["container"] == "index"
            and disc.kind == "rejected-all-convertible:date:index")


@known.finding("C10/decimal-coerce-index-unsupported")
def _k_decimal_index(family, case, disc):
    return (family == "pandas" and case["dtype"]["k"] == "decimal" and case["container"] == "index"
            and disc.kind == "rejected-all-convertible:decimal:index")


@known.finding("C10/index-subclass-failure-cases-typeerror")
def _k_index_subclass(family, case, disc):
    return (family == "pandas" and case["container"] == "index" and case.get("phys") == "infer"
            and disc.kind.startswith("wrong-channel:TypeError:")
            and "not understood" in str((disc.detail or {}).get("msg", ""))
            and "numpy_pandas_coerce_failure_cases" in str((disc.detail or {}).get("where", "")))


@known.finding("C10/decimal-check-all-null-drops-index")
def _k_decimal_check_index(family, case, disc):
    return (family == "pandas" and case["dtype"]["k"] == "decimal" and disc.kind == "wrong-channel:IndexingError:decimal"
            and case.get("index") is not None
            and all(V.is_null(v) or (isinstance(v, str) and v.lower() == "nan") for v in _elems(case)))


@known.finding("C10/polars-unsupported-cast-fallback-lists-every-row")
def _k_pl_nulls(family, case, disc):
    """Residual of the (fixed) 'nulls listed once any element fails': when polars cannot cast the source dtype to the
    target at all (String->Boolean, Boolean->Enum/Categorical, ...) the 'all rows are failure cases' fallback still lists
    the nulls.  Trigger: every non-null element fails on its own (the whole cast is unsupported), nulls present."""
    d = disc.detail if isinstance(disc.detail, dict) else {}
    ok = d.get("singleton_ok") or []
    return (family == "polars" and disc.kind.startswith("null-listed-as-failure-case:pl:")
            and any(c is None for c in case["cells"])
            and all(v is None or v is False for v in ok) and any(v is False for v in ok))


@known.finding("C10/polars-category-try-coerce-typeerror")
def _k_pl_cat_typeerror(family, case, disc):
    return (family == "polars" and case["dtype"]["k"] == "category"
            and disc.kind == "wrong-channel:TypeError:pl:category"
            and "LazyFrame" in str((disc.detail or {}).get("msg", "")))


@known.finding("C10/polars-category-coerce-casts-all-columns")
def _k_pl_cat_allcols(family, case, disc):
    return (family == "polars" and case["dtype"]["k"] == "category" and case["route"] != "frame"
            and disc.kind == "ok-other-column-changed:pl:category")


@known.finding("C10/polars-category-fails-own-check")
def _k_pl_cat_check(family, case, disc):
    return (family == "polars" and case["dtype"]["k"] == "category"
            and disc.kind in ("coerced-fails-own-check:pl:category", "wrong-channel:SchemaError:WRONG_DATATYPE:pl:category"))


def evidence_extra():
    return {
        "dtype_domain": {
            "pandas_covered": sorted({s["name"] for s in P.all_specs()}),
            "polars_covered": sorted({s["name"] for s in L.all_specs()}),
            "excluded_regions": [
                "pandas Period/Interval/Sparse (need a freq/subtype/fill value; no coerce_value semantics for mixed pools)",
                "pandas PydanticModel and Python generic types (row / element models, not element coercion)",
                "pandas pyarrow-backed dtypes (Arrow*): not covered in this round",
                "pandas float128/complex256, float16 on pd.Index (pandas has no float16 index)",
                "polars nested Array/List/Struct, Object, Null",
                "whole-DataFrame try_coerce with a schema-level dtype (pandas); only single columns are coerced",
                "containers mixing naive/aware datetimes, several time zones or several string formats are not "
                "required to convert as a whole (pd.to_datetime semantics); their failure cases are still checked",
            ],
        }
    }
