"""C17 on polars: check_input / check_output / check_io / check_types around functions that take and return polars
frames.  Compact twin of the pandas program generator: one designated frame parameter `df` (position 0 or 1, positional
or keyword, plain function or method), one extra parameter that must arrive untouched, body returns its frame, a fresh
frame or a (scalar, frame) tuple, or raises.  Reference: schema.validate(frame, lazy=...) decides; the body runs iff the
designated input validates, sees the parsed frame, and the designated output is validated before it is returned."""
from __future__ import annotations

import polars as pl

import pandera as pa
import pandera.polars as pap
from pandera.typing.polars import DataFrame as PlDataFrame
from pandera.typing.polars import LazyFrame as PlLazyFrame


class PM(pap.DataFrameModel):
    a: int = pap.Field(gt=0)


class PMc(pap.DataFrameModel):
    a: int = pap.Field(gt=0)

    class Config:
        coerce = True


MODELS = {"PM": PM, "PMc": PMc}
_SCHEMAS = {}


def schema_of(kind):
    if kind not in _SCHEMAS:
        _SCHEMAS[kind] = {
            "gt0": lambda: pap.DataFrameSchema({"a": pap.Column(pl.Int64, pa.Check.gt(0))}),
            "coerce": lambda: pap.DataFrameSchema({"a": pap.Column(pl.Int64, pa.Check.gt(0), coerce=True)}),
            "PM": lambda: PM.to_schema(), "PMc": lambda: PMc.to_schema(),
        }[kind]()
    return _SCHEMAS[kind]


def frame(cells, container):
    strs = any(isinstance(c, str) for c in cells)
    s = pl.Series("a", [str(c) for c in cells] if strs else list(cells), dtype=pl.String if strs else pl.Int64)
    df = pl.DataFrame({"a": s})
    return df.lazy() if container == "lf" else df


def snap(v):
    if isinstance(v, (pl.DataFrame, pl.LazyFrame)):
        d = v.collect() if isinstance(v, pl.LazyFrame) else v
        return {"pl": type(v).__name__, "schema": [(c, str(t)) for c, t in d.schema.items()], "rows": d.rows()}
    if isinstance(v, tuple):
        return {"tuple": [snap(x) for x in v]}
    return {"v": repr(v)}


class Boom(Exception):
    pass
