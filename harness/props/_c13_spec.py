"""C13 helpers: JSON spec -> pandera schema, and an independent satisfiability model.

A *field spec* is ``{"name", "dtype", "nullable", "unique", "checks":[CheckSpec], "regex"}``.
A *check spec* is ``{"c": <name>, ...abstract args...}``.  Check arguments of ordered dtypes are stored as
small *abstract integers* ``a``; ``conc(dtype, a)`` maps them monotonically to a value of the dtype
(int -> a, float -> a/4, datetime -> 2020-01-01 + a*12h, timedelta -> a*30min, bool -> a%2), so the
JSON case is readable and the same chain can be replayed on any ordered dtype.  String arguments are stored
as they are.

The satisfiability model never calls the strategies module: it enumerates candidate element values around the
check arguments, evaluates the chain with plain Python operators and (for a positive answer) lets pandera's own
``validate`` confirm a frame built from the witness values.
"""
from __future__ import annotations

import re

import numpy as np
import pandas as pd

# tag -> (class, lo, hi [abstract bounds for arguments], can hold nulls without changing dtype)
DTYPES = {
    "int64": ("int", -(2 ** 40), 2 ** 40, False),
    "int32": ("int", -(2 ** 31), 2 ** 31 - 1, False),
    "int16": ("int", -(2 ** 15), 2 ** 15 - 1, False),
    "int8": ("int", -128, 127, False),
    "uint8": ("int", 0, 255, False),
    "uint32": ("int", 0, 2 ** 32 - 1, False),
    "Int64": ("int", -(2 ** 40), 2 ** 40, True),
    "Int8": ("int", -128, 127, True),
    "UInt8": ("int", 0, 255, True),
    "float64": ("float", -(2 ** 40), 2 ** 40, True),
    "float32": ("float", -(2 ** 20), 2 ** 20, True),
    "Float64": ("float", -(2 ** 40), 2 ** 40, True),
    "bool": ("bool", 0, 1, False),
    "boolean": ("bool", 0, 1, True),
    "str": ("str", None, None, True),
    "object": ("str", None, None, True),
    "string": ("str", None, None, True),
    "datetime64[ns]": ("dt", -20000, 20000, True),
    "datetime64[ns, UTC]": ("dt", -20000, 20000, True),
    "datetime64[ns, Europe/Berlin]": ("dt", -20000, 20000, True),
    "timedelta64[ns]": ("td", -(2 ** 30), 2 ** 30, True),
    "complex128": ("complex", -1000, 1000, True),
}

ORDERED = ("int", "float", "dt", "td")
DT0 = "2020-01-01"


DT0_NS = "2021-03-04 05:06:07.123456789"
_TSCALE = None


def set_time_scale(scale):
    """None: datetimes / timedeltas 12 h / 30 min apart (plus a few ns); "ns": one nanosecond apart, so that ranges a few
    nanoseconds wide and exclusion lists inside them are generated (set per case by evaluate: a pure function of the case)."""
    global _TSCALE
    _TSCALE = scale


def cls_of(tag):
    return DTYPES[tag][0]


def holds_null(tag):
    return DTYPES[tag][3]


def _tz(tag):
    m = re.match(r"datetime64\[ns, (.+)\]", tag)
    return m.group(1) if m else None


def conc(tag, a):
    """abstract argument -> concrete value of the dtype (monotone for ordered dtypes)."""
    k = cls_of(tag)
    if k == "str":
        return a
    if k == "int":
        return int(a)
    if k == "float":
        return float(a) * 0.25
    if k == "bool":
        return bool(int(a) % 2)
    # (a few nanoseconds on top, still monotone: values with a sub-microsecond part are where pandas / numpy / python
    # scalars of the same instant stop hashing alike)
    if k == "dt":
        if _TSCALE == "ns":  # consecutive abstract values are consecutive nanoseconds
            return pd.Timestamp(DT0_NS, tz=_tz(tag)) + pd.Timedelta(nanoseconds=int(a))
        return pd.Timestamp(DT0, tz=_tz(tag)) + pd.Timedelta(hours=12) * int(a) + pd.Timedelta(nanoseconds=int(a) % 5)
    if k == "td":
        if _TSCALE == "ns":
            return pd.Timedelta("3 days") + pd.Timedelta(nanoseconds=int(a))
        return pd.Timedelta(minutes=30) * int(a) + pd.Timedelta(nanoseconds=int(a) % 5)
    if k == "complex":
        return complex(float(a) * 0.5, -float(a))
    raise KeyError(tag)


def neighbours(tag, v, m):
    """candidate element values around the concrete argument v (m steps each side)."""
    k = cls_of(tag)
    out = []
    if k == "int":
        if isinstance(v, float):
            import math

            base = [math.floor(v), math.ceil(v)]
        else:
            base = [int(v)]
        lo, hi = DTYPES[tag][1], DTYPES[tag][2]
        if tag in ("int64", "Int64"):
            lo, hi = -(2 ** 63), 2 ** 63 - 1
        for b in base:
            for j in range(-m, m + 1):
                if lo <= b + j <= hi:
                    out.append(b + j)
    elif k == "float":
        v = float(v)
        for j in range(-2 * m, 2 * m + 1):
            out.append(v + j * 0.125)
    elif k == "dt":
        for j in range(-2 * m, 2 * m + 1):
            out.append(v + (pd.Timedelta(nanoseconds=1) if _TSCALE == "ns" else pd.Timedelta(hours=6)) * j)
    elif k == "td":
        for j in range(-2 * m, 2 * m + 1):
            out.append(v + (pd.Timedelta(nanoseconds=1) if _TSCALE == "ns" else pd.Timedelta(minutes=15)) * j)
    elif k == "bool":
        out = [False, True]
    elif k == "complex":
        out = [v, v + 1, v - 1, complex(0, 0), complex(1, 1)]
    return out


# ------------------------------------------------------------------------- checks

BUILTIN_ORDERED = ["eq", "ne", "gt", "ge", "lt", "le", "in_range", "isin", "notin"]
CUSTOM_ORDERED = ["ew_gt", "vec_ge", "strat_le", "ext_ge"]
STR_CHECKS = ["eq", "ne", "isin", "notin", "str_matches", "str_contains", "str_startswith", "str_endswith",
              "str_length"]
# checks whose strategy is defined (built-in or supplied); the others fall back to filtering
NO_STRATEGY = ("ew_gt", "vec_ge", "vec_count")


class _Fn:
    """picklable/named callables for custom checks (no lambdas: stable names in failure cases)."""

    def __init__(self, op, v):
        self.op, self.v = op, v
        self.__name__ = f"c13_{op}"

    def __call__(self, x):
        if self.op == "gt":
            return x > self.v
        if self.op == "ge":
            return x >= self.v
        if self.op == "le":
            return x <= self.v
        if self.op == "count_ge":  # whole-series statement: at least v non-null values
            return bool(x.count() >= self.v)
        raise AssertionError(self.op)


def _le_strategy_factory(v):
    """a custom strategy written the way docs/source/data_synthesis_strategies.md prescribes:
    base strategy when ``strategy is None``, otherwise a filter on the previous strategy."""

    def c13_le_strategy(pandera_dtype, strategy=None):
        import pandera.strategies as pst

        if strategy is None:
            return pst.pandas_dtype_strategy(pandera_dtype, max_value=v)
        return strategy.filter(lambda x: x <= v)

    return c13_le_strategy


def _ext_ge_strategy(pandera_dtype, strategy=None, *, min_value):
    import pandera.strategies as pst

    if strategy is None:
        return pst.pandas_dtype_strategy(pandera_dtype, min_value=min_value)
    return strategy.filter(lambda x: x >= min_value)


def ensure_registered():
    """register the extension check once per process (Check.c13_ext_ge)."""
    import pandera as pa
    from pandera import extensions

    if hasattr(pa.Check, "c13_ext_ge"):
        return

    def c13_ext_ge(pandas_obj, *, min_value):
        return pandas_obj >= min_value

    extensions.register_check_method(c13_ext_ge, statistics=["min_value"], strategy=_ext_ge_strategy)


def check_args(spec, tag):
    """concrete keyword arguments of a check spec for dtype tag."""
    c = spec["c"]
    cv = lambda a: conc(tag, a)  # noqa: E731
    if c in ("eq", "ne"):
        return {"value": cv(spec["v"])}
    if c in ("gt", "ge"):
        return {"min_value": cv(spec["v"])}
    if c in ("lt", "le"):
        return {"max_value": cv(spec["v"])}
    if c == "in_range":
        return {"min_value": cv(spec["lo"]), "max_value": cv(spec["hi"]),
                "include_min": spec.get("imin", True), "include_max": spec.get("imax", True)}
    if c == "isin":
        return {"allowed_values": [cv(a) for a in spec["vs"]]}
    if c == "notin":
        return {"forbidden_values": [cv(a) for a in spec["vs"]]}
    if c in ("str_matches", "str_contains"):
        return {"pattern": spec["p"]}
    if c in ("str_startswith", "str_endswith"):
        return {"string": spec["s"]}
    if c == "str_length":
        return {"min_value": spec.get("lo"), "max_value": spec.get("hi")}
    if c in ("ew_gt", "vec_ge", "strat_le"):
        return {"v": cv(spec["v"])}
    if c == "ext_ge":
        return {"min_value": cv(spec["v"])}
    if c == "vec_count":
        return {"k": spec["k"]}
    raise KeyError(c)


def mk_check(spec, tag):
    import pandera as pa

    c = spec["c"]
    kw = check_args(spec, tag)
    if c == "ew_gt":
        return pa.Check(_Fn("gt", kw["v"]), element_wise=True, name="c13_ew_gt")
    if c == "vec_ge":
        return pa.Check(_Fn("ge", kw["v"]), name="c13_vec_ge")
    if c == "vec_count":
        return pa.Check(_Fn("count_ge", kw["k"]), name="c13_vec_count")
    if c == "strat_le":
        return pa.Check(_Fn("le", kw["v"]), name="c13_strat_le", strategy=_le_strategy_factory(kw["v"]))
    if c == "ext_ge":
        ensure_registered()
        return pa.Check.c13_ext_ge(min_value=kw["min_value"])
    if c == "str_length":
        return pa.Check.str_length(kw["min_value"], kw["max_value"])
    return getattr(pa.Check, c)(**kw)


def predicate(spec, tag):
    """element predicate of a check, in plain Python."""
    c = spec["c"]
    if c == "vec_count":
        return lambda x: True  # a statement about the series as a whole: no element is excluded by it
    kw = check_args(spec, tag)
    if c == "eq":
        return lambda x: x == kw["value"]
    if c == "ne":
        return lambda x: x != kw["value"]
    if c in ("gt", "ew_gt"):
        v = kw.get("min_value", kw.get("v"))
        return lambda x: x > v
    if c in ("ge", "vec_ge", "ext_ge"):
        v = kw.get("min_value", kw.get("v"))
        return lambda x: x >= v
    if c == "lt":
        return lambda x: x < kw["max_value"]
    if c in ("le", "strat_le"):
        v = kw.get("max_value", kw.get("v"))
        return lambda x: x <= v
    if c == "in_range":
        lo, hi, imin, imax = kw["min_value"], kw["max_value"], kw["include_min"], kw["include_max"]
        return lambda x: (lo <= x if imin else lo < x) and (x <= hi if imax else x < hi)
    if c == "isin":
        return lambda x: any(x == y for y in kw["allowed_values"])
    if c == "notin":
        return lambda x: not any(x == y for y in kw["forbidden_values"])
    if c == "str_matches":
        r = re.compile(kw["pattern"])
        return lambda x: r.match(x) is not None
    if c == "str_contains":
        r = re.compile(kw["pattern"])
        return lambda x: r.search(x) is not None
    if c == "str_startswith":
        return lambda x: x.startswith(kw["string"])
    if c == "str_endswith":
        return lambda x: x.endswith(kw["string"])
    if c == "str_length":
        lo, hi = kw["min_value"], kw["max_value"]
        return lambda x: (lo is None or len(x) >= lo) and (hi is None or len(x) <= hi)
    raise KeyError(c)


def check_arg_values(spec, tag):
    """all concrete element-like values mentioned by a check (anchors for candidate witnesses)."""
    c = spec["c"]
    if c == "str_length" or c in ("str_matches", "str_contains") or c == "vec_count":
        return []
    kw = check_args(spec, tag)
    out = []
    for v in kw.values():
        if isinstance(v, list):
            out += v
        elif not isinstance(v, bool) or cls_of(tag) == "bool":
            out.append(v)
    return out


# ---------------------------------------------------------------------- schemas


def mk_field(kind, f, extra_checks=()):
    """kind: series | column | index"""
    import pandera as pa

    checks = [mk_check(c, f["dtype"]) for c in f["checks"]]
    kw = dict(checks=checks, nullable=f.get("nullable", False), unique=f.get("unique", False), name=f.get("name"))
    if kind == "series":
        return pa.SeriesSchema(f["dtype"], **kw)
    if kind == "index":
        return pa.Index(f["dtype"], **kw)
    return pa.Column(f["dtype"], regex=f.get("regex", False), **kw)


def mk_index(ix):
    import pandera as pa

    if ix is None:
        return None
    if isinstance(ix, list):
        return pa.MultiIndex([mk_field("index", f) for f in ix])
    return mk_field("index", ix)


def mk_schema(case):
    import pandera as pa

    kind = case["kind"]
    if kind in ("series", "column", "index"):
        return mk_field(kind, case["field"])
    if kind == "multiindex":
        return mk_index(case["levels"])
    cols = {f["name"]: mk_field("column", f) for f in case["columns"]}
    fchecks = [mk_check(c, "int64") for c in case.get("checks", [])]
    return pa.DataFrameSchema(cols, checks=fchecks, index=mk_index(case.get("index")), unique=case.get("unique"))


# ---------------------------------------------------------------- satisfiability


def feasible_values(tag, chain_specs, pool_extra=()):
    """(values, complete): distinct concrete values among the candidates satisfying every predicate.
    ``complete`` = the candidate set provably contains every feasible value (finite domain)."""
    k = cls_of(tag)
    preds = []
    for spec_tag, spec in chain_specs:
        preds.append(predicate(spec, spec_tag))
    m = len(chain_specs) + 3 + sum(len(s.get("vs", [])) for _, s in chain_specs)
    cands = []
    complete = False
    if k == "bool":
        cands = [False, True]
        complete = True
    elif k == "str":
        cands = list(pool_extra)
        for spec_tag, spec in chain_specs:
            for v in check_arg_values(spec, spec_tag):
                if isinstance(v, str):
                    cands.append(v)
        if any(s["c"] in ("eq", "isin") for _, s in chain_specs):
            complete = True  # feasible set is a subset of the literals
    else:
        anchors = [conc(tag, 0)]
        for spec_tag, spec in chain_specs:
            anchors += check_arg_values(spec, spec_tag)
        if k == "int":
            lo, hi = DTYPES[tag][1], DTYPES[tag][2]
            if tag in ("int8", "uint8", "Int8", "UInt8"):
                anchors += [lo, hi]
        for a in anchors:
            cands += neighbours(tag, a, m)
        if any(s["c"] in ("eq", "isin") for _, s in chain_specs):
            complete = True
    seen, out = set(), []
    for v in cands:
        key = repr(v)
        if key in seen:
            continue
        seen.add(key)
        try:
            ok = all(p(v) for p in preds)
        except TypeError:
            ok = False
        if ok:
            out.append(v)
    return out, complete


def field_sat(tag, chain_specs, nullable, unique, n, pool_extra=()):
    """-> (status, witness_values) with status in sat | unsat | unknown, for a field of n >= 1 rows."""
    vals, complete = feasible_values(tag, chain_specs, pool_extra)
    k = cls_of(tag)
    if not vals:
        if nullable and holds_null(tag) and not (unique and n > 1):
            return "sat", [None] * n
        if k == "str" and not complete:
            return "unknown", None
        if any(s["c"] in ("str_matches", "str_contains") for _, s in chain_specs) and not complete:
            return "unknown", None
        # ordered dtypes: interval minus finitely many points, candidates cover it (see module doc)
        return ("unsat" if not (nullable and holds_null(tag)) else "unknown"), None
    if not unique:
        return "sat", [vals[0]] * n
    if len(vals) >= n:
        return "sat", vals[:n]
    if complete and not (nullable and holds_null(tag)):
        return "unsat", None
    return "unknown", None


def series_of(tag, values, name=None):
    """pandas Series of dtype tag from witness values (None = null)."""
    k = cls_of(tag)
    if k == "str":
        if tag == "string":
            return pd.Series(values, dtype="string", name=name)
        return pd.Series(values, dtype=object, name=name)
    if tag.startswith("datetime64[ns,"):
        vals = pd.to_datetime([pd.NaT if v is None else v for v in values], utc=True)
        return pd.Series(vals, name=name).dt.tz_convert(_tz(tag)).astype(tag)
    if k == "dt":
        return pd.Series([pd.NaT if v is None else v for v in values], dtype="datetime64[ns]", name=name)
    if k == "td":
        return pd.Series([pd.NaT if v is None else v for v in values], dtype="timedelta64[ns]", name=name)
    if tag in ("Int64", "Int8", "UInt8", "Float64", "boolean"):
        return pd.Series([pd.NA if v is None else v for v in values], dtype=tag, name=name)
    if k in ("float", "complex"):
        return pd.Series([np.nan if v is None else v for v in values], dtype=tag, name=name)
    return pd.Series(values, dtype=tag, name=name)
