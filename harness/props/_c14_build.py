"""C14 helpers: JSON TableSpec -> pandas objects, exact statistics over the JSON cells,
value comparison of a returned object against a freshly built reference.

Column spec  {"name": str|int|None, "kind": <tag>, "cells": [...], optional "tz", "unit",
              "categories", "ordered"}
cell encodings
  int kinds / ext ints     Python int            (ext: None = <NA>)
  float kinds / ext floats float | "nan" | "inf" | "-inf"   (ext: None = <NA>; "nan" not used for ext)
  bool / boolean           bool                  (boolean: None = <NA>)
  str / string             str | None
  object                   None | bool | int | float | str | {"f": "nan"} (a float NaN cell, also null)
  category                 position into "categories" | None
  datetime                 int nanoseconds since epoch (UTC) | None = NaT ; "tz": None|name ; "unit": ns|us|ms|s
  timedelta                int nanoseconds | None = NaT
  complex128               [re, im]
"""
from __future__ import annotations

import math

NP_INTS = {
    "int8": (-2**7, 2**7 - 1), "int16": (-2**15, 2**15 - 1), "int32": (-2**31, 2**31 - 1),
    "int64": (-2**63, 2**63 - 1), "uint8": (0, 2**8 - 1), "uint16": (0, 2**16 - 1),
    "uint32": (0, 2**32 - 1), "uint64": (0, 2**64 - 1),
}
EXT_INTS = {
    "Int8": NP_INTS["int8"], "Int16": NP_INTS["int16"], "Int32": NP_INTS["int32"], "Int64": NP_INTS["int64"],
    "UInt8": NP_INTS["uint8"], "UInt16": NP_INTS["uint16"], "UInt32": NP_INTS["uint32"], "UInt64": NP_INTS["uint64"],
}
NP_FLOATS = ("float32", "float64")
EXT_FLOATS = ("Float32", "Float64")
TS_MIN, TS_MAX = -(2**63) + 1, 2**63 - 1
UNIT_NS = {"ns": 1, "us": 10**3, "ms": 10**6, "s": 10**9}

ALL_KINDS = (list(NP_INTS) + list(EXT_INTS) + list(NP_FLOATS) + list(EXT_FLOATS)
             + ["bool", "boolean", "str", "string", "object", "category", "datetime", "timedelta", "complex128"])


def dec_float(c):
    if c is None:
        return None
    if isinstance(c, str):
        return {"nan": math.nan, "inf": math.inf, "-inf": -math.inf}[c]
    return float(c)


def is_null_cell(kind, c):
    if c is None:
        return True
    if kind in NP_FLOATS and c == "nan":
        return True
    return kind == "object" and isinstance(c, dict)


def _obj_array(values):
    import numpy as np

    arr = np.empty(len(values), dtype=object)
    for i, v in enumerate(values):
        arr[i] = v
    return arr


def build_array(col):
    """-> something pd.Series / pd.Index accept, with exactly the dtype named by col['kind']."""
    import numpy as np
    import pandas as pd

    kind, cells = col["kind"], col["cells"]
    if kind in NP_INTS:
        return np.array([int(c) for c in cells], dtype=kind)
    if kind in NP_FLOATS:
        return np.array([dec_float(c) for c in cells], dtype="float64").astype(kind)
    if kind == "bool":
        return np.array([bool(c) for c in cells], dtype=bool)
    if kind == "str":
        return _obj_array(list(cells))
    if kind == "object":
        return _obj_array([math.nan if isinstance(c, dict) else c for c in cells])
    if kind == "string":
        return pd.array(list(cells), dtype="string")
    if kind in EXT_INTS:
        return pd.array([None if c is None else int(c) for c in cells], dtype=kind)
    if kind in EXT_FLOATS:
        vals = np.array([0.0 if c is None else dec_float(c) for c in cells], dtype="float64")
        mask = np.array([c is None for c in cells], dtype=bool)
        out = pd.arrays.FloatingArray(vals, mask)
        return out.astype(kind) if kind != "Float64" else out
    if kind == "boolean":
        return pd.array(list(cells), dtype="boolean")
    if kind == "category":
        codes = [-1 if c is None else int(c) for c in cells]
        return pd.Categorical.from_codes(codes, categories=list(col["categories"]), ordered=bool(col.get("ordered")))
    if kind == "datetime":
        unit = col.get("unit") or "ns"
        iv = np.array([np.iinfo("int64").min if c is None else int(c) for c in cells], dtype="int64")
        dti = pd.DatetimeIndex(iv.view("M8[ns]"))
        if unit != "ns":
            for c in cells:
                if c is not None and c % UNIT_NS[unit]:
                    raise ValueError("datetime cell is not a multiple of its unit")
            dti = dti.as_unit(unit)
        if col.get("tz"):
            dti = dti.tz_localize("UTC").tz_convert(col["tz"])
        return dti
    if kind == "timedelta":
        iv = np.array([np.iinfo("int64").min if c is None else int(c) for c in cells], dtype="int64")
        return pd.TimedeltaIndex(iv.view("m8[ns]"))
    if kind == "complex128":
        return np.array([complex(dec_float(c[0]), dec_float(c[1])) for c in cells], dtype="complex128")
    raise ValueError(f"unknown kind {kind!r}")


def build_index(levels, n):
    import pandas as pd

    if not levels:
        return pd.RangeIndex(n)
    if len(levels) == 1:
        lv = levels[0]
        if lv.get("range") and lv["cells"]:
            # the same labels as a RangeIndex (start, stop, step): e.g. what df.iloc[::3] leaves behind
            start, step, r = lv["range"]
            last = lv["cells"][-1]
            return pd.RangeIndex(start, last + (r if step > 0 else -r), step, name=lv.get("name"))
        return pd.Index(build_array(lv), name=lv.get("name"))
    return pd.MultiIndex.from_arrays([pd.Index(build_array(lv)) for lv in levels],
                                     names=[lv.get("name") for lv in levels])


def nrows(case):
    if case["columns"]:
        return len(case["columns"][0]["cells"])
    if case.get("index"):
        return len(case["index"][0]["cells"])
    return int(case.get("nrows", 0))


def build(case):
    """-> pd.DataFrame or pd.Series (a fresh object on every call)."""
    import pandas as pd

    n = nrows(case)
    index = build_index(case.get("index"), n)
    cols = case["columns"]
    if case["shape"] == "series":
        c = cols[0]
        return pd.Series(build_array(c), index=index, name=c.get("name"))
    if not cols:
        return pd.DataFrame(index=index)
    return pd.DataFrame({c["name"]: build_array(c) for c in cols}, index=index)


def expected_dtype_str(col):
    """str(dtype) the built column must have (self-check of the builder)."""
    k = col["kind"]
    if k in ("str", "object"):
        return "object"
    if k == "datetime":
        unit = col.get("unit") or "ns"
        return f"datetime64[{unit}, {col['tz']}]" if col.get("tz") else f"datetime64[{unit}]"
    if k == "timedelta":
        return "timedelta64[ns]"
    if k == "string":
        return "string"
    return k


# ------------------------------------------------------------------ exact statistics


def exact_bounds(col):
    """(lo, hi) over the non-null cells as exact Python values, or None when the column has no
    ordered non-null numeric/temporal content.  ints stay ints; floats are the float64 (or float32
    rounded) values; datetimes/timedeltas are integer nanoseconds."""
    import numpy as np

    kind, cells = col["kind"], col["cells"]
    if kind in NP_INTS or kind in EXT_INTS:
        vals = [int(c) for c in cells if c is not None]
    elif kind in NP_FLOATS or kind in EXT_FLOATS:
        vals = [dec_float(c) for c in cells if c is not None]
        vals = [v for v in vals if not math.isnan(v)]
        if kind.lower() == "float32":
            vals = [float(np.float32(v)) for v in vals]
    elif kind in ("datetime", "timedelta"):
        vals = [int(c) for c in cells if c is not None]
    elif kind == "object":
        vals = [c for c in cells if c is not None and not isinstance(c, dict)]
        if not vals or any(isinstance(v, (bool, str)) or not isinstance(v, (int, float)) for v in vals):
            return None
        if any(isinstance(v, float) and math.isnan(v) for v in vals):
            return None
    else:
        return None
    if not vals:
        return None
    return min(vals), max(vals)


def has_null(col):
    return any(is_null_cell(col["kind"], c) for c in col["cells"])


def all_null(col):
    return all(is_null_cell(col["kind"], c) for c in col["cells"])


def is_extreme(col):
    kind, cells = col["kind"], col["cells"]
    if kind in NP_INTS or kind in EXT_INTS:
        lo, hi = NP_INTS.get(kind) or EXT_INTS[kind]
        return any(c is not None and (abs(c) >= 2**53 or c in (lo, hi)) for c in cells)
    if kind in NP_FLOATS or kind in EXT_FLOATS:
        for c in cells:
            v = dec_float(c)
            if v is None or math.isnan(v):
                continue
            if math.isinf(v) or abs(v) >= 2**53 or (v != 0 and abs(v) < 2.3e-308):
                return True
        return False
    if kind == "datetime":
        return bool(col.get("tz")) or (col.get("unit") or "ns") != "ns" or any(
            c is not None and (c % 10**9 or abs(c) > 2**62) for c in cells)
    if kind == "timedelta":
        return any(c is not None and abs(c) > 2**62 for c in cells)
    if kind == "object":
        return any(isinstance(c, int) and not isinstance(c, bool) and abs(c) >= 2**53 for c in cells)
    if kind == "complex128":
        return True
    return False


# ----------------------------------------------------------------------- comparison


def _isnull(x):
    import pandas as pd

    try:
        r = pd.isna(x)
    except Exception:
        return False
    return bool(r) if isinstance(r, (bool,)) or getattr(r, "shape", None) == () else False


def _isbool(x):
    import numpy as np

    return isinstance(x, (bool, np.bool_))


def cell_equal(a, b):
    if _isnull(a) or _isnull(b):
        return _isnull(a) and _isnull(b)
    if _isbool(a) != _isbool(b):
        return False
    try:
        return bool(a == b)
    except Exception:
        return False


def cell_repr(x):
    return f"{type(x).__name__}:{x!r}"[:80]


def _cells(obj):
    try:
        return list(obj.tolist())
    except Exception:
        return list(obj)


def index_diff(ret, ref):
    import pandas as pd

    if isinstance(ref, pd.MultiIndex) != isinstance(ret, pd.MultiIndex):
        return {"what": "index-type", "expected": type(ref).__name__, "observed": type(ret).__name__}
    if len(ret) != len(ref):
        return {"what": "index-length", "expected": len(ref), "observed": len(ret)}
    if list(ret.names) != list(ref.names):
        return {"what": "index-names", "expected": [repr(n) for n in ref.names], "observed": [repr(n) for n in ret.names]}
    for i, (a, b) in enumerate(zip(_cells(ret), _cells(ref))):
        ta = a if isinstance(a, tuple) else (a,)
        tb = b if isinstance(b, tuple) else (b,)
        if len(ta) != len(tb) or not all(cell_equal(x, y) for x, y in zip(ta, tb)):
            return {"what": "index-value", "pos": i, "expected": cell_repr(b), "observed": cell_repr(a)}
    return None


def _same_dtype(a, b):
    if a == b:
        # (pandas calls two unordered categorical dtypes equal when they list the same categories in any order; a
        # column whose categories were re-ordered has other codes, sorts and groups differently: not "unchanged")
        if hasattr(a, "categories") and hasattr(b, "categories") and a.categories is not None and b.categories is not None:
            return [cell_repr(x) for x in a.categories] == [cell_repr(x) for x in b.categories] \
                and bool(a.ordered) == bool(b.ordered)
        return True
    # a datetime64 column of another resolution holds the same values (pandera's DateTime is ns-only; which
    # resolution a dtype string resolves to is C09's subject): not a value change
    if getattr(a, "kind", None) == "M" and getattr(b, "kind", None) == "M":
        return str(getattr(a, "tz", None)) == str(getattr(b, "tz", None))
    return False


def value_diff(ret, ref, strict_dtype):
    """First difference between the object returned by validate and a freshly built reference, or None.
    Values are compared cell-wise (null == null, bool-ness preserved, == otherwise); with strict_dtype the
    dtype of every non-object reference column must be unchanged as well."""
    import pandas as pd

    if type(ret) is not type(ref):
        return {"what": "type", "expected": type(ref).__name__, "observed": type(ret).__name__}
    d = index_diff(ret.index, ref.index)
    if d:
        return d
    if isinstance(ref, pd.Series):
        pairs = [(None, ret, ref)]
        if not cell_equal(ret.name, ref.name) and not (ret.name is None and ref.name is None):
            return {"what": "series-name", "expected": repr(ref.name), "observed": repr(ret.name)}
    else:
        if [repr(c) for c in ret.columns] != [repr(c) for c in ref.columns]:
            return {"what": "columns", "expected": [repr(c) for c in ref.columns], "observed": [repr(c) for c in ret.columns]}
        pairs = [(ref.columns[i], ret.iloc[:, i], ref.iloc[:, i]) for i in range(ref.shape[1])]
    for name, a, b in pairs:
        if len(a) != len(b):
            return {"what": "length", "column": repr(name), "expected": len(b), "observed": len(a)}
        if strict_dtype and str(b.dtype) != "object" and not _same_dtype(a.dtype, b.dtype):
            return {"what": "dtype", "column": repr(name), "expected": str(b.dtype), "observed": str(a.dtype)}
        for i, (x, y) in enumerate(zip(_cells(a), _cells(b))):
            if not cell_equal(x, y):
                return {"what": "value", "column": repr(name), "pos": i, "expected": cell_repr(y), "observed": cell_repr(x)}
    return None
