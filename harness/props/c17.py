"""C17 - decorators gate the call on validation and are otherwise transparent.

A *program* (JSON) describes a function signature (plain / method / classmethod / staticmethod, sync / async,
positional parameters with defaults, *rest, keyword-only, **kw), a recording body (returns a frame / tuple / list /
dict / nested / scalar or raises), a decorator (check_input, check_output, check_io, check_types, or check_input and
check_output stacked by hand) with a designation (None / int / str / callable), validation options and one call
(positional / keyword / mixed, via instance or class).  The function source is generated and exec'd twice:

  reference world : inspect.signature(undecorated).bind(call); every designated input is replaced by
                    schema.validate(arg, **options) (a rejection ends the call, body not run); the undecorated
                    function is called on the parsed inputs; designated outputs are replaced by their validated form.
  pandera world   : the decorated function is called the same way with its own fresh objects.

Compared: number of body executions, what the body saw at every parameter (value snapshot + identity relative to the
caller's objects, self/cls), result / exception class, state of the caller's objects afterwards, awaitability.

Families
  inputs   check_input / check_io(**inputs[, out]) / hand-stacked check_input+check_output
  outputs  check_output / check_io(out=...) over output shapes x getter kinds
  types    check_types over annotations DataFrame[M], Optional[...], Union[...], *rest / **kw / keyword-only
"""
from __future__ import annotations

from hypothesis import strategies as st

from .. import fp, known
from ..core import Eval, Family, HarnessError
from . import _c17_prog as P

PROPERTY = "C17"
LEVEL = "exploration"
RULE = (
    "Hypothesis-generated programs: signature (function/method/classmethod/staticmethod, sync/async, 1-4 positional "
    "parameters with trailing defaults, optional *rest, keyword-only, **kw) x decorator (check_input int/str/None "
    "getter, check_output None/int/str/callable getter, check_io, check_types annotations incl. Optional/Union/*rest/"
    "**kw, hand-stacked check_input+check_output) x call shape (prefix positional, remainder keyword or defaulted, "
    "extras into *rest/**kw, via instance/class) x options (head/tail/sample+random_state/lazy/inplace) x argument "
    "frames (valid / invalid / invalid only outside head or tail rows / coercible strings / carrying a schema). "
    "Non-trivial: the function has >=2 parameters (self/cls not counted) and designation or call shape is not the "
    "default (first argument, all positional), or an option is set, or the decorator validates an output. "
    "Distinct = hash of the canonical JSON case."
)
ASSUMPTIONS = [
    "schema.validate(obj, head, tail, sample, random_state, lazy, inplace) is the trusted oracle for accept/reject, "
    "error class and the parsed object (its own correctness is C01/C03/C20)",
    "reference binding is inspect.signature(undecorated).bind",
    "an int obj_getter indexes the parameters after self/cls and requires the argument to be passed positionally; "
    "a designated argument is always passed explicitly (tests/core/test_decorators.py conventions)",
    "check_types does not re-validate a frame whose .pandera.schema equals the annotation's schema (documented in "
    "the source); only frames (or None under Optional) are passed to annotated parameters",
    "generated coroutines never suspend, they are driven with send(None) without an event loop",
]

PLAIN = [{"v": 1}, {"v": "s"}, {"v": None}, {"v": [1, 2]}, {"v": 7}]
OTHER_NAMES = ["x", "y", "z"]


# ---------------------------------------------------------------------- strategies


@st.composite
def cells(draw, cls=None):
    n = draw(st.integers(0, 5))
    base = [draw(st.sampled_from([1, 2, 3, 5])) for _ in range(n)]
    cls = cls or draw(st.sampled_from(["valid", "valid", "valid", "bad", "bad_tail", "bad_tail", "bad_head", "strs",
                                       "strs", "strs_bad", "mixed"]))
    if n == 0:
        return base
    if cls == "bad":
        for _ in range(draw(st.integers(1, 2))):
            base[draw(st.integers(0, n - 1))] = draw(st.sampled_from([-1, 0]))
    elif cls == "bad_tail":
        base[-1] = draw(st.sampled_from([-1, 0, "x"]))
    elif cls == "bad_head":
        base[0] = draw(st.sampled_from([-1, 0]))
    elif cls == "strs":
        base = [str(c) for c in base]
    elif cls == "strs_bad":
        base = [str(c) for c in base]
        base[draw(st.integers(0, n - 1))] = draw(st.sampled_from(["x", "-1"]))
    elif cls == "mixed":
        i = draw(st.integers(0, n - 1))
        base[i] = str(base[i])
    return base


@st.composite
def frame_spec(draw, schema_kind="gt0"):
    c = draw(cells())
    if schema_kind.startswith("ser_"):
        return {"series": c}
    if draw(st.integers(0, 7)) == 0:
        # a frame that was validated before (it carries a schema) and was edited in place afterwards: what it
        # carries says nothing about its current content
        n = draw(st.integers(1, 4))
        valid = [draw(st.sampled_from([1, 2, 3])) for _ in range(n)]
        edit = list(valid)
        if draw(st.integers(0, 3)) > 0:
            edit[draw(st.integers(0, n - 1))] = draw(st.sampled_from([-1, 0]))
        return {"frame": valid, "carry": draw(st.sampled_from(["gt0", "coerce"])), "edit": edit}
    return {"frame": c}


@st.composite
def opts_strategy(draw):
    o = dict(P.DEFAULT_OPTS)
    mode = draw(st.integers(0, 9))
    if mode <= 3:
        return o
    if mode <= 7:  # exactly one option
        which = draw(st.sampled_from(["head", "head", "tail", "sample", "lazy", "lazy", "inplace", "inplace"]))
        keys = [which]
    else:
        keys = [k for k in ["head", "tail", "sample", "lazy", "inplace"] if draw(st.booleans())]
    for k in keys:
        if k == "head":
            o["head"] = draw(st.integers(1, 3))
        elif k == "tail":
            o["tail"] = draw(st.integers(1, 2))
        elif k == "sample":
            o["sample"] = draw(st.integers(1, 2))
            o["random_state"] = draw(st.sampled_from([0, 0, 0, 1, 2, 3]))
        else:
            o[k] = True
    return o


def _kind_strategy():
    return st.sampled_from(["function"] * 3 + ["method"] * 3 + ["classmethod", "staticmethod"])


@st.composite
def draw_out(draw, allow_multi, frame_params):
    """-> (outs, body-shape, out_form, src, fresh, fresh2)"""
    getter = draw(st.sampled_from([None, None, 1, "k", "callable", 0, -1]))
    if getter is None:
        shape = "frame"
    elif getter in (1, -1):
        # tuple / list bodies return (scalar, frame): index 1 and index -1 designate the same element
        shape = draw(st.sampled_from(["tuple", "list", "tuple", "list", "deque"]))
    elif getter == "k":
        shape = draw(st.sampled_from(["dict", "dict", "userdict"]))
    elif getter == 0:
        shape = "pair"
    else:
        shape = draw(st.sampled_from(["frame", "tuple", "list", "dict", "nested", "pair", "userdict", "deque"]))
    sk = draw(st.sampled_from(["gt0", "coerce", "coerce"]))
    outs = [{"getter": getter, "schema": sk}]
    form = "list"
    if allow_multi:
        form = "schema" if getter is None and draw(st.booleans()) else draw(st.sampled_from(["tuple", "list"]))
        if shape == "pair" and form == "list" and getter == 0 and draw(st.booleans()):
            outs.append({"getter": 1, "schema": draw(st.sampled_from(["gt0", "coerce"]))})
    src = draw(st.sampled_from(["fresh"] + list(frame_params)))
    fresh = draw(frame_spec()) if src == "fresh" else None
    fresh2 = draw(frame_spec()) if shape == "pair" else None
    return outs, shape, form, src, fresh, fresh2


@st.composite
def plain_body(draw, frame_params):
    shape = draw(st.sampled_from(["frame", "frame", "tuple", "list", "dict", "scalar"]))
    src = draw(st.sampled_from(["fresh"] + list(frame_params) * 2))
    return {"raise": False, "shape": shape, "src": src, "fresh": draw(frame_spec()) if src == "fresh" else None,
            "fresh2": None}


@st.composite
def strat_inputs(draw):
    deco = draw(st.sampled_from(["check_input"] * 2 + ["check_io"]))
    kind = draw(_kind_strategy())
    is_async = draw(st.integers(0, 5)) == 0
    others = OTHER_NAMES[: draw(st.integers(0, 2))]
    idx = draw(st.integers(0, len(others)))
    pos = others[:idx] + ["df"] + others[idx:]
    designated = ["df"]
    if deco == "check_io" and draw(st.integers(0, 2)) == 0:
        pos.insert(draw(st.integers(0, len(pos))), "df2")
        designated = draw(st.sampled_from([["df", "df2"], ["df2", "df"]]))
    df_kwonly = draw(st.integers(0, 7)) == 0
    if df_kwonly:
        pos.remove("df")
    ndef = draw(st.integers(0, len(pos)))
    defaulted = set(pos[len(pos) - ndef:])
    has_var = draw(st.integers(0, 2)) == 0
    kwonly = draw(st.sampled_from([[], [], [["k", None]], [["k", {"v": 3}]]]))
    has_varkw = draw(st.integers(0, 3)) == 0
    schemas = {n: draw(st.sampled_from(["gt0", "gt0", "coerce", "coerce", "ser_gt0", "ser_coerce"])) for n in designated}

    def value_for(name):
        if name in schemas:
            return draw(frame_spec(schemas[name]))
        if draw(st.integers(0, 5)) == 0:
            return draw(frame_spec())  # an undesignated (possibly invalid) frame must pass through untouched
        return draw(st.sampled_from(PLAIN))

    params = []
    for n in pos:
        params.append({"name": n, "k": "pos", "default": ({"v": None} if n in schemas else {"v": 7}) if n in defaulted
                       else None, "ann": None})
    if has_var:
        params.append({"name": "rest", "k": "var", "default": None, "ann": None})
    for k, d in kwonly:
        params.append({"name": k, "k": "kwonly", "default": d, "ann": None})
    if df_kwonly:
        params.append({"name": "df", "k": "kwonly", "default": None, "ann": None})
    if has_varkw:
        params.append({"name": "kw", "k": "varkw", "default": None, "ann": None})

    p = draw(st.integers(0, len(pos)))
    if draw(st.booleans()):
        p = len(pos)  # bias towards fully positional calls (where *rest extras are possible)
    call_pos = [value_for(n) for n in pos[:p]]
    kw = []
    for n in pos[p:]:
        if n in defaulted and n not in schemas and draw(st.booleans()):
            continue
        kw.append([n, value_for(n)])
    if has_var and p == len(pos):
        call_pos += [draw(st.sampled_from(PLAIN)) for _ in range(draw(st.integers(0, 3)))]
    for k, d in kwonly:
        if d is not None and draw(st.booleans()):
            continue
        kw.append([k, draw(st.sampled_from(PLAIN))])
    if df_kwonly:
        kw.append(["df", value_for("df")])
    if has_varkw:
        for e in ["e1", "e2"]:
            if draw(st.booleans()):
                kw.append([e, draw(st.sampled_from(PLAIN))])
    if draw(st.booleans()):
        kw.reverse()

    inputs = []
    for n in designated:
        if deco == "check_io":
            g = "str"
        else:
            options = ["str"]
            if not df_kwonly and pos and pos[0] == n:
                options.append("none")
            if n in pos[:p]:
                options.append("int")
            g = draw(st.sampled_from(options + [o for o in options if o != "str"] * 2))
        inputs.append({"name": n, "schema": schemas[n], "getter": g})

    frame_params = [n for n in designated if not schemas[n].startswith("ser_")]
    want_out = draw(st.integers(0, 3)) == 0 if deco == "check_input" else draw(st.booleans())
    outs, form, stack = [], "list", None
    if want_out:
        outs, shape, form, src, fresh, fresh2 = draw(draw_out(deco == "check_io", frame_params))
        body = {"raise": False, "shape": shape, "src": src, "fresh": fresh, "fresh2": fresh2}
        if deco == "check_input":
            stack = draw(st.sampled_from(["in_outer", "out_outer"]))
    else:
        body = draw(plain_body(frame_params))
    if draw(st.integers(0, 9)) == 0:
        body["raise"] = True
    return {
        "deco": deco,
        "fn": {"kind": kind, "async": is_async, "params": params, "ret_ann": None, "body": body},
        "inputs": inputs, "outs": outs, "out_form": form, "stack": stack,
        "opts": draw(opts_strategy()),
        "call": {"pos": call_pos, "kw": kw, "via": draw(st.sampled_from(["instance", "instance", "class"]))},
    }


@st.composite
def strat_outputs(draw):
    deco = draw(st.sampled_from(["check_output"] * 3 + ["check_io"]))
    kind = draw(_kind_strategy())
    is_async = draw(st.integers(0, 2)) == 0
    pos = ["df"] + (["x"] if draw(st.booleans()) else [])
    params = [{"name": n, "k": "pos", "default": None, "ann": None} for n in pos]
    outs, shape, form, src, fresh, fresh2 = draw(draw_out(deco == "check_io", ["df"]))
    body = {"raise": draw(st.integers(0, 11)) == 0, "shape": shape, "src": src, "fresh": fresh, "fresh2": fresh2}
    vals = {"df": draw(frame_spec()), "x": draw(st.sampled_from(PLAIN))}
    p = draw(st.sampled_from([len(pos), len(pos), 0, 1]))
    p = min(p, len(pos))
    return {
        "deco": deco,
        "fn": {"kind": kind, "async": is_async, "params": params, "ret_ann": None, "body": body},
        "inputs": [], "outs": outs, "out_form": form, "stack": None,
        "opts": draw(opts_strategy()),
        "call": {"pos": [vals[n] for n in pos[:p]], "kw": [[n, vals[n]] for n in pos[p:]],
                 "via": draw(st.sampled_from(["instance", "class"]))},
    }


ANN_MODELS = {"M": ["M"], "Mc": ["Mc"], "OptM": ["M"], "OptMc": ["Mc"], "UnionMM2": ["M", "M2"], "M2": ["M2"],
              "OptMq": ["M"], "OptMcq": ["Mc"], "AnnM": ["M"]}


@st.composite
def typed_value(draw, ann):
    """a value for a slot annotated `ann`"""
    if ann.startswith("Opt") and draw(st.integers(0, 3)) == 0:
        return {"v": None}
    if not ann.startswith("Opt") and draw(st.integers(0, 11)) == 0:
        return {"v": None}  # None where a frame is required: not valid data
    r = draw(st.integers(0, 7))
    if r == 0:  # carries the annotation's own schema (valid for it): validation is skipped, outcome identical
        m = ANN_MODELS[ann][0]
        n = draw(st.integers(0, 4))
        return {"frame": [draw(st.sampled_from([1, 2, 3])) for _ in range(n)], "carry": m}
    if r == 1:  # carries a different schema
        m = "M2" if "M2" not in ANN_MODELS[ann] or draw(st.booleans()) else "M"
        if m in ANN_MODELS[ann][:1]:
            m = "M2"
        sign = -1 if m == "M2" else 1
        n = draw(st.integers(1, 4))
        return {"frame": [sign * draw(st.sampled_from([1, 2, 3])) for _ in range(n)], "carry": m}
    if ann == "UnionMM2" and r in (2, 3):  # valid for the second member only
        n = draw(st.integers(1, 4))
        return {"frame": [-draw(st.sampled_from([1, 2, 3])) for _ in range(n)]}
    return {"frame": draw(cells())}


@st.composite
def strat_types(draw):
    kind = draw(_kind_strategy())
    is_async = draw(st.integers(0, 4)) == 0
    others = OTHER_NAMES[: draw(st.integers(0, 2))]
    idx = draw(st.integers(0, len(others)))
    pos = others[:idx] + ["df"] + others[idx:]
    anns = {"df": draw(st.sampled_from(["M", "M", "Mc", "Mc", "OptM", "OptMc", "UnionMM2", "OptMq", "OptMcq", "AnnM"]))}
    if draw(st.integers(0, 3)) == 0:
        pos.insert(draw(st.integers(0, len(pos))), "df2")
        anns["df2"] = draw(st.sampled_from(["M", "Mc", "OptM", "OptMq", "AnnM"]))
    ndef = draw(st.integers(0, len(pos)))
    defaulted = set(pos[len(pos) - ndef:])
    has_var = draw(st.integers(0, 2)) == 0
    if has_var:
        anns["rest"] = draw(st.sampled_from([None, "M", "M", "Mc"]))
    kwonly = draw(st.sampled_from([[], [], [["k", None]], [["k", {"v": None}]]]))
    if kwonly:
        anns["k"] = draw(st.sampled_from([None, "OptM"]))
    has_varkw = draw(st.integers(0, 3)) == 0
    if has_varkw:
        anns["kw"] = draw(st.sampled_from([None, "M", "Mc"]))

    def value_for(name):
        a = anns.get(name)
        if a:
            return draw(typed_value(a))
        if draw(st.integers(0, 5)) == 0:
            return draw(frame_spec())
        return draw(st.sampled_from(PLAIN))

    params = []
    for n in pos:
        params.append({"name": n, "k": "pos", "default": ({"v": None} if n in anns else {"v": 7}) if n in defaulted
                       else None, "ann": anns.get(n)})
    if has_var:
        params.append({"name": "rest", "k": "var", "default": None, "ann": anns.get("rest")})
    for k, d in kwonly:
        params.append({"name": k, "k": "kwonly", "default": d, "ann": anns.get("k")})
    if has_varkw:
        params.append({"name": "kw", "k": "varkw", "default": None, "ann": anns.get("kw")})

    p = draw(st.integers(0, len(pos)))
    if draw(st.booleans()):
        p = len(pos)
    call_pos = [value_for(n) for n in pos[:p]]
    kw = []
    for n in pos[p:]:
        if n in defaulted and draw(st.integers(0, 2)) == 0:
            continue
        kw.append([n, value_for(n)])
    if has_var and p == len(pos):
        call_pos += [value_for("rest") for _ in range(draw(st.integers(0, 3)))]
    for k, d in kwonly:
        if d is not None and draw(st.booleans()):
            continue
        kw.append([k, value_for("k")])
    if has_varkw:
        for e in ["e1", "e2", "kw"]:
            if draw(st.integers(0, 2 if e != "kw" else 7)) == 0:
                kw.append([e, value_for("kw")])
    if draw(st.booleans()):
        kw.reverse()

    frame_params = [n for n in ("df", "df2") if n in anns]
    ret_ann = draw(st.sampled_from([None, None, "M", "Mc", "OptM", "UnionMM2", "OptMq", "AnnM"]))
    if ret_ann:
        src = draw(st.sampled_from(["fresh", "fresh"] + frame_params))
        fresh = None
        if src == "fresh":
            fresh = draw(typed_value(ret_ann))
        body = {"raise": False, "shape": "frame", "src": src, "fresh": fresh, "fresh2": None}
    else:
        body = draw(plain_body(frame_params))
    if draw(st.integers(0, 9)) == 0:
        body["raise"] = True
    return {
        "postponed": draw(st.integers(0, 2)) == 0, "deco": "check_types", "bare": draw(st.booleans()),
        "fn": {"kind": kind, "async": is_async, "params": params, "ret_ann": ret_ann, "body": body},
        "inputs": [], "outs": [], "out_form": "list", "stack": None,
        "opts": draw(opts_strategy()),
        "call": {"pos": call_pos, "kw": kw, "via": draw(st.sampled_from(["instance", "instance", "class"]))},
    }


# ----------------------------------------------------------------------- features


def features(case):
    """Case features used by labels and by the known-finding predicates (trigger halves)."""
    fn = case["fn"]
    params = fn["params"]
    pos_names = [p["name"] for p in params if p["k"] == "pos"]
    has_self = fn["kind"] in ("method", "classmethod")
    n_sig = len(params) + (1 if has_self else 0)
    call = case["call"]
    kw_names = [k for k, _ in call["kw"]]
    n_extras = max(0, len(call["pos"]) - len(pos_names))
    n_args_seen = len(call["pos"]) + (1 if has_self else 0)  # what the wrapper receives in *args
    getters = [i["getter"] for i in case.get("inputs", [])]
    anns = [p.get("ann") for p in params if p.get("ann")] + ([fn["ret_ann"]] if fn.get("ret_ann") else [])
    varkw_name = next((p["name"] for p in params if p["k"] == "varkw"), None)
    return {
        "has_self": has_self, "n_sig": n_sig, "n_args_seen": n_args_seen, "n_extras": n_extras,
        "kw_names": kw_names, "getters": getters, "anns": anns,
        "str_positional": [i["name"] for i in case.get("inputs", []) if i["getter"] == "str" and i["name"] not in kw_names],
        "opts_set": sorted(P.nondefault_opts(case["opts"])),
        "has_out": bool(case.get("outs")) or bool(fn.get("ret_ann")),
        "varkw_name": varkw_name,
        "n_user_params": len(params),
    }


def known_triggers(case):
    """Trigger halves of the known findings (pure functions of the case)."""
    f = features(case)
    t = []
    deco = case["deco"]
    if deco == "check_input" and "int" in f["getters"] and f["opts_set"]:
        t.append("int-getter-options")
    if deco in ("check_input", "check_io") and f["getters"]:
        # check_input._wrapper: `is_method and len(args) == len(sig.parameters) - 1` -> binds None as self
        if f["has_self"] and f["n_args_seen"] == f["n_sig"] - 1:
            t.append("method-misbinding")
        if f["str_positional"] and f["n_extras"] >= 1:
            t.append("str-getter-varargs")
            if f["has_self"] and len(f["getters"]) >= 2 and f["n_args_seen"] - f["n_extras"] + 1 == f["n_sig"] - 1:
                # the outer check_input hands the inner one *rest as ONE argument -> the inner one then mis-binds
                t.append("method-misbinding")
    if deco == "check_types":
        if f["n_extras"] == 1:
            t.append("types-single-star-arg")
        if "UnionMM2" in f["anns"] and case["opts"].get("lazy"):
            t.append("types-union-lazy")
        if f["varkw_name"] and f["varkw_name"] in f["kw_names"]:
            t.append("types-varkw-name-collision")
    if case["fn"].get("async") and case.get("outs"):
        t.append("async-check-output")
    return t


# ------------------------------------------------------------------------ evaluate


def _expects_usage_error(case):
    """documented: a callable output getter cannot be combined with a coercing schema (ValueError)"""
    for o in case.get("outs", []):
        if o["getter"] == "callable" and o["schema"] in ("coerce", "ser_coerce"):
            return True
    return False


def evaluate(case):
    ev = Eval()
    f = features(case)
    opts = case["opts"]
    deco = case["deco"]
    fn = case["fn"]
    ev.labels += ["deco=" + deco + ("+check_output" if case.get("stack") else ""), "kind=" + fn["kind"],
                  "async" if fn.get("async") else "sync"]
    for g in f["getters"]:
        ev.labels.append("in-getter=" + g)
    for o in case.get("outs", []):
        ev.labels.append("out-getter=" + ("none" if o["getter"] is None else type(o["getter"]).__name__
                                          if o["getter"] != "callable" else "callable"))
    ev.labels.append("call=" + ("all-positional" if not case["call"]["kw"] else "all-keyword" if not case["call"]["pos"]
                                else "mixed"))
    if f["n_extras"]:
        ev.labels.append("varargs-extras")
    if any(p["k"] == "kwonly" for p in fn["params"]):
        ev.labels.append("sig:kwonly")
    if any(p["k"] == "varkw" for p in fn["params"]):
        ev.labels.append("sig:varkw")
    if any(p.get("default") is not None for p in fn["params"]):
        ev.labels.append("sig:defaults")
    for k in f["opts_set"]:
        if k != "random_state":
            ev.labels.append("opt:" + k)
    for a in sorted(set(f["anns"])):
        ev.labels.append("ann=" + a)
    trig = known_triggers(case)
    for t in trig:
        ev.labels.append("known-trigger:" + t)
    if not trig:
        ev.labels.append("no-known-trigger")

    default_shape = (not case["call"]["kw"]) and all(g == "none" for g in f["getters"])
    ev.nontrivial = (f["n_user_params"] >= 2 and not default_shape) or bool(f["opts_set"]) or f["has_out"]

    try:
        if _expects_usage_error(case):
            obs = P.observed(case, opts)
            ev.labels.append("expect=callable-getter-with-coercion-refused")
            ok = obs["deco_error"] == "ValueError" or (obs["raised"] == "other:ValueError" and obs["body_calls"] == 0)
            if not ok:
                ev.add("callable-getter-with-coercing-schema-not-refused",
                       {"deco_error": obs["deco_error"], "raised": obs["raised"], "body_calls": obs["body_calls"]})
            return ev
        exp = P.reference(case, opts)
        exp0 = None
        if f["opts_set"]:
            exp0 = P.reference(case, P.DEFAULT_OPTS)
            if (exp0["raised"], exp0["stage"], exp0["result"], exp0["caller_state"], exp0["log"]) != (
                    exp["raised"], exp["stage"], exp["result"], exp["caller_state"], exp["log"]):
                ev.labels.append("options-decisive")
        obs = P.observed(case, opts)
    except P.Skip as s:
        ev.skipped = str(s)
        return ev
    ev.labels.append("expect=" + ("returns" if exp["raised"] is None else
                                  "body-raises" if exp["raised"] == "Boom" else "rejected-at-" + str(exp["stage"])))
    discs = P.compare(exp, obs, case)
    if discs:
        as_if_no_opts = False
        if exp0 is not None and f["getters"]:
            try:  # would pandera's behaviour be right if the *input* validations had been given no options?
                as_if_no_opts = not P.compare(P.reference(case, opts, in_opts=P.DEFAULT_OPTS), obs, case)
            except P.Skip:
                as_if_no_opts = False
        for kind, detail in discs:
            if isinstance(detail, dict):
                detail = dict(detail)
                detail["observed_matches_reference_without_options"] = as_if_no_opts
            ev.add(kind, detail)
    return ev


# ------------------------------------------------------------------ known findings


def _params(disc):
    return disc.detail.get("params") if isinstance(disc.detail, dict) else None


@known.finding("C17/check-input-int-getter-ignores-options")
def _k_int_opts(family, case, disc):
    # symptom: behaves exactly like the same decorator without any option
    return ("int-getter-options" in known_triggers(case)
            and disc.kind in ("valid-input-rejected", "wrong-error-class", "body-args-differ",
                              "body-args-differ:identity-only", "result-differs", "result-differs:identity-only",
                              "caller-objects-state-differs")
            and isinstance(disc.detail, dict) and disc.detail.get("observed_matches_reference_without_options") is True)


@known.finding("C17/check-input-method-misbinding")
def _k_misbind(family, case, disc):
    if "method-misbinding" not in known_triggers(case):
        return False
    if disc.kind == "unexpected-exception:TypeError" and "too many positional arguments" in str(
            disc.detail.get("observed", {}).get("msg")):
        return True  # bind_partial(None, *args) itself fails, whatever the getter
    # the remaining symptoms need the mis-bound mapping to be *used*: str getter, argument passed positionally
    if not features(case)["str_positional"]:
        return False
    # ... the wrong object (self, a neighbouring argument) is handed to schema.validate, which may raise anything
    return disc.kind.startswith("unexpected-exception:") or disc.kind in (
        "body-args-differ", "body-args-differ:identity-only", "valid-input-rejected", "body-ran-on-rejected-input")


@known.finding("C17/check-input-str-getter-varargs-repacked")
def _k_varargs(family, case, disc):
    return ("str-getter-varargs" in known_triggers(case) and disc.kind == "body-args-differ"
            and _params(disc) == ["rest"])


@known.finding("C17/check-types-single-star-arg")
def _k_star1(family, case, disc):
    if "types-single-star-arg" not in known_triggers(case):
        return False
    if disc.kind == "body-args-differ":
        return _params(disc) == ["rest"]
    rest = next((p for p in case["fn"]["params"] if p["k"] == "var"), None)
    return disc.kind == "body-ran-on-rejected-input" and bool(rest and rest.get("ann"))


@known.finding("C17/async-check-output-returns-unvalidated")
def _k_async_out(family, case, disc):
    return ("async-check-output" in known_triggers(case)
            and disc.kind in ("result-differs", "result-differs:identity-only")
            and isinstance(disc.detail, dict) and disc.detail.get("observed_equals_unvalidated_body_output") is True)


@known.finding("C17/check-types-union-lazy-stops-at-first-member")
def _k_union_lazy(family, case, disc):
    return "types-union-lazy" in known_triggers(case) and disc.kind in ("valid-input-rejected", "valid-output-rejected")


@known.finding("C17/check-types-varkw-name-collision")
def _k_varkw(family, case, disc):
    if "types-varkw-name-collision" not in known_triggers(case):
        return False
    vk = next(p for p in case["fn"]["params"] if p["k"] == "varkw")
    if disc.kind == "body-args-differ":
        return _params(disc) == [vk["name"]]
    return disc.kind == "body-ran-on-rejected-input" and bool(vk.get("ann"))


# --------------------------------------------------------------------------- polars


@st.composite
def strat_polars(draw):
    n = draw(st.integers(0, 4))
    base = [draw(st.sampled_from([1, 2, 3, 5])) for _ in range(n)]
    cls = draw(st.sampled_from(["valid", "valid", "bad", "strs", "strs_bad"]))
    if n and cls in ("bad", "strs_bad"):
        base[draw(st.integers(0, n - 1))] = draw(st.sampled_from([-1, 0]))
    if cls.startswith("strs"):
        base = [str(c) for c in base]
    deco = draw(st.sampled_from(["check_input", "check_input", "check_output", "check_io", "check_types", "check_types"]))
    return {
        "deco": deco, "cells": base, "container": draw(st.sampled_from(["df", "df", "lf"])),
        "schema": draw(st.sampled_from(["gt0", "coerce"])) if deco != "check_types" else draw(st.sampled_from(["PM", "PMc"])),
        "getter": draw(st.sampled_from(["none", "int", "str"])), "df_pos": draw(st.integers(0, 1)),
        "pass_kw": draw(st.booleans()), "method": draw(st.booleans()), "lazy": draw(st.booleans()),
        "body": draw(st.sampled_from(["same", "same", "fresh_valid", "fresh_bad", "tuple", "raise"])),
        "ann_ret": draw(st.booleans()),
    }


def eval_polars(case):
    import pandera as pa

    from .. import fp
    from . import _c17_polars as Q

    ev = Eval()
    deco, schema = case["deco"], Q.schema_of(case["schema"])
    df_pos, method = case["df_pos"], case["method"]
    getter = case["getter"]
    if deco in ("check_input", "check_io"):
        if getter == "none" and df_pos != 0:
            getter = "str"  # the default designation is the first argument
        if getter == "int" and case["pass_kw"]:
            getter = "str"  # an int getter indexes positional arguments
    ev.labels += ["pl:deco=" + deco, "pl:container=" + case["container"], "pl:body=" + case["body"],
                  "pl:getter=" + getter, "pl:method" if method else "pl:function"]
    log = []
    opts = {"lazy": True} if case["lazy"] else {}
    designated_out = deco in ("check_output", "check_io") or (deco == "check_types" and case["ann_ret"])

    def make_body():
        def body(df, x):
            log.append({"df": Q.snap(df), "x": x})
            b = case["body"]
            if b == "raise":
                raise Q.Boom("boom")
            if b == "fresh_valid":
                return Q.frame([1, 2], case["container"])
            if b == "fresh_bad":
                return Q.frame([1, -2], case["container"])
            if b == "tuple" and deco in ("check_output", "check_io"):
                return ("foo", df)
            return df
        return body

    body = make_body()
    params = ["x", "df"] if df_pos == 1 else ["df", "x"]
    ann = {}
    if deco == "check_types":
        T = (Q.PlLazyFrame if case["container"] == "lf" else Q.PlDataFrame)[Q.MODELS[case["schema"]]]
        ann["df"] = T
        if case["ann_ret"]:
            ann["return"] = T
    ns = {"body": body}
    src = f"def fn({'self, ' if method else ''}{params[0]}, {params[1]}=7):\n    return body(df, x)\n"
    exec(src, ns)
    raw = ns["fn"]
    raw.__annotations__ = dict(ann)
    out_getter = 1 if case["body"] == "tuple" and deco in ("check_output", "check_io") else None
    try:
        if deco == "check_input":
            g = {"none": None, "int": df_pos, "str": "df"}[getter]
            wrapped = pa.check_input(schema, g, **opts)(raw)
        elif deco == "check_output":
            wrapped = pa.check_output(schema, out_getter, **opts)(raw)
        elif deco == "check_io":
            wrapped = pa.check_io(out=(out_getter, schema) if out_getter is not None else schema, **{"df": schema}, **opts)(raw)
        else:
            wrapped = pa.check_types(raw, **opts) if opts else pa.check_types(raw)
    except Exception as e:  # noqa: BLE001
        ev.add("pl:decorating-raised:" + type(e).__name__, {"msg": str(e)[:200]})
        return ev
    arg = Q.frame(case["cells"], case["container"])
    holder = type("K", (), {"fn": wrapped})() if method else None
    callee = holder.fn if method else wrapped
    pos, kw = [], {}
    if case["pass_kw"]:
        kw = {"df": arg, "x": 3}
    else:
        pos = [3, arg] if df_pos == 1 else [arg, 3]

    # ---- reference
    exp = {"ran": False, "raised": None, "result": None, "saw": None}
    cur = arg
    fail = None
    if deco in ("check_input", "check_io", "check_types"):
        o = fp.outcome(lambda: schema.validate(cur, **opts))
        if o["kind"] == "ok":
            cur = o["value"]
        elif o["kind"] in ("SchemaError", "SchemaErrors"):
            fail = o["kind"]
        else:
            ev.skipped = "oracle-validate-" + o["kind"]
            return ev
    if fail:
        exp["raised"] = fail
    else:
        exp["ran"] = True
        exp["saw"] = Q.snap(cur)
        b = case["body"]
        if b == "raise":
            exp["raised"] = "Boom"
        else:
            out = Q.frame([1, 2], case["container"]) if b == "fresh_valid" else Q.frame([1, -2], case["container"]) \
                if b == "fresh_bad" else cur
            tup = b == "tuple" and deco in ("check_output", "check_io")
            if designated_out:
                o = fp.outcome(lambda: schema.validate(out, **opts))
                if o["kind"] == "ok":
                    out = o["value"]
                elif o["kind"] in ("SchemaError", "SchemaErrors"):
                    exp["raised"] = o["kind"]
                else:
                    ev.skipped = "oracle-validate-" + o["kind"]
                    return ev
            if exp["raised"] is None:
                exp["result"] = Q.snap(("foo", out) if tup else out)
    ev.labels.append("pl:expect=" + ("rejected-at-input" if fail else exp["raised"] or "returns"))
    ev.nontrivial = True

    # ---- observed
    before = Q.snap(arg)
    try:
        res = callee(*pos, **kw)
        got = {"raised": None, "result": Q.snap(res)}
    except Q.Boom:
        got = {"raised": "Boom", "result": None}
    except pa.errors.SchemaErrors:
        got = {"raised": "SchemaErrors", "result": None}
    except pa.errors.SchemaError:
        got = {"raised": "SchemaError", "result": None}
    except Exception as e:  # noqa: BLE001
        got = {"raised": "other:" + type(e).__name__, "result": None, "msg": str(e)[:200]}
    ran = bool(log)
    detail = {"case": {k: case[k] for k in ("deco", "getter", "df_pos", "pass_kw", "method", "lazy", "body", "container", "schema")}}
    if ran != exp["ran"]:
        ev.add("pl:body-ran-on-rejected-input" if ran else "pl:body-not-run-on-valid-input", dict(detail, got=got["raised"]))
        return ev
    if got["raised"] != exp["raised"]:
        ev.add(f"pl:raises-differ:{exp['raised']}->{got['raised']}", dict(detail, msg=got.get("msg")))
        return ev
    if ran:
        if log[0]["df"] != exp["saw"]:
            ev.add("pl:body-did-not-see-parsed-frame", dict(detail, saw=log[0]["df"], expected=exp["saw"]))
        if log[0]["x"] != 3:
            ev.add("pl:other-argument-changed", dict(detail, x=log[0]["x"]))
    if exp["raised"] is None and got["result"] != exp["result"]:
        ev.add("pl:result-differs", dict(detail, got=got["result"], expected=exp["result"]))
    if Q.snap(arg) != before:
        ev.add("pl:caller-frame-modified", detail)
    return ev


# ------------------------------------------------------------------------ selftest


# ------------------------------------------------------------------ integer getter into *args


@st.composite
def strat_varargs(draw):
    """check_input(schema, i) on functions / methods that take their frames through *frames: the integer designates the
    i-th positional argument of the call (self not counted), wherever the signature puts it."""
    lead = draw(st.integers(0, 2))  # named positional parameters in front of *frames
    nvar = draw(st.integers(1, 3))
    kwonly = draw(st.sampled_from([None, None, False, True]))  # a keyword-only flag after *frames: absent / default / passed
    npos = lead + nvar
    getter = draw(st.integers(0, npos - 1))
    sk = draw(st.sampled_from(["gt0", "coerce", "coerce"]))
    vals = []
    for i in range(npos):
        if i == getter or draw(st.integers(0, 2)) == 0:
            vals.append(draw(frame_spec(sk)))
        else:
            vals.append(draw(st.sampled_from(PLAIN)))
    return {"kind": draw(st.sampled_from(["function", "function", "method", "staticmethod", "classmethod"])), "lead": lead,
            "nvar": nvar, "kwonly": kwonly, "getter": getter, "schema": sk, "vals": vals,
            "lazy": draw(st.integers(0, 4)) == 0}


def eval_varargs(case):
    import pandera as pa

    ev = Eval()
    ev.labels += ["va:kind=" + case["kind"], f"va:lead={case['lead']}", "va:getter-in-varargs" if case["getter"] >= case["lead"]
                  else "va:getter-named", "va:kwonly=" + str(case["kwonly"])]
    schema = P.schema_of(case["schema"])
    opts = dict(P.DEFAULT_OPTS, lazy=bool(case["lazy"]))
    log = []
    names = ["p%d" % i for i in range(case["lead"])]
    has_self = case["kind"] in ("method", "classmethod")
    src = "def f(" + ", ".join((["self"] if case["kind"] == "method" else ["cls"] if case["kind"] == "classmethod" else [])
                               + names + ["*frames"] + (["upper=False"] if case["kwonly"] is not None else [])) + "):\n"
    src += "    LOG.append((" + ", ".join(names + ["frames"] + (["upper"] if case["kwonly"] is not None else [])) + ",))\n    return 'done'\n"
    ns = {"LOG": log}
    exec(src, ns)  # noqa: S102 - harness-generated source
    raw = ns["f"]
    try:
        dec = pa.check_input(schema, case["getter"], **P.nondefault_opts(opts))(raw)
    except Exception as e:  # noqa: BLE001
        ev.add("varargs:decorating-raised:" + type(e).__name__, {"msg": str(e)[:200]})
        return ev
    kind = case["kind"]
    if kind == "function":
        call = dec
    else:
        wrapped = {"method": dec, "staticmethod": staticmethod(dec), "classmethod": classmethod(dec)}[kind]
        K = type("K", (), {"f": wrapped})
        call = K().f
    try:
        args = [P.build_value(v) for v in case["vals"]]
    except P.Skip as s:
        ev.skipped = str(s)
        return ev
    kw = {"upper": True} if case["kwonly"] else {}
    target = args[case["getter"]]
    try:
        verdict, parsed = P.validate_outcome(schema, target, opts)
    except P.Skip as s:
        ev.skipped = str(s)
        return ev
    ev.labels.append("va:expect=" + ("returns" if verdict == "ok" else "rejected"))
    ev.nontrivial = case["getter"] >= case["lead"] or has_self
    res = fp.outcome(lambda: call(*args, **kw))
    if verdict != "ok":
        if res["kind"] not in ("SchemaError", "SchemaErrors"):
            ev.add("varargs:invalid-designated-argument-not-rejected:" + res["kind"],
                   {"exc": res.get("exc_type"), "msg": str(res.get("msg"))[:200], "body_calls": len(log)})
        elif log:
            ev.add("varargs:body-ran-on-rejected-input", {"body_calls": len(log)})
        return ev
    if res["kind"] != "ok":
        ev.add("varargs:valid-call-raised:" + str(res.get("exc_type") or res["kind"]), {"msg": str(res.get("msg"))[:200]})
        return ev
    if len(log) != 1 or res["value"] != "done":
        ev.add("varargs:body-not-run-once", {"body_calls": len(log), "result": repr(res["value"])[:80]})
        return ev
    seen = log[0]
    got = list(seen[:case["lead"]]) + list(seen[case["lead"]])
    for i, (g, a) in enumerate(zip(got, args)):
        if i == case["getter"]:
            if fp.snapshot(g) != fp.snapshot(parsed):
                ev.add("varargs:body-did-not-get-the-parsed-object", {"pos": i, "diff": fp.fp_diff(fp.snapshot(parsed), fp.snapshot(g))[:3]})
        elif g is not a:
            ev.add("varargs:other-argument-replaced", {"pos": i})
    if len(got) != len(args):
        ev.add("varargs:argument-count-changed", {"passed": len(args), "seen": len(got)})
    if case["kwonly"] is not None and seen[-1] is not bool(case["kwonly"]):
        ev.add("varargs:keyword-only-argument-changed", {"passed": case["kwonly"], "seen": repr(seen[-1])})
    return ev


# ------------------------------------------------------------------ sample= / random_state= reach the validation


@st.composite
def strat_sample_state(draw):
    """Cases of the other families with only sample= and random_state= set and longer frames holding one bad row:
    whether the call is accepted depends on exactly which rows `D.sample(n, random_state=r)` draws."""
    import copy

    case = copy.deepcopy(draw(st.one_of(strat_inputs(), strat_outputs(), strat_types())))
    opts = dict(P.DEFAULT_OPTS)
    opts["sample"] = draw(st.integers(1, 3))
    opts["random_state"] = draw(st.sampled_from([0, 0, 1, 7, 42]))
    case["opts"] = opts

    def longer(spec):
        if isinstance(spec, dict) and ("frame" in spec or "series" in spec) and not spec.get("carry"):
            key = "frame" if "frame" in spec else "series"
            n = draw(st.integers(5, 9))
            cells_ = [draw(st.sampled_from([1, 2, 3, 5])) for _ in range(n)]
            if draw(st.integers(0, 3)) > 0:
                cells_[draw(st.integers(0, n - 1))] = -1
            return {key: cells_}
        return spec

    case["call"]["pos"] = [longer(v) for v in case["call"]["pos"]]
    case["call"]["kw"] = [[k, longer(v)] for k, v in case["call"]["kw"]]
    body = case["fn"]["body"]
    for k in ("fresh", "fresh2"):
        if body.get(k) is not None:
            body[k] = longer(body[k])
    return case


# ------------------------------------------------------------------ one decorator object, several callables


@st.composite
def strat_shared(draw):
    """One decorator object applied to two callables of different kinds (function / method / classmethod /
    staticmethod) that are then called in turn: every call must behave as if its callable had a decorator of its
    own.  The second callable is the first one with another kind and freshly drawn designated frames."""
    import copy

    a = draw(st.one_of(strat_inputs(), strat_inputs(), strat_outputs(), strat_types()))
    b = copy.deepcopy(a)
    kinds = ["function", "method", "classmethod", "staticmethod"]
    b["fn"]["kind"] = draw(st.sampled_from([k for k in kinds if k != a["fn"]["kind"]] + [a["fn"]["kind"]]))
    b["call"]["via"] = draw(st.sampled_from(["instance", "class"]))
    pos_names = [p["name"] for p in b["fn"]["params"] if p["k"] == "pos"]
    for inp in b.get("inputs", []):
        new = draw(frame_spec(inp["schema"]))
        for kv in b["call"]["kw"]:
            if kv[0] == inp["name"]:
                kv[1] = new
        if inp["name"] in pos_names:
            i = pos_names.index(inp["name"])
            if i < len(b["call"]["pos"]):
                b["call"]["pos"][i] = new
    order = draw(st.sampled_from([["a", "b", "a"], ["b", "a", "b"], ["a", "b"], ["b", "a"]]))
    return {"a": a, "b": b, "order": order}


def eval_shared(case):
    ev = Eval()
    a, b = case["a"], case["b"]
    ev.labels += ["shared:deco=" + a["deco"], "shared:kinds=" + a["fn"]["kind"] + "+" + b["fn"]["kind"]]
    has_self = {m["fn"]["kind"] in ("method", "classmethod") for m in (a, b)}
    if len(has_self) == 2:
        ev.labels.append("shared:self-and-no-self")
    for m in (a, b):
        if known_triggers(m) or _expects_usage_error(m):
            ev.skipped = "member-has-known-trigger-or-usage-error"
            return ev
    ev.nontrivial = a["fn"]["kind"] != b["fn"]["kind"]
    opts = a["opts"]
    try:
        exps = {k: P.reference(case[k], opts) for k in ("a", "b")}
        for k in ("a", "b"):  # each callable on its own decorator must already agree with the reference
            if P.compare(exps[k], P.observed(case[k], opts), case[k]):
                ev.skipped = "member-differs-with-its-own-decorator"
                return ev
        shared = P.decorator_for(a, opts)
        for n, k in enumerate(case["order"]):
            obs = P.observed(case[k], opts, decorator=shared)
            for kind, detail in P.compare(exps[k], obs, case[k]):
                ev.add("shared-decorator:" + kind, {"call": n, "member": k, "order": case["order"], "detail": detail})
    except P.Skip as s:
        ev.skipped = str(s)
    return ev


def selftest():
    """Calibration: the comparison must be silent on an undecorated-equivalent run and loud on a planted difference."""
    case = {
        "deco": "check_input",
        "fn": {"kind": "function", "async": False, "ret_ann": None,
               "params": [{"name": "df", "k": "pos", "default": None, "ann": None},
                          {"name": "x", "k": "pos", "default": {"v": 7}, "ann": None}],
               "body": {"raise": False, "shape": "frame", "src": "df", "fresh": None, "fresh2": None}},
        "inputs": [{"name": "df", "schema": "coerce", "getter": "str"}], "outs": [], "out_form": "list", "stack": None,
        "opts": dict(P.DEFAULT_OPTS), "call": {"pos": [{"frame": ["1", "2"]}], "kw": [], "via": "instance"},
    }
    ev = evaluate(case)
    if ev.discs or ev.skipped:
        raise HarnessError(f"C17 selftest: baseline case not quiet: {[d.kind for d in ev.discs]} {ev.skipped}")
    exp = P.reference(case, case["opts"])
    if exp["raised"] is not None or exp["body_calls"] != 1:
        raise HarnessError("C17 selftest: reference did not run the body")
    snap = exp["log"][0]["args"]["df"]["pd"]
    if snap["dtypes"] != ["int64"]:
        raise HarnessError(f"C17 selftest: reference body did not see the parsed frame: {snap['dtypes']}")
    bad = dict(case, call={"pos": [{"frame": ["1", "x"]}], "kw": [], "via": "instance"})
    exp = P.reference(bad, bad["opts"])
    if exp["raised"] != "SchemaError" or exp["body_calls"] != 0:
        raise HarnessError("C17 selftest: reference did not reject an invalid frame")
    # a planted difference must be seen
    obs = P.observed(case, case["opts"])
    obs["log"][0]["args"]["df"]["same_as"] = 0
    if not P.compare(P.reference(case, case["opts"]), obs, case):
        raise HarnessError("C17 selftest: comparison is blind")


FAMILIES = [
    Family("inputs", evaluate, strategy=strat_inputs, n_quick=960, n_thorough=4000, shards_quick=5, shards_thorough=16,
           required_labels=["in-getter=int", "in-getter=str", "in-getter=none", "kind=method", "kind=classmethod",
                            "async", "options-decisive", "varargs-extras", "deco=check_io",
                            "expect=rejected-at-input", "no-known-trigger"]),
    Family("outputs", evaluate, strategy=strat_outputs, n_quick=800, n_thorough=3000, shards_quick=3, shards_thorough=8,
           required_labels=["out-getter=none", "out-getter=int", "out-getter=str", "out-getter=callable", "async",
                            "expect=rejected-at-output", "options-decisive"]),
    Family("polars", eval_polars, strategy=strat_polars, n_quick=500, n_thorough=3000, shards_quick=3, shards_thorough=8,
           required_labels=["pl:deco=check_input", "pl:deco=check_output", "pl:deco=check_io", "pl:deco=check_types",
                            "pl:expect=rejected-at-input", "pl:expect=returns", "pl:container=lf"]),
    Family("varargs", eval_varargs, strategy=strat_varargs, n_quick=400, n_thorough=3000, shards_quick=2, shards_thorough=8,
           required_labels=["va:getter-in-varargs", "va:kind=method", "va:expect=rejected", "va:kwonly=True"]),
    Family("sample_state", evaluate, strategy=strat_sample_state, n_quick=300, n_thorough=2000, shards_quick=3,
           shards_thorough=8, required_labels=["opt:sample", "options-decisive", "deco=check_io", "deco=check_types"]),
    Family("shared", eval_shared, strategy=strat_shared, n_quick=400, n_thorough=2500, shards_quick=3, shards_thorough=8,
           required_labels=["shared:self-and-no-self", "shared:deco=check_input", "shared:deco=check_types"]),
    Family("types", evaluate, strategy=strat_types, n_quick=960, n_thorough=4000, shards_quick=5, shards_thorough=16,
           required_labels=["ann=M", "ann=UnionMM2", "ann=OptM", "varargs-extras", "sig:varkw", "kind=method",
                            "expect=rejected-at-input", "expect=rejected-at-output", "options-decisive"]),
]
