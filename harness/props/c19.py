"""C19 - check options do only what they document.

Families (pandas unless stated)
  column   Series/Column check, no groupby.  One generated (data, predicate, ignore_na, n) is run in
           several option variants (native vectorised / ``s.map(f)`` / element_wise=True / bool output /
           n_failure_cases / raise_warning / all options combined) through ``Check(...)(series)`` and
           through ``schema.validate``; every variant is compared with a pure-Python reference
           (fail positions of the scalar predicate, nulls excused iff ignore_na) and the functions log
           what they were shown.
  frame    dataframe-level checks (Series / DataFrame / bool output, element_wise rows); documented
           semantics "rows with any null value are dropped" when ignore_na=True.
  groupby  Column / dataframe-level checks with groupby (str, list, callable) and groups: the dict
           handed to the function == reference grouping computed in plain Python.
  alias    eq/ne/gt/ge/lt/le/between vs their canonical constructors (attributes, verdict, failure cases)
           and vs scalar semantics.
  polars   element_wise == vectorised, ignore_na True/False, raise_warning on pandera.polars.
"""
from __future__ import annotations

import warnings

from hypothesis import strategies as st

from .. import fp, known
from ..core import Eval, Family, HarnessError
from . import _c19_model as M

PROPERTY = "C19"
LEVEL = "exploration"
RULE = (
    "Hypothesis-generated cases: small data (0-6 rows; float with NaN / int / object-str with None; default, "
    "unique and duplicated index labels), a predicate from a total family (x>a, x%m==r, x in A, |x-a|<=b, "
    "len(str(x))<k, constant, x==a; row-wise a<b, col>c, cell-wise df>c for frames), option values "
    "(ignore_na, n_failure_cases, groupby spec, groups, alias + kwargs). Each case runs 4-9 option variants of "
    "the same check and compares each with a pure-Python reference. Non-trivial: the data contains a null or "
    ">=2 groups (alias family: the data contains a null or a value equal to a bound), and at least two different "
    "option settings are compared on it. Distinct = hash of the canonical JSON case."
)
ASSUMPTIONS = [
    "reference = scalar predicate applied cell by cell in plain Python; nulls are None/NaN; NaN comparisons are False",
    "ignore_na semantics from the Check docstring and docs/source/checks.md 'Handling Null Values' (Series: null "
    "elements dropped; DataFrame: rows with any null dropped)",
    "n_failure_cases: only truncation is asserted (subset, 1<=len<=n, verdict unchanged); 'first n' additionally when "
    "the failing values are pairwise distinct, where 'first n' and 'first n unique' coincide",
    "groupby keys follow pandas groupby defaults (sorted, scalar key for one grouping column, tuple for several); "
    "key columns contain no nulls; unobserved categories may appear as empty groups",
    "polars: only verdict and failure values are compared (a LazyFrame function is not shown data); float NaN excluded",
]


class Obs(Exception):
    """pandera returned something of an unexpected shape (a discrepancy, not a harness error)."""


def _setup():
    import pandas as pd
    import pandera as pa

    pa.DataFrameSchema.register_default_backends(pd.DataFrame)
    try:
        pa.DataFrameSchema({"a": pa.Column(None)}).validate(pd.DataFrame({"a": [1]}))
    except Exception:
        pass


def _setup_polars():
    _setup()
    import polars as pl
    import pandera.polars as pap

    try:
        pap.DataFrameSchema({"a": pap.Column(pl.Int64)}).validate(pl.DataFrame({"a": [1]}))
    except Exception:
        pass


# ------------------------------------------------------------------ observation helpers


def _pairs_from_series(fc):
    """failure cases Series -> [[label, value], ...] (normalised)"""
    import pandas as pd

    if fc is None:
        return []
    if not isinstance(fc, pd.Series):
        raise Obs(f"failure_cases is {type(fc).__name__}, expected Series/None")
    return [[M.norm(i), M.norm(v)] for i, v in zip(fc.index.tolist(), fc.tolist())]


def _pairs_from_error(exc):
    """SchemaError.failure_cases (reshaped frame with index / failure_case) -> pairs"""
    import pandas as pd

    fc = getattr(exc, "failure_cases", None)
    if not isinstance(fc, pd.DataFrame) or "failure_case" not in fc.columns or "index" not in fc.columns:
        raise Obs(f"SchemaError.failure_cases has unexpected shape: {type(fc).__name__}")
    return [[M.norm(i), M.norm(v)] for i, v in zip(fc["index"].tolist(), fc["failure_case"].tolist())]


def _passed(res):
    cp = getattr(res, "check_passed", None)
    if cp is None:
        raise Obs("CheckResult.check_passed is None")
    try:
        return bool(cp)
    except Exception:
        raise Obs(f"check_passed not bool-like: {type(cp).__name__}")


def _msorted(pairs):
    return sorted(pairs, key=repr)


def _sub_multiset(small, big):
    rest = [repr(x) for x in big]
    for x in small:
        r = repr(x)
        if r in rest:
            rest.remove(r)
        else:
            return False
    return True


def _run_validate(schema, obj, lazy=False):
    """-> ('ok', value, warnings) | ('reject', exc, warnings) | ('internal', exc, warnings)"""
    import pandera.errors as pe

    with warnings.catch_warnings(record=True) as w:
        warnings.simplefilter("always")
        try:
            v = schema.validate(obj, lazy=lazy)
            kind, val = "ok", v
        except pe.SchemaErrors as e:
            kind, val = "reject", e
        except pe.SchemaError as e:
            kind, val = "reject", e
        except Exception as e:  # anything else leaking out of validate
            kind, val = "internal", e
    nwarn = sum(1 for x in w if issubclass(x.category, pe.SchemaWarning))
    return kind, val, nwarn


def _reason(exc):
    rc = getattr(exc, "reason_code", None)
    return getattr(rc, "name", str(rc))


def _exc_detail(e):
    return {"type": type(e).__name__, "msg": str(e)[:400]}


# =================================================================== column family


def _index_strategy(n):
    return st.one_of(
        st.none(),
        st.none(),
        st.permutations(list(range(10, 10 + n))).map(list),                       # unique, non-default
        st.lists(st.sampled_from([0, 1, 2]), min_size=n, max_size=n),              # duplicated labels likely
        st.lists(st.sampled_from(["x", "y", "z", "w"]), min_size=n, max_size=n),  # string labels
    )


def _pred_strategy(dtype):
    small = st.integers(-3, 3)
    if dtype == "str":
        pool = ["", "a", "ab", "abc", "b", "nan", "None"]
        return st.one_of(
            st.builds(lambda A: {"k": "isin", "A": A}, st.lists(st.sampled_from(pool), max_size=3, unique=True)),
            st.builds(lambda n: {"k": "strlen", "n": n}, st.integers(0, 5)),
            st.builds(lambda c: {"k": "const", "c": c}, st.booleans()),
            st.builds(lambda a: {"k": "eq", "a": a}, st.sampled_from(pool)),
        )
    return st.one_of(
        st.builds(lambda a: {"k": "gt", "a": a}, small),
        st.builds(lambda m, r: {"k": "mod", "m": m, "r": r % m}, st.integers(1, 3), st.integers(0, 2)),
        st.builds(lambda A: {"k": "isin", "A": A}, st.lists(small, max_size=3, unique=True)),
        st.builds(lambda a, b: {"k": "absdiff", "a": a, "b": b}, small, st.integers(0, 2)),
        st.builds(lambda c: {"k": "const", "c": c}, st.booleans()),
        st.builds(lambda a: {"k": "eq", "a": a}, small),
    )


def _cells_strategy(dtype, n):
    if dtype == "str":
        cell = st.one_of(st.sampled_from(["", "a", "ab", "abc", "b", "nan", "None"]), st.none())
    elif dtype == "float":
        cell = st.one_of(st.integers(-4, 4), st.sampled_from([0.5, -0.5, 2.5]), st.none(), st.none())
    else:
        cell = st.integers(-4, 4)
    return st.lists(cell, min_size=n, max_size=n)


@st.composite
def strat_column(draw):
    dtype = draw(st.sampled_from(["float", "float", "int", "str"]))
    n = draw(st.integers(0, 6))
    return {
        "dtype": dtype,
        "cells": draw(_cells_strategy(dtype, n)),
        "index": draw(_index_strategy(n)),
        "pred": draw(_pred_strategy(dtype)),
        "ignore_na": draw(st.sampled_from([True, False, True])),
        "n": draw(st.sampled_from([None, 1, 1, 2, 3, 0])),  # (0: "the first no failure cases" - still a failure)
        "entry": draw(st.sampled_from(["column", "series"])),
        "vform": draw(st.sampled_from(["native", "map", "ew"])),
        "lazy": draw(st.booleans()),
    }


def _index_has_dups(case):
    ix = case.get("index")
    return ix is not None and len(set(map(repr, ix))) < len(ix)


def _mk_schema(entry, chk):
    import pandera as pa

    if entry == "series":
        return pa.SeriesSchema(None, checks=[chk], nullable=True, name=None)
    return pa.DataFrameSchema({"a": pa.Column(None, checks=[chk], nullable=True)})


def _mk_obj(entry, series):
    import pandas as pd

    return series if entry == "series" else pd.DataFrame({"a": series})


def eval_column(case):
    import pandera as pa

    ev = Eval()
    dtype, cells, pred, ig, n = case["dtype"], case["cells"], case["pred"], case["ignore_na"], case["n"]
    py = M.py_cells(dtype, cells)
    nulls = [i for i, x in enumerate(py) if M.is_null(x)]
    labels = case["index"] if case["index"] is not None else list(range(len(cells)))
    fail = M.ref_fail_positions(dtype, cells, pred, ig)
    exp_pairs = [[M.norm(labels[i]), M.norm(py[i])] for i in fail]
    exp_pass = not fail
    ev.nontrivial = bool(nulls)
    ev.labels += [f"dtype={dtype}", f"pred={pred['k']}", f"ignore_na={ig}", "has-null" if nulls else "no-null",
                  "ref=pass" if exp_pass else "ref=fail", "n=None" if n is None else "n=set",
                  "idx=" + ("default" if case["index"] is None else "dup" if _index_has_dups(case) else "unique"),
                  "empty" if not cells else "nonempty"]
    if nulls and fail and set(fail) & set(nulls):
        ev.labels.append("null-fails")

    scalar = M.scalar_fn(pred)
    native = M.native_fn(pred, dtype)
    series = M.build_series(dtype, cells, case["index"])

    def make(form, log, **kw):
        """Check in the given form whose function logs what it is shown."""
        if form == "ew":
            def f(x):
                log.append(("elem", M.is_null(x)))
                return scalar(x)
            return pa.Check(f, element_wise=True, **kw)
        if form == "map":
            def g(s):
                log.append(("vec", int(s.isna().sum()), len(s)))
                return s.map(scalar).astype(bool)
            return pa.Check(g, **kw)
        if form == "bool":
            def h(s):
                log.append(("vec", int(s.isna().sum()), len(s)))
                return bool(native(s).all())
            return pa.Check(h, **kw)

        def v(s):
            log.append(("vec", int(s.isna().sum()), len(s)))
            return native(s)
        return pa.Check(v, **kw)

    def shown_check(form, log, where):
        """ignore_na=True: never shown a null; ignore_na=False: shown every null."""
        if not log:
            expected_seen = len(cells) - (len(nulls) if ig else 0)
            if form != "ew" or expected_seen:
                ev.add(f"column:fn-not-called:{form}", {"where": where})
            return
        if log[0][0] == "elem":
            seen_nulls = sum(1 for e in log if e[1])
            seen = len(log)
        else:
            seen_nulls, seen = log[-1][1], log[-1][2]
        if ig:
            if seen_nulls:
                ev.add(f"column:fn-saw-null:{form}", {"where": where, "nulls_seen": seen_nulls})
            if seen != len(cells) - len(nulls):
                ev.add(f"column:fn-input-size:{form}", {"where": where, "seen": seen,
                                                        "expected": len(cells) - len(nulls)})
        else:
            if seen_nulls != len(nulls) or seen != len(cells):
                ev.add(f"column:nulls-not-passed-through:{form}",
                       {"where": where, "nulls_seen": seen_nulls, "nulls": len(nulls), "seen": seen})

    # ---- 1. every form through Check(...)(series), compared with the reference
    for form in ("native", "map", "ew"):
        log = []
        try:
            res = make(form, log, ignore_na=ig)(series)
            got_pass = _passed(res)
            got_pairs = _pairs_from_series(res.failure_cases)
        except Obs as e:
            ev.add(f"column:malformed-result:{form}", str(e))
            continue
        except Exception as e:
            ev.add(f"column:check-raised:{form}", _exc_detail(e))
            continue
        if got_pass != exp_pass:
            ev.add(f"column:verdict:{form}", {"expected_pass": exp_pass, "observed_pass": got_pass})
        elif _msorted(got_pairs) != _msorted(exp_pairs):
            ev.add(f"column:failure-cases:{form}", {"expected": exp_pairs, "observed": got_pairs})
        shown_check(form, log, "Check()")

    # ---- 2. bool-output form: verdict only
    log = []
    try:
        res = make("bool", log, ignore_na=ig)(series)
        got_pass = _passed(res)
        if got_pass != exp_pass:
            ev.add("column:verdict:bool-output", {"expected_pass": exp_pass, "observed_pass": got_pass})
        if res.failure_cases is not None:
            ev.add("column:bool-output-has-failure-cases", repr(res.failure_cases)[:200])
        shown_check("bool", log, "Check()")
    except Obs as e:
        ev.add("column:malformed-result:bool", str(e))
    except Exception as e:
        ev.add("column:check-raised:bool", _exc_detail(e))

    # ---- 3. through schema.validate (one form per case)
    entry, vform = case["entry"], case["vform"]
    obj = _mk_obj(entry, series)
    log = []
    kind, val, nwarn = _run_validate(_mk_schema(entry, make(vform, log, ignore_na=ig)), obj, lazy=False)
    if kind == "internal":
        ev.add("column:validate-internal-error", _exc_detail(val))
    elif (kind == "ok") != exp_pass:
        ev.add("column:validate-verdict", {"expected_pass": exp_pass, "observed": kind, "form": vform,
                                           "reason": None if kind == "ok" else _reason(val)})
    elif kind == "reject":
        if _reason(val) != "DATAFRAME_CHECK":
            ev.add("column:validate-wrong-reason", {"reason": _reason(val), "msg": str(val)[:300]})
        else:
            try:
                got = _pairs_from_error(val)
                if _msorted(got) != _msorted(exp_pairs):
                    ev.add("column:validate-failure-cases", {"expected": exp_pairs, "observed": got, "form": vform})
            except Obs as e:
                ev.add("column:malformed-error", str(e))
    if nwarn:
        ev.add("column:warning-without-raise_warning", {"n": nwarn})
    if kind != "internal":
        shown_check(vform, log, "validate:" + entry)

    # ---- 4. n_failure_cases: verdict unchanged, truncation only
    if n is not None:
        for form in ("native", "ew"):
            try:
                res = make(form, [], ignore_na=ig, n_failure_cases=n)(series)
                got_pass = _passed(res)
                got = _pairs_from_series(res.failure_cases)
            except Obs as e:
                ev.add(f"nfc:malformed-result:{form}", str(e))
                continue
            except Exception as e:
                ev.add("nfc:check-raised", {**_exc_detail(e), "form": form})
                continue
            if got_pass != exp_pass:
                ev.add("nfc:verdict-changed", {"expected_pass": exp_pass, "observed_pass": got_pass, "n": n})
                continue
            if not _sub_multiset(got, exp_pairs):
                ev.add("nfc:cases-not-subset", {"full": exp_pairs, "observed": got, "n": n})
            elif exp_pairs and not (min(1, n) <= len(got) <= n):
                ev.add("nfc:wrong-count", {"full": len(exp_pairs), "observed": len(got), "n": n})
            elif exp_pairs and len(exp_pairs) <= n and _msorted(got) != _msorted(exp_pairs):
                ev.add("nfc:truncated-below-n", {"full": exp_pairs, "observed": got, "n": n})
            elif exp_pairs and len({repr(p[1]) for p in exp_pairs}) == len(exp_pairs) and got != exp_pairs[:n]:
                ev.add("nfc:not-first-n", {"full": exp_pairs, "observed": got, "n": n})
        kind, val, nwarn = _run_validate(_mk_schema(entry, make(vform, [], ignore_na=ig, n_failure_cases=n)), obj,
                                         lazy=case["lazy"])
        if kind == "internal":
            ev.add("nfc:validate-internal-error", _exc_detail(val))
        elif (kind == "ok") != exp_pass:
            ev.add("nfc:validate-verdict-changed", {"expected_pass": exp_pass, "observed": kind, "n": n})
        elif kind == "reject" and not case["lazy"] and _reason(val) != "DATAFRAME_CHECK":
            ev.add("nfc:validate-wrong-reason", {"reason": _reason(val), "msg": str(val)[:300]})

    # ---- 5. raise_warning: never raises, warns exactly when the plain check fails
    for tag, kw, form in (("plain", {}, vform),
                          ("combined", {"n_failure_cases": n} if n is not None else {}, "ew")):
        log = []
        chk = make(form, log, ignore_na=ig, raise_warning=True, **kw)
        kind, val, nwarn = _run_validate(_mk_schema(entry, chk), obj, lazy=case["lazy"])
        if kind != "ok":
            ev.add(f"raise_warning:raised:{tag}", {"kind": kind, **_exc_detail(val), "expected_pass": exp_pass})
            continue
        if exp_pass and nwarn:
            ev.add(f"raise_warning:warned-on-pass:{tag}", {"n": nwarn})
        if not exp_pass and nwarn != 1:
            ev.add(f"raise_warning:no-warning-on-fail:{tag}" if nwarn == 0 else f"raise_warning:warning-count:{tag}",
                   {"n": nwarn})
        if type(val) is not type(obj) or len(val) != len(obj):
            ev.add("raise_warning:returned-other-object", {"type": type(val).__name__})
    # a failing raise_warning check must not mask another failing check of the same column
    if not exp_pass:
        c1 = make(vform, [], ignore_na=ig, raise_warning=True)
        c2 = make("native", [], ignore_na=ig)
        sch = _mk_schema(entry, c1)
        try:
            if entry == "series":
                sch = pa.SeriesSchema(None, checks=[c1, c2], nullable=True)
            else:
                sch = pa.DataFrameSchema({"a": pa.Column(None, checks=[c1, c2], nullable=True)})
        except Exception as e:
            ev.add("raise_warning:schema-construction", _exc_detail(e))
        kind, val, nwarn = _run_validate(sch, obj, lazy=case["lazy"])
        if kind != "reject":
            ev.add("raise_warning:masked-other-check", {"kind": kind})
        elif nwarn != 1:
            ev.add("raise_warning:warning-count:two-checks", {"n": nwarn})
    return ev


@known.finding("C19/n_failure_cases-duplicate-index")
def _k_nfc_dup(family, case, disc):
    if family == "column":
        trig = case.get("n") is not None and _index_has_dups(case)
    elif family == "frame":
        trig = case.get("n") is not None and _index_has_dups(case)
    elif family == "alias":
        trig = case.get("kw", {}).get("n_failure_cases") is not None and _index_has_dups(case)
    else:
        return False
    if not trig:
        return False
    d = disc.detail if isinstance(disc.detail, dict) else {}
    blob = (d.get("msg") or "") + (d.get("a", {}).get("msg", "") if isinstance(d.get("a"), dict) else "")
    if disc.kind in ("nfc:check-raised", "frame:nfc:check-raised", "alias:check-raised"):
        return "cannot reindex on an axis with duplicate labels" in blob
    if disc.kind in ("nfc:validate-wrong-reason", "raise_warning:raised:combined", "frame:nfc:validate-wrong-reason",
                     "nfc:validate-verdict-changed", "alias:validate-differs"):
        return "duplicate labels" in blob
    return False


# =================================================================== frame family


@st.composite
def strat_frame(draw):
    n = draw(st.integers(0, 5))
    nullmode = draw(st.sampled_from(["none", "any", "any", "any", "allnull-rows"]))
    cell = st.one_of(st.integers(-3, 3), st.sampled_from([0.5, 1.5]))
    a = draw(st.lists(cell, min_size=n, max_size=n))
    b = draw(st.lists(cell, min_size=n, max_size=n))
    if nullmode == "any":
        a = [None if draw(st.integers(0, 3)) == 0 else x for x in a]
        b = [None if draw(st.integers(0, 3)) == 0 else x for x in b]
    elif nullmode == "allnull-rows":
        mask = draw(st.lists(st.booleans(), min_size=n, max_size=n))
        a = [None if m else x for m, x in zip(mask, a)]
        b = [None if m else x for m, x in zip(mask, b)]
    pred = draw(st.one_of(
        st.builds(lambda c: {"k": "col_gt", "c": c}, st.integers(-2, 2)),
        st.just({"k": "row_lt"}),
        st.builds(lambda c: {"k": "cell_gt", "c": c}, st.integers(-2, 2)),
        st.builds(lambda c: {"k": "all_gt", "c": c}, st.integers(-3, 1)),
        st.builds(lambda c: {"k": "row_const", "c": c}, st.booleans()),
    ))
    form = "vec"
    if pred["k"] in ("col_gt", "row_lt", "row_const"):
        form = draw(st.sampled_from(["vec", "ew"]))
    return {"a": a, "b": b, "index": draw(_index_strategy(n)), "pred": pred, "form": form,
            "ignore_na": draw(st.sampled_from([True, False, True])), "n": draw(st.sampled_from([None, None, 1, 2])),
            "lazy": draw(st.booleans())}


def _frame_fn(pred, form, log):
    import pandas as pd

    k = pred["k"]
    if form == "ew":
        rp = M.frame_row_pred(pred)

        def f(row):
            log.append(("row", bool(row.isna().any())))
            return rp({"a": row["a"], "b": row["b"]})
        return f

    def g(df):
        log.append(("frame", int(df.isna().any(axis=1).sum()), len(df)))
        if k == "col_gt":
            return df["a"] > pred["c"]
        if k == "row_lt":
            return df["a"] < df["b"]
        if k == "cell_gt":
            return df > pred["c"]
        if k == "all_gt":
            return bool((df["a"] > pred["c"]).all())
        return pd.Series(bool(pred["c"]), index=df.index, dtype=bool)
    return g


def _frame_has_null(case):
    return any(x is None for x in case["a"]) or any(x is None for x in case["b"])


def eval_frame(case):
    import pandas as pd
    import pandera as pa

    ev = Eval()
    pred, form, ig, n = case["pred"], case["form"], case["ignore_na"], case["n"]
    k = pred["k"]
    A, B = M.py_cells("float", case["a"]), M.py_cells("float", case["b"])
    nrows = len(A)
    labels = case["index"] if case["index"] is not None else list(range(nrows))
    nullrow = [M.is_null(x) or M.is_null(y) for x, y in zip(A, B)]
    allnull = [M.is_null(x) and M.is_null(y) for x, y in zip(A, B)]
    R = [i for i in range(nrows) if not (ig and nullrow[i])]
    outkind = "bool" if k == "all_gt" else "frame" if k == "cell_gt" else "series"
    if k == "cell_gt":
        c = pred["c"]
        fail_cells = [(i, col) for i in R for col, v in (("a", A[i]), ("b", B[i])) if not (v > c)]
        fail_rows = sorted({i for i, _ in fail_cells})
    else:
        rp = M.frame_row_pred(pred)
        fail_rows = [i for i in R if not rp({"a": A[i], "b": B[i]})]
    exp_pass = not fail_rows
    partial = any(nr and not an for nr, an in zip(nullrow, allnull))
    ev.nontrivial = any(nullrow)
    ev.labels += [f"frame:pred={k}", f"frame:form={form}", f"frame:ignore_na={ig}",
                  "frame:has-null" if any(nullrow) else "frame:no-null",
                  "frame:partial-null-row" if partial else "frame:no-partial-null-row",
                  "frame:ref=pass" if exp_pass else "frame:ref=fail",
                  "frame:idx=" + ("default" if case["index"] is None else "dup" if _index_has_dups(case) else "unique")]
    if any(nullrow) and ig:
        ev.labels.append("frame:known-bad-feature(null+ignore_na)")
    else:
        ev.labels.append("frame:behind-known(no null or ignore_na=False)")

    df = pd.DataFrame({"a": M.build_series("float", case["a"], case["index"]),
                       "b": M.build_series("float", case["b"], case["index"], name="b")})

    def rowt(i):
        return [M.norm(labels[i]), M.norm(A[i]), M.norm(B[i])]

    exp_rows = [rowt(i) for i in fail_rows]

    def make(log, **kw):
        return pa.Check(_frame_fn(pred, form, log), element_wise=(form == "ew"), **kw)

    def classify(got_pass, got_rows, prefix):
        """compare verdict + failing rows with the reference; the documented-but-unimplemented
        'rows with any null are ignored' shows up as extra failing rows that contain a null."""
        if got_rows is not None:
            extra = [r for r in got_rows if not _sub_multiset([r], exp_rows)]
            missing_ok = _sub_multiset(exp_rows, got_rows)
            if _msorted(got_rows) != _msorted(exp_rows):
                if ig and missing_ok and extra and all(r[1:] == ["<null>", "<null>"] for r in extra):
                    # even the implemented part (a row whose cells are all null is excused) is broken
                    ev.add(f"{prefix}all-null-row-failed", {"expected_rows": exp_rows, "observed_rows": got_rows})
                elif ig and missing_ok and extra and all("<null>" in r[1:] for r in extra):
                    ev.add(f"{prefix}null-row-failed", {"expected_rows": exp_rows, "observed_rows": got_rows})
                else:
                    ev.add(f"{prefix}failure-rows", {"expected_rows": exp_rows, "observed_rows": got_rows})
                return
        if got_pass != exp_pass:
            if ig and any(nullrow) and exp_pass and not got_pass and got_rows is None:
                ev.add(f"{prefix}null-row-failed", {"expected_pass": exp_pass, "observed_pass": got_pass})
            else:
                ev.add(f"{prefix}verdict", {"expected_pass": exp_pass, "observed_pass": got_pass})

    def rows_of(res):
        fc = res.failure_cases
        if outkind == "bool" or (form == "ew" and nrows == 0):
            return None
        if outkind == "series":
            if fc is None:
                return []
            if not isinstance(fc, pd.DataFrame) or list(fc.columns) != ["a", "b"]:
                raise Obs(f"failure_cases of a row-wise frame check: {type(fc).__name__}")
            return [[M.norm(i), M.norm(x), M.norm(y)] for i, x, y in zip(fc.index.tolist(), fc["a"].tolist(),
                                                                     fc["b"].tolist())]
        return None

    def shown(log, where):
        if form == "ew" and nrows == 0:
            return  # DataFrame.apply probes the function with a dummy empty row on an empty frame
        if not log:
            if not (form == "ew" and not [i for i in range(nrows) if not (ig and nullrow[i])]) and not (form == "ew" and nrows == 0):
                if not (form == "ew" and ig):  # rows may legitimately all be dropped
                    ev.add("frame:fn-not-called", {"where": where})
            return
        if log[0][0] == "row":
            seen_null, seen = sum(1 for e in log if e[1]), len(log)
        else:
            seen_null, seen = log[-1][1], log[-1][2]
        if ig and seen_null:
            ev.add("frame:fn-saw-null", {"where": where, "null_rows_seen": seen_null})
        if not ig and (seen_null != sum(nullrow) or seen != nrows):
            ev.add("frame:nulls-not-passed-through", {"where": where, "null_rows_seen": seen_null, "rows_seen": seen})

    # 1. Check(...)(df)
    log = []
    try:
        res = make(log, ignore_na=ig)(df)
        got_pass = _passed(res)
        got_rows = rows_of(res)
        classify(got_pass, got_rows, "frame:")
        if outkind == "frame" and not _index_has_dups(case):
            fc = res.failure_cases
            exp_cells = sorted([M.norm(labels[i]), col, M.norm(A[i] if col == "a" else B[i])] for i, col in fail_cells
                               if not M.is_null(A[i] if col == "a" else B[i]))
            if not isinstance(fc, pd.DataFrame) or "failure_case" not in fc.columns:
                raise Obs("failure_cases of a cell-wise frame check has no failure_case column")
            got_cells = []
            for lab, d in zip(fc.index.tolist(), fc["failure_case"].tolist()):
                if not isinstance(d, dict):
                    raise Obs("failure_case entry is not a dict")
                for col, v in d.items():
                    got_cells.append([M.norm(lab), col, M.norm(v)])
            got_cells = _msorted(got_cells)
            if got_cells != _msorted(exp_cells):
                extra = [c_ for c_ in got_cells if c_ not in exp_cells]
                null_labels = {M.norm(labels[i]) for i in range(nrows) if nullrow[i]}
                if ig and all(c_ in got_cells for c_ in exp_cells) and all(c_[0] in null_labels for c_ in extra):
                    ev.add("frame:null-row-failed", {"expected_cells": exp_cells, "observed_cells": got_cells})
                else:
                    ev.add("frame:failure-cells", {"expected_cells": exp_cells, "observed_cells": got_cells})
        shown(log, "Check()")
    except Obs as e:
        ev.add("frame:malformed-result", str(e))
    except Exception as e:
        ev.add("frame:check-raised", _exc_detail(e))

    # 2. through DataFrameSchema(checks=...)
    def schema(chk):
        return pa.DataFrameSchema(checks=[chk])

    kind, val, nwarn = _run_validate(schema(make([], ignore_na=ig)), df, lazy=case["lazy"])
    if kind == "internal":
        ev.add("frame:validate-internal-error", _exc_detail(val))
    elif (kind == "ok") != exp_pass:
        if ig and any(nullrow) and exp_pass:
            ev.add("frame:null-row-failed", {"where": "validate", "expected_pass": exp_pass, "observed": kind})
        else:
            ev.add("frame:validate-verdict", {"expected_pass": exp_pass, "observed": kind})
    elif kind == "reject" and not case["lazy"] and _reason(val) != "DATAFRAME_CHECK":
        ev.add("frame:validate-wrong-reason", {"reason": _reason(val), "msg": str(val)[:300]})
    if nwarn:
        ev.add("frame:warning-without-raise_warning", {"n": nwarn})

    # pandera's own verdict without options is the base line for the option relations below, so that the
    # relations stay scored on frames where the ignore_na defect moves the base verdict
    base_pass = (kind == "ok") if kind in ("ok", "reject") else None

    # 3. raise_warning
    kind, val, nwarn = _run_validate(schema(make([], ignore_na=ig, raise_warning=True)), df, lazy=case["lazy"])
    if kind != "ok":
        ev.add("frame:raise_warning:raised", {"kind": kind, **_exc_detail(val)})
    elif base_pass is not None:
        if base_pass and nwarn:
            ev.add("frame:raise_warning:warned-on-pass", {"n": nwarn})
        if not base_pass and nwarn != 1:
            ev.add("frame:raise_warning:no-warning-on-fail" if nwarn == 0 else "frame:raise_warning:warning-count",
                   {"n": nwarn})

    # 4. n_failure_cases: verdict unchanged, cases truncated
    if n is not None:
        try:
            full = make([], ignore_na=ig)(df)
            res = make([], ignore_na=ig, n_failure_cases=n)(df)
            if _passed(res) != _passed(full):
                ev.add("frame:nfc:verdict-changed", {"without": _passed(full), "with": _passed(res), "n": n})
            elif outkind == "series" and not (form == "ew" and nrows == 0):
                r_full, r_n = rows_of(full), rows_of(res)
                if not _sub_multiset(r_n, r_full):
                    ev.add("frame:nfc:cases-not-subset", {"full": r_full, "observed": r_n})
                elif r_full and not (1 <= len(r_n) <= n):
                    ev.add("frame:nfc:wrong-count", {"full": len(r_full), "observed": len(r_n), "n": n})
                elif r_full and len(r_full) <= n and len(r_n) != len(r_full):
                    ev.add("frame:nfc:truncated-below-n", {"full": r_full, "observed": r_n, "n": n})
                elif r_full and len({repr(r[1:]) for r in r_full}) == len(r_full) and r_n != r_full[:n]:
                    ev.add("frame:nfc:not-first-n", {"full": r_full, "observed": r_n, "n": n})
            elif outkind == "frame":
                f_full, f_n = full.failure_cases, res.failure_cases
                if not isinstance(f_n, pd.DataFrame) or not isinstance(f_full, pd.DataFrame):
                    raise Obs("cell-wise failure_cases is not a DataFrame")
                if len(f_full) and not (1 <= len(f_n) <= n):
                    ev.add("frame:nfc:wrong-count", {"full": len(f_full), "observed": len(f_n), "n": n})
                if not set(map(repr, f_n.index.tolist())) <= set(map(repr, f_full.index.tolist())):
                    ev.add("frame:nfc:cases-not-subset", {"full": repr(f_full.index.tolist()),
                                                          "observed": repr(f_n.index.tolist())})
        except Obs as e:
            ev.add("frame:nfc:malformed-result", str(e))
        except Exception as e:
            ev.add("frame:nfc:check-raised", _exc_detail(e))
        kind, val, nwarn = _run_validate(schema(make([], ignore_na=ig, n_failure_cases=n)), df, lazy=False)
        if kind == "internal":
            ev.add("frame:nfc:validate-internal-error", _exc_detail(val))
        elif base_pass is not None and (kind == "ok") != base_pass:
            ev.add("frame:nfc:validate-verdict-changed", {"without_n": base_pass, "observed": kind, "n": n})
        elif kind == "reject" and _reason(val) != "DATAFRAME_CHECK":
            ev.add("frame:nfc:validate-wrong-reason", {"reason": _reason(val), "msg": str(val)[:300]})
    return ev


@known.finding("C19/frame-check-duplicate-index-reshape")
def _k_frame_dup_reshape(family, case, disc):
    if family != "frame" or not _index_has_dups(case) or case["pred"]["k"] in ("cell_gt", "all_gt"):
        return False
    d = disc.detail if isinstance(disc.detail, dict) else {}
    if disc.kind in ("frame:validate-wrong-reason", "frame:raise_warning:raised", "frame:nfc:validate-wrong-reason"):
        return "duplicate values are not supported in stack" in (d.get("msg") or "")
    return False


@known.finding("C19/frame-ignore-na-rows-not-dropped")
def _k_frame_ignore_na(family, case, disc):
    if family != "frame" or not case.get("ignore_na") or not _frame_has_null(case):
        return False
    return disc.kind in ("frame:fn-saw-null", "frame:null-row-failed")


# =================================================================== groupby family

G_VALUES = ["a", "b", "ab"]
CATS = ["a", "b", "ab", "zz"]  # "zz" is never observed -> empty group


@st.composite
def strat_groupby(draw):
    n = draw(st.integers(0, 6))
    v = draw(st.lists(st.one_of(st.integers(-3, 3), st.none()), min_size=n, max_size=n))
    if draw(st.booleans()):
        v = [0 if x is None else x for x in v]  # share of cases behind the known ignore_na defect
    g = draw(st.lists(st.sampled_from(G_VALUES), min_size=n, max_size=n))
    h = draw(st.lists(st.integers(0, 2), min_size=n, max_size=n))
    kb = draw(st.lists(st.booleans(), min_size=n, max_size=n))
    cols = draw(st.sampled_from([["g"], ["h"], ["k"], ["c"], ["g", "h"], ["g", "k"], ["h", "k"], ["z"]]))
    if cols == ["z"]:
        how = "call_derived"
    else:
        how = draw(st.sampled_from(["str", "list", "call", "call_list"] if len(cols) == 1 else ["list", "call_list"]))
    # groups: indices into the sorted observed keys (resolved in evaluate), or None
    # (an empty list of groups restricts the check to no group at all: not the same as None)
    groups = draw(st.one_of(st.none(), st.none(), st.lists(st.integers(0, 5), min_size=1, max_size=3, unique=True),
                            st.lists(st.integers(0, 5), min_size=0, max_size=1, unique=True)))
    return {"v": v, "g": g, "h": h, "k": kb, "index": draw(_index_strategy(n)), "cols": cols, "how": how,
            "groups": groups, "unobserved_group": draw(st.booleans()) if cols == ["c"] else False,
            "level": draw(st.sampled_from(["column", "column", "frame"])),
            "out": draw(st.sampled_from(["bool", "series"])), "a": draw(st.integers(-3, 1)),
            "ignore_na": draw(st.sampled_from([True, False, True])), "parser": draw(st.sampled_from([False, False, False, True])),
            "raise_warning": draw(st.booleans())}


def _gb_keytypes(case):
    """python types of the key scalars the grouping yields"""
    t = {"g": "str", "c": "str", "h": "int", "k": "bool", "z": "bool"}
    return [t[c] for c in case["cols"]]


def eval_groupby(case):
    import pandas as pd
    import pandera as pa

    ev = Eval()
    n = len(case["v"])
    V = M.py_cells("float", case["v"])
    ig, cols, how, level = case["ignore_na"], case["cols"], case["how"], case["level"]
    keycols = {"g": case["g"], "c": case["g"], "h": case["h"], "k": case["k"], "z": [x > 0 for x in case["h"]]}
    rows_keys = [tuple(keycols[c][i] for c in cols) for i in range(n)]
    multi = len(cols) > 1
    # reference grouping (all rows; key columns have no nulls)
    ref_all = M.ref_group(rows_keys, V, multi)
    keys_sorted = sorted({(tuple(k) if multi else k[0]) for k in rows_keys}, key=repr)
    groups = None
    if case["groups"] is not None and keys_sorted:
        groups = []
        for gi in case["groups"]:
            kx = keys_sorted[gi % len(keys_sorted)]
            if kx not in groups:
                groups.append(kx)
        if case["unobserved_group"]:
            groups.append("zz")
    exp = {k: list(vals) for k, vals in ref_all.items()}
    if groups is not None:
        allowed = {M.tkey(g_) for g_ in groups}
        exp = {k: vals for k, vals in exp.items() if k in allowed}
    exp_nonull = {k: [M.norm(x) for x in vals if not M.is_null(x)] for k, vals in exp.items()}
    exp_full = {k: [M.norm(x) for x in vals] for k, vals in exp.items()}
    has_null = any(M.is_null(x) for x in V)
    ngroups = len(ref_all)
    ev.nontrivial = has_null or ngroups >= 2
    ev.labels += [f"gb:how={how}", "gb:cols=" + "+".join(cols), f"gb:level={level}", f"gb:ignore_na={ig}",
                  "gb:groups=None" if groups is None else "gb:groups=subset", "gb:has-null" if has_null else "gb:no-null",
                  f"gb:ngroups={min(ngroups, 3)}{'+' if ngroups >= 3 else ''}", f"gb:out={case['out']}",
                  "gb:parser" if case["parser"] else "gb:no-parser"]
    if cols == ["c"]:
        ev.labels.append("gb:empty-group(unobserved category)")
    scalar_nonstr_callable = how in ("call", "call_derived") and _gb_keytypes(case)[0] in ("int", "bool")
    ev.labels.append("gb:known-bad-feature(callable scalar non-str key)" if scalar_nonstr_callable
                     else "gb:behind-known")

    # ---- build data, groupby argument, check
    data = {"v": M.build_series("float", case["v"], case["index"], name="v"),
            "g": M.build_series("str", case["g"], case["index"], name="g"),
            "h": M.build_series("int", case["h"], case["index"], name="h"),
            "k": M.build_series("bool", case["k"], case["index"], name="k")}
    df = pd.DataFrame(data)
    if n == 0 and case["index"] is not None:
        df.index = pd.Index([], dtype=object)
    df["c"] = pd.Categorical(case["g"], categories=CATS)
    if how == "str":
        gb = cols[0]
    elif how == "list":
        gb = list(cols)
    elif how == "call":
        gb = lambda d, c_=cols[0]: d.groupby(c_)  # noqa: E731
    elif how == "call_list":
        gb = lambda d, c_=list(cols): d.groupby(c_)  # noqa: E731
    else:
        gb = lambda d: d.assign(z=d["h"] > 0).groupby("z")  # noqa: E731

    a = case["a"]
    log = []

    def fn(d):
        entry = {"type": type(d).__name__, "groups": None}
        log.append(entry)
        if not isinstance(d, dict):
            return False
        seen = {}
        outs = []
        for key, grp in d.items():
            ser = grp["v"] if isinstance(grp, pd.DataFrame) else grp
            seen[M.tkey(key)] = [M.norm(x) for x in ser.tolist()]
            outs.append(bool((ser > a).all()))
        entry["groups"] = seen
        entry["outs"] = outs
        if case["out"] == "bool":
            return all(outs)
        return pd.Series(outs, dtype=bool)

    kw = {"groupby": gb, "ignore_na": ig}
    if groups is not None:
        kw["groups"] = list(groups)
    if case["raise_warning"]:
        kw["raise_warning"] = True
    try:
        chk = pa.Check(fn, **kw)
        colkw = {"nullable": True}
        if case["parser"]:
            colkw["parsers"] = pa.Parser(lambda s: s)
        plain = {c_: pa.Column(None) for c_ in ("g", "h", "k", "c")}
        if level == "column":
            schema = pa.DataFrameSchema({"v": pa.Column(None, checks=[chk], **colkw), **plain})
        else:
            schema = pa.DataFrameSchema({"v": pa.Column(None, **colkw), **plain}, checks=[chk])
    except Exception as e:
        ev.add("gb:schema-construction-raised", _exc_detail(e))
        return ev

    kind, val, nwarn = _run_validate(schema, df, lazy=False)
    if kind == "internal":
        ev.add("gb:validate-internal-error", _exc_detail(val))
        return ev
    if kind == "reject" and _reason(val) != "DATAFRAME_CHECK":
        ev.add("gb:check-error", {"reason": _reason(val), "msg": str(val)[:300]})
        return ev
    if not log:
        ev.add("gb:fn-not-called", {"kind": kind})
        return ev
    seen = log[-1]
    if seen["groups"] is None:
        ev.add("gb:fn-input-not-a-dict", {"type": seen["type"]})
        return ev
    got = seen["groups"]
    # unobserved categories may show up as empty groups; all-null groups keep their key
    unobs_ok = {M.tkey(c_) for c_ in CATS if c_ not in case["g"]} if cols == ["c"] else set()
    got_cmp = {k: v for k, v in got.items() if not (k in unobs_ok and v == [])}
    got_nonull = {k: [x for x in v if x != "<null>"] for k, v in got_cmp.items()}
    saw_null = any("<null>" in v for v in got_cmp.values())
    if ig:
        # documented: null elements are dropped before the function sees the data
        exp_cmp = {k: v for k, v in exp_nonull.items()}
        # a group whose values are all null: key may or may not survive the drop -> ignore empty groups on both sides
        if {k: v for k, v in got_nonull.items() if v} != {k: v for k, v in exp_cmp.items() if v}:
            ev.add("gb:groups-differ", {"expected": exp_cmp, "observed": got_cmp, "groups": repr(groups)})
        elif saw_null:
            ev.add("gb:fn-saw-null", {"observed": got_cmp})
    else:
        if got_cmp != exp_full:
            ev.add("gb:groups-differ", {"expected": exp_full, "observed": got_cmp, "groups": repr(groups)})
    # verdict must be the conjunction of what the function returned
    fn_pass = all(seen["outs"])
    if case["raise_warning"]:
        if kind != "ok":
            ev.add("gb:raise_warning:raised", {"kind": kind, **_exc_detail(val)})
        elif fn_pass and nwarn:
            ev.add("gb:raise_warning:warned-on-pass", {"n": nwarn})
        elif not fn_pass and nwarn != 1:
            ev.add("gb:raise_warning:no-warning-on-fail", {"n": nwarn})
    else:
        if (kind == "ok") != fn_pass:
            ev.add("gb:verdict-differs-from-fn-output", {"fn_outputs": seen["outs"], "observed": kind})
        if nwarn:
            ev.add("gb:warning-without-raise_warning", {"n": nwarn})
    return ev


@known.finding("C19/groupby-callable-scalar-key-len")
def _k_gb_len(family, case, disc):
    if family != "groupby" or case.get("how") not in ("call", "call_derived"):
        return False
    if _gb_keytypes(case)[0] not in ("int", "bool"):
        return False
    d = disc.detail if isinstance(disc.detail, dict) else {}
    return disc.kind == "gb:check-error" and "has no len()" in (d.get("msg") or "")


@known.finding("C19/groupby-ignore-na-nulls-not-dropped")
def _k_gb_ignore_na(family, case, disc):
    return (family == "groupby" and case.get("ignore_na") and any(x is None for x in case.get("v", []))
            and disc.kind == "gb:fn-saw-null")


@known.finding("C19/column-parser-groupby-bare-series")
def _k_gb_parser(family, case, disc):
    if family != "groupby" or not case.get("parser") or case.get("level") != "column":
        return False
    d = disc.detail if isinstance(disc.detail, dict) else {}
    if disc.kind == "gb:check-error":  # grouping column / DataFrame API missing on the bare Series
        return any(s in (d.get("msg") or "") for s in ("KeyError", "AttributeError(\"'Series' object"))
    # a list groupby applied to the bare Series is taken as an array of labels: wrong groups, silently
    return disc.kind == "gb:groups-differ"


# =================================================================== alias family


@st.composite
def strat_alias(draw):
    alias = draw(st.sampled_from(sorted(M.ALIASES)))
    dtype = draw(st.sampled_from(["float", "float", "int", "str"] if alias in ("eq", "ne") else ["float", "float", "int"]))
    n = draw(st.integers(0, 6))
    if dtype == "str":
        args = [draw(st.sampled_from(["", "a", "ab", "b"]))]
    elif alias == "between":
        lo = draw(st.integers(-3, 2))
        hi = draw(st.integers(lo + 1, 4))
        args = [lo, hi] + draw(st.sampled_from([[], [True], [False], [True, False], [False, True], [False, False]]))
    else:
        args = [draw(st.integers(-3, 3))]
    kw = {}
    if draw(st.booleans()):
        kw["ignore_na"] = draw(st.booleans())
    if draw(st.booleans()):
        kw["n_failure_cases"] = draw(st.sampled_from([1, 2]))
    if draw(st.booleans()):
        kw["raise_warning"] = draw(st.booleans())
    if draw(st.integers(0, 3)) == 0:
        kw["error"] = "custom message"
    if draw(st.integers(0, 3)) == 0:
        kw["title"] = "t"
    return {"alias": alias, "args": args, "kw": kw, "dtype": dtype, "cells": draw(_cells_strategy(dtype, n)),
            "index": draw(_index_strategy(n)), "entry": draw(st.sampled_from(["column", "series"])),
            "lazy": draw(st.booleans())}


_CHECK_ATTRS = ["name", "error", "statistics", "statistics_args", "ignore_na", "raise_warning", "n_failure_cases",
                "element_wise", "groupby", "groups", "title", "description", "_check_kwargs"]


def eval_alias(case):
    import pandera as pa

    ev = Eval()
    alias, args, kw, dtype = case["alias"], case["args"], dict(case["kw"]), case["dtype"]
    canon = M.ALIASES[alias]
    py = M.py_cells(dtype, case["cells"])
    nulls = [i for i, x in enumerate(py) if M.is_null(x)]
    ig = kw.get("ignore_na", True)
    on_bound = any((not M.is_null(x)) and x in args[:2] for x in py)
    ev.nontrivial = bool(nulls) or on_bound
    ev.labels += [f"alias={alias}", f"alias:dtype={dtype}", *(["alias:kw=" + k_ for k_ in sorted(kw)] or ["alias:kw=none"]),
                  "alias:has-null" if nulls else "alias:no-null", "alias:on-bound" if on_bound else "alias:off-bound"]
    try:
        A = getattr(pa.Check, alias)(*args, **kw)
        C = getattr(pa.Check, canon)(*args, **kw)
    except Exception as e:
        ev.add(f"alias:constructor-raised:{alias}", _exc_detail(e))
        return ev
    for attr in _CHECK_ATTRS:
        va, vc = getattr(A, attr, "<absent>"), getattr(C, attr, "<absent>")
        if repr(va) != repr(vc):
            ev.add(f"alias:attr-differs:{alias}", {"attr": attr, "alias": repr(va)[:200], "canonical": repr(vc)[:200]})
    if getattr(A, "_check_fn", None) is not getattr(C, "_check_fn", None):
        ev.add(f"alias:check-fn-differs:{alias}", None)
    try:
        if not (A == C):
            ev.add(f"alias:not-equal:{alias}", None)
    except Exception as e:
        ev.add(f"alias:eq-raised:{alias}", _exc_detail(e))
    # option kwargs must arrive in the check
    for k_, v_ in kw.items():
        if getattr(A, k_, "<absent>") != v_:
            ev.add(f"alias:kwarg-dropped:{alias}", {"kwarg": k_, "expected": v_, "observed": repr(getattr(A, k_, None))})

    series = M.build_series(dtype, case["cells"], case["index"])

    def run(chk):
        try:
            res = chk(series)
            return {"pass": _passed(res), "pairs": _pairs_from_series(res.failure_cases)}
        except Obs as e:
            return {"malformed": str(e)}
        except Exception as e:
            return {"raised": type(e).__name__, "msg": str(e)[:300]}

    ra, rc = run(A), run(C)
    if ra != rc:
        ev.add(f"alias:result-differs:{alias}", {"a": ra, "c": rc})
    elif "raised" in ra:
        ev.add("alias:check-raised", {"a": ra, "msg": ra.get("msg")})
    elif "malformed" in ra:
        ev.add("alias:malformed-result", ra)
    else:
        # scalar semantics of the canonical built-in (nulls excused iff ignore_na)
        f = M.builtin_scalar(canon, args)
        labels = case["index"] if case["index"] is not None else list(range(len(py)))
        fail = [i for i, x in enumerate(py) if not (ig and M.is_null(x)) and not f(x)]
        if ra["pass"] != (not fail):
            ev.add(f"alias:verdict-vs-scalar-semantics:{canon}", {"expected_pass": not fail, "observed": ra})
        elif kw.get("n_failure_cases") is None:
            exp_pairs = [[M.norm(labels[i]), M.norm(py[i])] for i in fail]
            if _msorted(exp_pairs) != _msorted(ra["pairs"]):
                ev.add(f"alias:failure-cases-vs-scalar-semantics:{canon}", {"expected": exp_pairs, "observed": ra["pairs"]})
    # through validate
    obj = _mk_obj(case["entry"], series)
    outs = []
    for chk in (A, C):
        kind, val, nwarn = _run_validate(_mk_schema(case["entry"], chk), obj, lazy=case["lazy"])
        o = {"kind": kind, "nwarn": nwarn}
        if kind != "ok":
            o["msg"] = str(val)[:400].replace(alias, "<name>").replace(canon, "<name>")
        outs.append(o)
    if outs[0] != outs[1]:
        ev.add(f"alias:validate-differs:{alias}", {"a": outs[0], "c": outs[1], "msg": outs[0].get("msg")})
    return ev


# =================================================================== polars family


@st.composite
def strat_polars(draw):
    dtype = draw(st.sampled_from(["int", "int", "float", "str"]))
    n = draw(st.integers(0, 6))
    if dtype == "str":
        cell = st.one_of(st.sampled_from(["", "a", "ab", "b"]), st.none())
        pred = draw(st.one_of(st.builds(lambda A: {"k": "isin", "A": A}, st.lists(st.sampled_from(["", "a", "ab", "b"]), max_size=3, unique=True)),
                              st.builds(lambda a: {"k": "eq", "a": a}, st.sampled_from(["", "a", "ab"]))))
    else:
        cell = st.one_of(st.integers(-3, 3), st.none()) if dtype == "int" else st.one_of(
            st.integers(-3, 3), st.sampled_from([0.5, 1.5]), st.none())
        pred = draw(st.one_of(st.builds(lambda a: {"k": "gt", "a": a}, st.integers(-3, 3)),
                              st.builds(lambda A: {"k": "isin", "A": A}, st.lists(st.integers(-3, 3), max_size=3, unique=True)),
                              st.builds(lambda a: {"k": "eq", "a": a}, st.integers(-3, 3))))
    cells = draw(st.lists(cell, min_size=n, max_size=n))
    if draw(st.integers(0, 2)) == 0:
        fill = "" if dtype == "str" else 0
        cells = [fill if c is None else c for c in cells]
    return {"dtype": dtype, "cells": cells, "pred": pred, "ignore_na": draw(st.sampled_from([True, False, True])),
            "frame": draw(st.sampled_from(["df", "lf"])), "lazy": draw(st.booleans())}


def eval_polars(case):
    import polars as pl
    import pandera as pa
    import pandera.polars as pap
    from pandera.config import ValidationDepth, config_context

    ev = Eval()
    dtype, cells, pred, ig = case["dtype"], case["cells"], case["pred"], case["ignore_na"]
    pldt = {"int": pl.Int64, "float": pl.Float64, "str": pl.String}[dtype]
    vals = [float(c) if (dtype == "float" and c is not None) else c for c in cells]
    nulls = [i for i, x in enumerate(vals) if x is None]
    sc = M.scalar_fn(pred)
    total = lambda x: False if x is None else sc(x)  # noqa: E731
    fail = [i for i, x in enumerate(vals) if not (ig and x is None) and not total(x)]
    exp_vals = [M.norm(vals[i]) for i in fail]
    exp_pass = not fail
    ev.nontrivial = bool(nulls)
    ev.labels += [f"pl:dtype={dtype}", f"pl:pred={pred['k']}", f"pl:ignore_na={ig}", "pl:has-null" if nulls else "pl:no-null",
                  "pl:ref=pass" if exp_pass else "pl:ref=fail", f"pl:{case['frame']}"]
    ev.labels.append("pl:known-bad-feature(null)" if nulls else "pl:behind-known")
    frame = pl.DataFrame({"a": pl.Series("a", vals, dtype=pldt)})
    obj = frame.lazy() if case["frame"] == "lf" else frame

    def expr(k):
        c = pl.col(k)
        if pred["k"] == "gt":
            return c > pred["a"]
        if pred["k"] == "eq":
            return c == pred["a"]
        return c.is_in(list(pred["A"]))

    def make(form, log, **kw):
        if form == "ew":
            def f(x):
                log.append(x is None)
                return total(x)
            return pa.Check(f, element_wise=True, **kw)
        if form == "natural":      # null-propagating expression
            return pa.Check(lambda d: d.lazyframe.select(expr(d.key)), **kw)
        if form == "total":        # same predicate, False on null
            return pa.Check(lambda d: d.lazyframe.select(expr(d.key).fill_null(False)), **kw)
        if form == "builtin":
            if pred["k"] == "gt":
                return pa.Check.gt(pred["a"], **kw)
            if pred["k"] == "eq":
                return pa.Check.eq(pred["a"], **kw)
            return pa.Check.isin(list(pred["A"]), **kw)
        raise HarnessError(form)

    def validate(chk):
        import pandera.errors as pe

        schema = pap.DataFrameSchema({"a": pap.Column(pldt, checks=[chk], nullable=True)})
        with warnings.catch_warnings(record=True) as w:
            warnings.simplefilter("always")
            try:
                with config_context(validation_depth=ValidationDepth.SCHEMA_AND_DATA):
                    v = schema.validate(obj, lazy=case["lazy"])
                kind, val = "ok", v
            except (pe.SchemaError, pe.SchemaErrors) as e:
                kind, val = "reject", e
            except Exception as e:
                kind, val = "internal", e
        return kind, val, sum(1 for x in w if issubclass(x.category, pe.SchemaWarning))

    def fail_values(exc):
        fc = getattr(exc, "failure_cases", None)
        if isinstance(fc, pl.DataFrame):
            col = "failure_case" if "failure_case" in fc.columns else fc.columns[0]
            out = fc[col].to_list()
            if case["lazy"]:  # lazy report renders failure cases as strings
                return None
            return [M.norm(x) for x in out]
        return None

    for form in ("ew", "natural", "total", "builtin"):
        if form == "builtin" and pred["k"] == "isin" and not pred["A"]:
            continue
        log = []
        kind, val, nwarn = validate(make(form, log, ignore_na=ig))
        if kind == "internal":
            ev.add(f"pl:internal-error:{form}", _exc_detail(val))
            continue
        got_vals = fail_values(val) if kind == "reject" else []
        got_pass = kind == "ok"
        if kind == "reject" and not case["lazy"] and _reason(val) != "DATAFRAME_CHECK":
            ev.add(f"pl:wrong-reason:{form}", {"reason": _reason(val), "msg": str(val)[:300]})
            continue
        cmp_vals = got_vals is not None
        if got_pass == exp_pass and (not cmp_vals or _msorted(got_vals) == _msorted(exp_vals)):
            pass
        else:
            miss = None
            if cmp_vals:
                miss_ok = _sub_multiset(got_vals, exp_vals)
                extra_ok = _sub_multiset(exp_vals, got_vals)
                if miss_ok:
                    rest = [repr(x) for x in exp_vals]
                    for x in got_vals:
                        rest.remove(repr(x))
                    miss = "only-nulls-missing" if rest and all(r == repr("<null>") for r in rest) else None
                elif extra_ok:
                    rest = [repr(x) for x in got_vals]
                    for x in exp_vals:
                        rest.remove(repr(x))
                    miss = "only-nulls-extra" if rest and all(r == repr("<null>") for r in rest) else None
            else:
                # lazy report: verdict only
                if exp_pass != got_pass:
                    only_null_fail = all(vals[i] is None for i in fail)
                    if not got_pass and exp_pass and nulls:
                        miss = "only-nulls-extra"
                    elif got_pass and not exp_pass and only_null_fail:
                        miss = "only-nulls-missing"
            det = {"form": form, "expected": exp_vals, "observed": got_vals, "observed_pass": got_pass}
            if miss == "only-nulls-missing" and not ig:
                ev.add("pl:null-accepted-with-ignore_na-false", det)
            elif miss == "only-nulls-extra" and ig:
                ev.add("pl:null-failed-with-ignore_na-true", det)
            elif got_pass != exp_pass:
                ev.add(f"pl:verdict:{form}", det)
            else:
                ev.add(f"pl:failure-cases:{form}", det)
        if form == "ew":
            if ig and any(log):
                ev.add("pl:fn-saw-null:ew", {"n": sum(log)})
        if nwarn:
            ev.add("pl:warning-without-raise_warning", {"n": nwarn})
        # raise_warning relative to pandera's own plain verdict (stays scored behind the null defects)
        kind2, val2, nwarn2 = validate(make(form, [], ignore_na=ig, raise_warning=True))
        if kind2 != "ok":
            ev.add("pl:raise_warning:raised", {"form": form, "kind": kind2, **_exc_detail(val2)})
        elif got_pass and nwarn2:
            ev.add("pl:raise_warning:warned-on-pass", {"form": form, "n": nwarn2})
        elif not got_pass and nwarn2 != 1:
            ev.add("pl:raise_warning:no-warning-on-fail", {"form": form, "n": nwarn2})
        elif type(val2) is not type(obj):
            ev.add("pl:raise_warning:returned-other-type", {"type": type(val2).__name__})
    return ev


@known.finding("C19/polars-ignore-na-false-null-output-accepted")
def _k_pl_false(family, case, disc):
    return (family == "polars" and case.get("ignore_na") is False and any(c is None for c in case.get("cells", []))
            and disc.kind == "pl:null-accepted-with-ignore_na-false"
            and isinstance(disc.detail, dict) and disc.detail.get("form") in ("ew", "natural", "builtin"))


@known.finding("C19/polars-ignore-na-true-null-input-fails")
def _k_pl_true(family, case, disc):
    return (family == "polars" and case.get("ignore_na") is True and any(c is None for c in case.get("cells", []))
            and disc.kind == "pl:null-failed-with-ignore_na-true"
            and isinstance(disc.detail, dict) and disc.detail.get("form") == "total")


def selftest():
    """Calibrate the pure-Python reference on literal examples (docs/source/checks.md, DESIGN section 6)."""
    gt0 = {"k": "gt", "a": 0}
    fx = [
        (M.ref_fail_positions("float", [1, None, -1], gt0, True), [2]),       # gt(0) with NaN, ignore_na=True: accept NaN
        (M.ref_fail_positions("float", [1, None, -1], gt0, False), [1, 2]),   # ... ignore_na=False: NaN fails
        (M.ref_fail_positions("str", ["a", None, "abc"], {"k": "strlen", "n": 3}, True), [2]),
        (M.ref_fail_positions("str", ["a", None], {"k": "isin", "A": ["a"]}, False), [1]),
        (M.ref_fail_positions("int", [4, 5, 6], {"k": "mod", "m": 2, "r": 0}, True), [1]),
        (M.ref_group([("a",), ("b",), ("a",)], [1, 2, 3], False), {"str:'a'": [1, 3], "str:'b'": [2]}),
        (M.ref_group([("a", 1), ("a", 2)], [1, 2], True), {"(str:'a',int:1)": [1], "(str:'a',int:2)": [2]}),
        (M.tkey(True) != M.tkey(1), True),
        (M.builtin_scalar("in_range", [1, 3, False])(1), False),              # in_range(1,3,include_min=False) on 1
        (M.builtin_scalar("in_range", [1, 3])(3), True),
        (M.builtin_scalar("not_equal_to", [0])(float("nan")), True),          # ne(0) on NaN is true
    ]
    for i, (got, want) in enumerate(fx):
        if got != want:
            raise HarnessError(f"C19 reference model calibration fixture {i}: {got!r} != {want!r}")
    from .. import core

    missing = core.known_ids(PROPERTY) - set(known.registered(PROPERTY))
    if missing:
        raise HarnessError(f"known findings without a predicate in c19.py: {sorted(missing)}")


# ------------------------------------------------- ignore_na=True on nullable extension arrays (pd.NA-holding dtypes)

EXT_DTYPES = ["Int64", "UInt8", "boolean", "Float64", "string", "Int8"]


@st.composite
def strat_ext(draw):
    dtype = draw(st.sampled_from(EXT_DTYPES))
    n = draw(st.integers(0, 6))
    if dtype == "boolean":
        cell = st.one_of(st.booleans(), st.none())
        pred = draw(st.sampled_from([{"k": "eq", "v": True}, {"k": "eq", "v": False}, {"k": "const", "v": True}, {"k": "const", "v": False}]))
    elif dtype == "string":
        cell = st.one_of(st.sampled_from(["", "a", "ab", "abc"]), st.none())
        pred = draw(st.sampled_from([{"k": "isin", "A": ["a", "ab"]}, {"k": "eq", "v": "a"}, {"k": "const", "v": False}]))
    else:
        lo = 0 if dtype == "UInt8" else -4
        cell = st.one_of(st.integers(lo, 4), st.none())
        pred = draw(st.one_of(st.builds(lambda a: {"k": "gt", "a": a}, st.integers(lo, 4)),
                              st.builds(lambda A: {"k": "isin", "A": A}, st.lists(st.integers(lo, 4), max_size=3, unique=True)),
                              st.sampled_from([{"k": "const", "v": False}, {"k": "const", "v": True}])))
    return {"dtype": dtype, "cells": draw(st.lists(cell, min_size=n, max_size=n)), "pred": pred,
            "form": draw(st.sampled_from(["vec", "ew"])), "entry": draw(st.sampled_from(["column", "series"])),
            "index": draw(_index_strategy(n)), "lazy": draw(st.booleans())}


def _ext_pred(p):
    k = p["k"]
    if k == "gt":
        return (lambda x: bool(x > p["a"])), (lambda s: s > p["a"])
    if k == "eq":
        return (lambda x: bool(x == p["v"])), (lambda s: s == p["v"])
    if k == "isin":
        A = list(p["A"])
        return (lambda x: x in A), (lambda s: s.isin(A))
    v = bool(p["v"])
    return (lambda x: v), (lambda s: s == s if v else s != s)


def eval_ext(case):
    """ignore_na=True on a column of a nullable extension dtype: pd.NA elements are never shown to the function and
    never cause failure; the verdict and the failure cases are those of the non-null elements."""
    import pandas as pd
    import pandera as pa

    ev = Eval()
    dtype, cells, pred = case["dtype"], case["cells"], case["pred"]
    scalar, vec = _ext_pred(pred)
    labels = case["index"] if case["index"] is not None else list(range(len(cells)))
    if case["index"] is not None and len(set(map(repr, labels))) != len(labels):
        ev.skipped = "duplicated labels (failure-case reshaping is C02's subject)"
        return ev
    series = pd.Series(pd.array([pd.NA if c is None else c for c in cells], dtype=dtype), name="a")
    if case["index"] is not None:
        series.index = pd.Index(list(labels), dtype=object if not labels else None)
    nulls = [i for i, c in enumerate(cells) if c is None]
    fail = [i for i, c in enumerate(cells) if c is not None and not scalar(c)]
    ev.nontrivial = bool(nulls)
    ev.labels += ["ext:dtype=" + dtype, "ext:form=" + case["form"], "ext:has-null" if nulls else "ext:no-null",
                  "ext:ref=fail" if fail else "ext:ref=pass", "ext:pred=" + pred["k"]]
    shown_null = []

    def fn_vec(s):
        shown_null.append(bool(pd.isna(s).any()))
        return vec(s)

    def fn_ew(x):
        shown_null.append(x is pd.NA or x is None or (isinstance(x, float) and x != x))
        return scalar(x)

    chk = pa.Check(fn_ew, element_wise=True, ignore_na=True) if case["form"] == "ew" else pa.Check(fn_vec, ignore_na=True)
    schema = _mk_schema(case["entry"], chk)
    obj = _mk_obj(case["entry"], series)
    o = fp.outcome(lambda: schema.validate(obj, lazy=case["lazy"]))
    if o["kind"] in ("internal", "usage"):
        ev.add("ext:internal-exception:" + str(o.get("exc_type")), {"where": o.get("where"), "msg": o.get("msg", "")[:200]})
        return ev
    if any(shown_null):
        ev.add("ext:ignore_na-true-null-shown-to-function:" + case["form"], {"dtype": dtype, "cells": cells})
    passed = o["kind"] == "ok"
    if passed != (not fail):
        reasons = o.get("reasons")
        if reasons and set(reasons) - {"DATAFRAME_CHECK"}:
            ev.add("ext:unexpected-error:" + "+".join(reasons), {"dtype": dtype, "msg": str(o.get("exc"))[:300]})
        else:
            ev.add("ext:verdict:" + ("null-or-valid-element-fails" if not fail else "failing-element-accepted"),
                   {"dtype": dtype, "cells": cells, "pred": pred, "expected_fail_positions": fail,
                    "msg": str(o.get("exc"))[:300]})
        return ev
    if not passed:
        try:
            exc = o["exc"]
            fc = exc.failure_cases
            got = sorted((M.norm(r["index"]), M.norm(r["failure_case"])) for _, r in fc.iterrows())
            want = sorted((M.norm(labels[i]), M.norm(cells[i])) for i in fail)
            if got != want:
                ev.add("ext:failure-cases-differ", {"got": got[:6], "want": want[:6], "dtype": dtype})
        except Exception as e:
            ev.add("ext:failure-cases-unreadable", repr(e)[:200])
    return ev


FAMILIES = [
    Family("column", eval_column, strategy=strat_column, n_quick=900, n_thorough=5000, shards_quick=4,
           shards_thorough=16, setup=_setup,
           required_labels=["has-null", "null-fails", "idx=dup", "n=set", "ignore_na=False", "ref=fail", "empty"]),
    Family("frame", eval_frame, strategy=strat_frame, n_quick=600, n_thorough=3000, shards_quick=3,
           shards_thorough=16, setup=_setup,
           required_labels=["frame:partial-null-row", "frame:form=ew", "frame:pred=cell_gt", "frame:pred=all_gt",
                            "frame:behind-known(no null or ignore_na=False)", "frame:ref=fail"]),
    Family("groupby", eval_groupby, strategy=strat_groupby, n_quick=600, n_thorough=3000, shards_quick=3,
           shards_thorough=16, setup=_setup,
           required_labels=["gb:how=call", "gb:how=call_derived", "gb:groups=subset", "gb:has-null", "gb:level=frame",
                            "gb:empty-group(unobserved category)", "gb:behind-known", "gb:cols=g+h"]),
    Family("alias", eval_alias, strategy=strat_alias, n_quick=500, n_thorough=2500, shards_quick=2,
           shards_thorough=8, setup=_setup,
           required_labels=["alias=" + a_ for a_ in sorted(M.ALIASES)] + ["alias:has-null", "alias:on-bound"]),
    Family("nullable_ext", eval_ext, strategy=strat_ext, n_quick=600, n_thorough=3000, shards_quick=2, shards_thorough=8,
           setup=_setup, required_labels=["ext:has-null", "ext:ref=fail", "ext:form=ew", "ext:dtype=Int64", "ext:dtype=boolean"]),
    Family("polars", eval_polars, strategy=strat_polars, n_quick=240, n_thorough=1200, shards_quick=3,
           shards_thorough=16, setup=_setup_polars,
           required_labels=["pl:has-null", "pl:behind-known", "pl:ignore_na=False", "pl:ref=fail", "pl:lf"]),
]
