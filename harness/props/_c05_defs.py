"""Named check functions used by C05 schemas (module level, so a schema rebuilt from its spec has
the same ``module.qualname`` fingerprint), plus one check registered through the extensions API."""
import pandas as pd

import pandera as pa
from pandera import extensions


def len_le_3(obj):
    """scalar-output check: at most 3 rows (works on Series and DataFrame)"""
    return len(obj) <= 3


def len_le_1(obj):
    return len(obj) <= 1


def no_dups(obj):
    """vector-output check: False for every repeated value / row"""
    return ~obj.duplicated()


def elem_not_none(x):
    """element-wise check"""
    return x is not None


def min_rows(obj, *, n):
    """check with a check_kwarg (statistics aliases _check_kwargs for un-registered checks)"""
    return len(obj) >= n


CUSTOM = {
    "len_le_3": lambda opts: pa.Check(len_le_3, **opts),
    "len_le_1": lambda opts: pa.Check(len_le_1, **opts),
    "no_dups": lambda opts: pa.Check(no_dups, **opts),
    "elem_not_none": lambda opts: pa.Check(elem_not_none, element_wise=True, **opts),
}


if not hasattr(pa.Check, "c05_len_ge"):

    @extensions.register_check_method(statistics=["k"])
    def c05_len_ge(pandas_obj, *, k):
        return len(pandas_obj) >= k


def df_rows_le_3(cls, df):
    """dataframe_check body for models"""
    return len(df) <= 3


def parse_identity(x):
    return x
