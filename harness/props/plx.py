"""Polars-backend families for the reference-model properties (C02, C03, C06, C11, C20).

The pandas families of those checks never import pandera.polars; the statements quantify over "any schema and data"
(C03 names polars frames explicitly), so each gets a polars family here.  Cases come from C08's backend-neutral
generator (shared vocabulary: int64/float64/str/bool/datetime, nullable, unique, required, strict, ordered, joint
uniqueness, every built-in check, coerce/default/add_missing_columns) plus the options the property is about
(lazy, container DataFrame / LazyFrame, head/tail, drop_invalid_rows).

container:
  "df"       polars DataFrame (validated at full depth by default)
  "lf_full"  polars LazyFrame validated inside config_context(validation_depth=SCHEMA_AND_DATA) (documented way to
             get data-level validation of a LazyFrame)
  "lf"       polars LazyFrame at the default depth (schema-level only) - only used where no value oracle is needed
"""
from __future__ import annotations

import copy
from collections import Counter

from hypothesis import strategies as st

from .. import fp, gen, known, refmodel, spec as sp
from ..core import Eval
from . import c08

SHARED = {"int64", "float64", "str", "bool", "datetime64[ns]", None}


# ------------------------------------------------------------------------------- strategies


@st.composite
def strat_case(draw, parsers="some", containers=("df", "df", "lf_full"), drop_rate=0, subsample_rate=0, regex_rate=0,
               nan_rate=0, nfc_rate=0):
    case = copy.deepcopy(draw(c08.shared_case()))
    case.pop("lazy_container", None)
    if parsers == "none" and case.get("parser_ops"):
        case = copy.deepcopy(draw(c08.shared_case().filter(lambda c: not c.get("parser_ops"))))
        case.pop("lazy_container", None)
    if parsers == "many" and not case.get("parser_ops") and draw(st.integers(0, 3)) > 0:
        base = {"spec": case["spec"], "table": case["table"]}
        case.update(c08._add_parsers(draw, base))
        if case["spec"].get("strict") is False and draw(st.integers(0, 2)) == 0:
            case["spec"]["strict"] = "filter"
    if parsers == "many" and draw(st.integers(0, 5)) == 0:
        # readings that arrive as text: a float column as strings, missing ones spelled "NaN" (or absent), coerced back
        # and filled with a default
        tcs = {t["name"]: t for t in case["table"]["columns"]}
        cands = [c for c in case["spec"]["columns"] if c.get("dtype") == "float64" and c["name"] in tcs
                 and tcs[c["name"]]["phys"] == "float64" and tcs[c["name"]]["cells"]
                 and c["name"] not in (case["spec"].get("unique") or [])]
        if cands:
            c = draw(st.sampled_from(cands))
            t = tcs[c["name"]]
            nn = [v for v in t["cells"] if v is not None]
            i = draw(st.integers(0, len(t["cells"]) - 1))
            t["cells"] = [("NaN" if (v is None and draw(st.booleans())) or j == i else None if v is None else repr(float(v)))
                          for j, v in enumerate(t["cells"])]
            t["phys"] = "object"
            c["coerce"], c["default"], c["unique"] = True, (draw(st.sampled_from(nn)) if nn else 0.5), False
            case["parser_ops"] = list(case.get("parser_ops") or []) + ["coerce", "default", "nan-text"]
    if regex_rate and draw(st.integers(1, 10)) <= regex_rate:
        # one present column is declared through a regular expression (without built-in checks: polars documents
        # those as unsupported on regex-selected columns); parsing options on it must still work
        names = [t["name"] for t in case["table"]["columns"]]
        cands = [c for c in case["spec"]["columns"] if c["name"] in names and c["name"] not in (case["spec"].get("unique") or [])]
        if cands:
            c = draw(st.sampled_from(cands))
            others = [n for n in names if n != c["name"] and n not in (case["spec"].get("unique") or [])]
            if others and draw(st.booleans()):
                # the pattern selects two columns (possibly of different physical types); the second one loses its own spec
                o = draw(st.sampled_from(others))
                case["spec"]["columns"] = [x for x in case["spec"]["columns"] if x["name"] != o]
                c["name"] = "^(" + c["name"] + "|" + o + ")$"
            else:
                c["name"] = "^" + c["name"] + "$"
            c["regex"], c["checks"] = True, []
            case["regex"] = True
    if nan_rate and draw(st.integers(1, 10)) <= nan_rate:
        # float NaN (not null) cells: outside the reference model's vocabulary, used by the reference-free oracles only
        fl = [t for t in case["table"]["columns"] if t["phys"] == "float64" and t["cells"]]
        if fl:
            t = draw(st.sampled_from(fl))
            rows = sorted(draw(st.sets(st.integers(0, len(t["cells"]) - 1), min_size=1, max_size=2)))
            case["nan_cells"] = [[t["name"], r] for r in rows]
    if nfc_rate and draw(st.integers(1, 10)) <= nfc_rate:
        chks = [ch for c in case["spec"]["columns"] for ch in c.get("checks", [])]
        if chks:
            draw(st.sampled_from(chks))["n_failure_cases"] = draw(st.sampled_from([1, 1, 2]))
            case["nfc"] = True
    case["container"] = draw(st.sampled_from(list(containers)))
    case["lazy"] = draw(st.booleans())
    n = sp.table_nrows(case["table"])
    if drop_rate and draw(st.integers(1, 10)) <= drop_rate:
        case["spec"]["drop_invalid_rows"] = True
        case["lazy"] = True
    if subsample_rate and draw(st.integers(1, 10)) <= subsample_rate:
        opts = {}
        w = draw(st.integers(0, 2))
        if w in (0, 2):
            opts["head"] = draw(st.integers(0, n))
        if w in (1, 2):
            opts["tail"] = draw(st.integers(0, n))
        case["opts"] = opts
    return case


# ---------------------------------------------------------------------------------- helpers


def domain_skip(spec, table, semantics=True, cross_backend=True):
    """reason the (spec, table) pair is outside the sound polars/reference domain, else None
    (semantics=False: only what cannot be built / is not a schema definition - for oracles that judge the error channel,
    not the verdict)"""
    if not table["columns"]:
        return "zero-column table (a polars frame without columns cannot carry a row count)"
    if len({t["name"] for t in table["columns"]}) != len(table["columns"]):
        return "repeated column labels (not a polars frame)"
    if any(c.get("dtype") not in SHARED for c in spec["columns"]):
        return "dtype outside the shared vocabulary"
    for t in table["columns"]:
        if t["phys"] == "object" and any(c is not None and not isinstance(c, str) for c in t["cells"]):
            return "mixed object column (not renderable as polars String)"
    why = spec_type_inconsistency(spec)
    if why:
        return why
    if not semantics:
        return None
    if na_false_undefined(spec, table):
        return "ignore_na=False with a predicate that is true on NaN (pandas) / null on null (polars): undefined"
    if not cross_backend:  # (only what validate returns is judged: what a cast turns a cell into is polars' business)
        return None
    return temporal_cross_kind(spec, table) or coercion_outside_shared_semantics(spec, table)


def temporal_cross_kind(spec, table):
    """a column that is parsed (coerced / default-filled) between a temporal and a non-temporal type: what number a
    timestamp becomes (nanoseconds in pandas, micro- or nanoseconds in polars) and what a numeric default does to a
    datetime column is each backend's own convention, not something a schema states"""
    import re

    tcs = {t["name"]: t for t in table["columns"]}
    for col in spec["columns"]:
        parsed = col.get("coerce") or spec.get("coerce") or col.get("default") is not None
        if not parsed or col.get("dtype") is None:
            continue
        names = [n for n in tcs if re.match(col["name"], str(n))] if col.get("regex") else [col["name"]]
        for n in names:
            t = tcs.get(n)
            if t is not None and (t["phys"] == "datetime64[ns]") != (col["dtype"] == "datetime64[ns]"):
                return "parsing between a temporal and a non-temporal type (backend-specific epoch unit)"
    return None


_PHYS_OF = {"int64": "int64", "float64": "float64", "str": "object", "bool": "bool", "datetime64[ns]": "datetime64[ns]"}


def coercion_outside_shared_semantics(spec, table):
    """coerce=True on a column whose data is of another type is only compared between the backends for conversions both
    define alike: integral floats -> int (no nulls), ints -> float, digit strings -> int, ints -> str.  What a fractional
    float, a null or free text becomes under a cast is each engine's convention (C10 checks each engine on its own)."""
    import re

    tcs = {t["name"]: t for t in table["columns"]}
    for col in spec["columns"]:
        if not (col.get("coerce") or spec.get("coerce")) or col.get("dtype") not in _PHYS_OF:
            continue
        names = [n for n in tcs if re.match(col["name"], str(n))] if col.get("regex") else [col["name"]]
        for n in names:
            t = tcs.get(n)
            if t is None or t["phys"] == _PHYS_OF[col["dtype"]]:
                continue
            cells, dt, ph = t["cells"], col["dtype"], t["phys"]
            nonnull = [c for c in cells if c is not None]
            ok = False
            if dt == "int64" and ph == "float64":
                ok = len(nonnull) == len(cells) and all(float(c).is_integer() for c in nonnull)
            elif dt == "float64" and ph == "int64":
                ok = len(nonnull) == len(cells)
            elif dt == "int64" and ph == "object":
                ok = all(isinstance(c, str) and re.fullmatch(r"-?\d{1,15}", c) for c in nonnull)
            elif dt == "str" and ph == "int64":
                ok = len(nonnull) == len(cells)
            if not ok:
                return "coercion between types whose conversion is the backend's own convention"
    return None


def _fits(v, dtype):
    if dtype in ("int64", "datetime64[ns]"):
        return isinstance(v, int) and not isinstance(v, bool)
    if dtype == "float64":
        return isinstance(v, (int, float)) and not isinstance(v, bool)
    if dtype == "bool":
        return isinstance(v, bool)
    if dtype == "str":
        return isinstance(v, str)
    return True


def spec_type_inconsistency(spec):
    """a default or check argument that is not a value of the column's declared dtype (implicit precondition of every
    schema definition; unrepaired generated specs can violate it when the column is absent from the table)"""
    for col in spec["columns"]:
        dt = col.get("dtype")
        if dt is None:
            continue
        if col.get("default") is not None and not _fits(col["default"], dt):
            return "default is not a value of the column's dtype"
        for ch in col.get("checks", []):
            if ch["kind"].startswith("str_"):
                if dt != "str":
                    return "string check on a non-string column"
                continue
            for v in ch.get("args", {}).values():
                vals = v if isinstance(v, list) else [v]
                if ch["kind"] == "in_range" and isinstance(v, bool):
                    continue  # include_min / include_max
                if any(x is not None and not _fits(x, dt) for x in vals):
                    return "check argument is not a value of the column's dtype"
    return None


def na_false_undefined(spec, table):
    """ignore_na=False hands nulls to the predicate: `!=` / `not in` are True on a pandas NaN but null (hence a failure)
    on a polars null - no document defines the outcome, so such cases are outside the scored domain."""
    tcols = {t["name"]: t for t in table["columns"]}
    for col in spec["columns"]:
        tc = tcols.get(col["name"])
        if not tc or not any(c is None for c in tc["cells"]):
            continue
        for ch in col.get("checks", []):
            if ch.get("ignore_na") is False and ch["kind"] in ("not_equal_to", "notin"):
                return True
    return False


def declared_names(spec, table):
    """table columns that some column spec of the schema selects (literally or through its regular expression)"""
    import re

    out = []
    for t in table["columns"]:
        for c in spec["columns"]:
            if (c.get("regex") and re.match(c["name"], t["name"])) or (not c.get("regex") and c["name"] == t["name"]):
                out.append(t["name"])
                break
    return out


def build(case):
    spec, table = case["spec"], case["table"]
    schema = sp.polars_schema(spec)
    frame = sp.polars_frame(table, lazy=False)
    for name, r in case.get("nan_cells") or []:
        import polars as pl

        col = frame[name].to_list()
        col[r] = float("nan")
        frame = frame.with_columns(pl.Series(name, col, dtype=pl.Float64))
    if case.get("container", "df") != "df":
        frame = frame.lazy()
    return schema, frame


def run_validate(schema, frame, container, **kw):
    """fp.outcome of schema.validate(frame) in the container's validation-depth regime."""
    if container == "lf_full":
        from pandera.config import ValidationDepth, config_context

        def call():
            with config_context(validation_depth=ValidationDepth.SCHEMA_AND_DATA):
                return schema.validate(frame, **kw)
        return fp.outcome(call)
    return fp.outcome(lambda: schema.validate(frame, **kw))


def snap(frame):
    import polars as pl

    df = frame.collect() if isinstance(frame, pl.LazyFrame) else frame
    return {"kind": type(frame).__name__, "schema": [(c, str(t)) for c, t in df.schema.items()],
            "cells": {c: [c08._norm(v) for v in df[c].to_list()] for c in df.columns}}


def table_from_polars(frame):
    """polars frame -> TableSpec in the shared vocabulary (raises sp.NotRepresentable otherwise)"""
    import polars as pl

    df = frame.collect() if isinstance(frame, pl.LazyFrame) else frame
    cols = []
    for name in df.columns:
        t = df.schema[name]
        vals = df[name].to_list()
        if t == pl.Int64:
            phys, cells = "int64", vals
            if any(v is None for v in vals):
                phys = "Int64"
        elif t == pl.Float64:
            import math

            phys, cells = "float64", [None if v is None or (isinstance(v, float) and math.isnan(v)) else v for v in vals]
        elif t == pl.String:
            phys, cells = "object", vals
        elif t == pl.Boolean:
            if any(v is None for v in vals):
                raise sp.NotRepresentable("nullable Boolean")
            phys, cells = "bool", vals
        elif isinstance(t, pl.Datetime) or t == pl.Datetime:
            import datetime as dt

            cells = []
            for v in vals:
                if v is None:
                    cells.append(None)
                else:
                    d = (v - sp.EPOCH) / dt.timedelta(days=1)
                    if d != int(d):
                        raise sp.NotRepresentable("sub-day timestamp")
                    cells.append(int(d))
            phys = "datetime64[ns]"
        else:
            raise sp.NotRepresentable(str(t))
        cols.append({"name": name, "phys": phys, "cells": cells})
    t = {"columns": cols, "index": None}
    if not cols:
        t["nrows"] = df.height
    return t


_REASON_KIND = {
    "WRONG_DATATYPE": "dtype", "SERIES_CONTAINS_NULLS": "not_nullable", "SERIES_CONTAINS_DUPLICATES": "field_uniqueness",
    "COLUMN_NOT_IN_DATAFRAME": "column_in_dataframe", "COLUMN_NOT_IN_SCHEMA": "column_in_schema",
    "COLUMN_NOT_ORDERED": "column_ordered", "DUPLICATES": "multiple_fields_uniqueness", "DATAFRAME_CHECK": "check",
    "DUPLICATE_COLUMN_LABELS": "dataframe_column_labels_unique",
}


def ref_cells(ref, table):
    """reference errors -> (cells {(column, row pos, value key)}, frame {(column|None, kind)})"""
    tcols = {c["name"]: c for c in table["columns"]}
    cells, frame = set(), set()
    for e in ref.errors:
        if e.reason == "<check-on-wrong-dtype>":
            continue
        kind = _REASON_KIND.get(e.reason, e.reason)
        if e.reason == "WRONG_DATATYPE":
            frame.add((None if e.where is None else str(e.where), kind))  # polars dtypes are physical: whole column
        elif e.rows is not None and e.where is not None and e.reason != "DUPLICATES":
            days = tcols.get(e.where, {}).get("phys") == "datetime64[ns]"
            for i, v in zip(e.rows, e.values):
                if v is None:
                    key = "null"
                elif days:
                    import pandas as pd

                    key = "t:" + str(pd.Timestamp(sp.day(v)).value)
                else:
                    key = c08._val_key(v)
                cells.add((str(e.where), int(i), key))
        elif e.reason == "DUPLICATES":
            frame.add((None, kind))
        else:
            frame.add((None if e.where is None else str(e.where), kind))
    return cells, frame


def features(case):
    return c08._features(case["spec"], case["table"], case.get("parser_ops", []))


def base_labels(ev, case):
    ev.labels.append("container=" + case.get("container", "df"))
    ev.labels.append("lazy" if case.get("lazy") else "eager")
    for op in sorted(set(case.get("parser_ops", []))):
        ev.labels.append("op=" + op)
    if case.get("regex"):
        ev.labels.append("regex-column")
    if case.get("nan_cells"):
        ev.labels.append("float-NaN-cells")
    if case.get("nfc"):
        ev.labels.append("n_failure_cases")
    if case["spec"].get("drop_invalid_rows"):
        ev.labels.append("drop_invalid_rows")
    if case.get("opts"):
        ev.labels.append("subsample")


# ------------------------------------------------------------------------------- C06 inputs


def eval_c06(case):
    """any (schema, polars frame, options): documented channel only; schema / config / data unchanged."""
    ev = Eval()
    spec, table = case["spec"], case["table"]
    why = domain_skip(spec, table, semantics=False)
    if why:
        ev.skipped = why
        return ev
    try:
        schema, frame = build(case)
    except Exception as e:
        ev.skipped = "not buildable: " + type(e).__name__
        return ev
    base_labels(ev, case)
    lazy = bool(case.get("lazy"))
    kw = dict(case.get("opts") or {})
    fp0, cfg0, snap0 = fp.fp_json(schema), fp.config_state(), snap(frame)
    o = run_validate(schema, frame, case.get("container", "df"), lazy=lazy, **kw)
    ev.labels.append("outcome=" + o["kind"])
    ev.nontrivial = bool(case.get("parser_ops")) or bool(kw) or bool(spec.get("drop_invalid_rows")) or \
        o["kind"] == "SchemaErrors" or case.get("container") != "df"
    feats = features(case)
    if o["kind"] == "internal":
        ev.add(f"internal-exception:{o['exc_type']}@{o['where']}", {
            "msg": o["msg"][:200], "lazy": lazy, "container": case.get("container"), "features": feats,
            "drop": bool(spec.get("drop_invalid_rows")), "subsample": sorted(kw)})
    elif o["kind"] == "SchemaErrors" and not lazy:
        ev.add("eager-raises-SchemaErrors", {"reasons": o.get("reasons")})
    elif o["kind"] == "SchemaError" and lazy:
        ev.add("lazy-raises-bare-SchemaError:" + "+".join(o.get("reasons", [])), {"features": feats})
    if fp.fp_json(schema) != fp0:
        import json

        ev.add("schema-changed-by-validate:" + o["kind"], {"diff": fp.fp_diff(json.loads(fp0), fp.fingerprint(schema))[:4]})
    if fp.config_state() != cfg0:
        ev.add("config-changed-by-validate:" + o["kind"], {"before": cfg0, "after": fp.config_state()})
        from pandera import config

        config.reset_config_context()
    try:
        if snap(frame) != snap0:
            ev.add("data-changed-by-validate:" + o["kind"], {"before": snap0, "after": snap(frame)})
    except Exception as e:
        ev.add("data-unreadable-after-validate", repr(e)[:200])
    return ev


# ---------------------------------------------------------------------------------- C03


def eval_c03(case):
    """whatever validate returns passes strip(S) (pandera and reference) and re-validation returns it unchanged."""
    ev = Eval()
    spec, table = case["spec"], case["table"]
    why = domain_skip(spec, table, cross_backend=False)
    if why:
        ev.skipped = why
        return ev
    try:
        schema, frame = build(case)
    except Exception as e:
        ev.skipped = "not buildable: " + type(e).__name__
        return ev
    base_labels(ev, case)
    container = case.get("container", "df")
    lazy = bool(case.get("lazy"))
    ops = case.get("parser_ops", [])
    o = run_validate(schema, frame, container, lazy=lazy)
    ev.labels.append("outcome=" + o["kind"])
    if o["kind"] != "ok":
        return ev
    res = o["value"]
    import polars as pl

    if not isinstance(res, (pl.DataFrame, pl.LazyFrame)):
        ev.add("result-not-a-polars-frame", type(res).__name__)
        return ev
    try:
        s_in, s_out = snap(frame), snap(res)
    except Exception as e:
        ev.add("result-unreadable", repr(e)[:200])
        return ev
    changed = (s_in["schema"], s_in["cells"]) != (s_out["schema"], s_out["cells"])
    if changed:
        ev.labels.append("result-differs-from-input")
    ev.nontrivial = len(set(ops)) >= 2 or changed
    feats = features(case)
    drop = ":drop" if spec.get("drop_invalid_rows") else ""
    stripped = sp.strip_parsers(spec)
    res_df = res.collect() if isinstance(res, pl.LazyFrame) else res
    # (1a) pandera, parsing off, full depth on the materialised result
    s2 = sp.polars_schema(stripped)
    o2 = fp.outcome(lambda: s2.validate(res_df, lazy=True))
    if o2["kind"] in ("SchemaError", "SchemaErrors"):
        errs2 = getattr(o2["exc"], "schema_errors", [o2["exc"]])
        cols = sorted({str(getattr(getattr(x, "schema", None), "name", None)) for x in errs2})
        data_checks = sorted({str(getattr(x.check, "name", x.check)) for x in errs2
                              if getattr(x.reason_code, "name", "") == "DATAFRAME_CHECK"})
        ev.add(f"returned-object-violates-schema{drop}:" + "+".join(o2.get("reasons", [])),
               {"ops": ops, "features": feats, "columns": cols, "data_checks": data_checks, "msg": str(o2.get("exc"))[:400]})
    elif o2["kind"] == "internal":
        ev.labels.append("strip-validate-internal")
    # (1b) reference model on the object read back
    try:
        t2 = table_from_polars(res_df)
        ref = refmodel.ref_validate(stripped, t2)
        errs = [e for e in ref.errors if e.reason != "<check-on-wrong-dtype>"]
        if errs:
            ev.add(f"returned-object-violates-reference{drop}:" + "+".join(sorted({e.reason for e in errs})),
                   {"ops": ops, "features": feats, "columns": sorted({str(e.where) for e in errs}),
                    "errors": [(e.key(), e.rows) for e in errs][:5]})
    except (sp.NotRepresentable, refmodel.Undefined):
        ev.labels.append("readback-outside-reference-vocabulary")
    # (2) idempotence
    o3 = run_validate(schema, res, container, lazy=lazy)
    if o3["kind"] in ("SchemaError", "SchemaErrors"):
        ev.add("revalidation-of-result-rejected:" + "+".join(o3.get("reasons", [])),
               {"ops": ops, "features": feats, "msg": str(o3.get("exc"))[:300]})
    elif o3["kind"] == "ok":
        try:
            s3 = snap(o3["value"])
            if (s3["schema"], s3["cells"]) != (s_out["schema"], s_out["cells"]):
                ev.add("revalidation-changes-result", {"ops": ops, "features": feats, "first": s_out, "second": s3})
        except Exception as e:
            ev.add("revalidation-result-not-comparable", repr(e)[:200])
    elif o3["kind"] == "internal":
        ev.add("revalidation-crashes:" + o3["exc_type"], {"ops": ops, "where": o3["where"], "msg": o3["msg"][:200]})
    return ev


# ---------------------------------------------------------------------------------- C02


def eval_c02(case):
    """lazy raises iff eager raises; eager error among the lazy errors; error_counts; report == reference cells."""
    ev = Eval()
    spec, table = case["spec"], case["table"]
    why = domain_skip(spec, table)
    if why:
        ev.skipped = why
        return ev
    no_ref = bool(case.get("nan_cells"))  # float NaN: lazy/eager agreement and the counts only
    try:
        ref = refmodel.ref_validate(spec, table)
    except refmodel.Undefined as e:
        ev.skipped = "undefined:" + str(e).split(" on ")[0][:40]
        return ev
    if any(e.reason == "<check-on-wrong-dtype>" for e in ref.errors):
        ev.skipped = "a check runs on data of the wrong dtype (outcome undefined)"
        return ev
    for col in spec["columns"]:
        tc = next((t for t in table["columns"] if t["name"] == col["name"]), None)
        if tc and col.get("dtype") == "str" and tc["phys"] != "object" and all(c is None for c in tc["cells"]):
            ev.skipped = "pandas-only convention of the reference (element-wise str dtype on an all-null column)"
            return ev
    try:
        schema, frame = build(case)
    except Exception as e:
        ev.skipped = "not buildable: " + type(e).__name__
        return ev
    container = case.get("container", "df")
    ev.labels.append("container=" + container)
    if no_ref:
        ev.labels.append("float-NaN-cells")
    ev.labels.append(f"ref_errors={min(len(ref.errors), 5)}")
    ev.nontrivial = len(ref.reasons) >= 2 or no_ref
    if len(ref.reasons) >= 2:
        ev.labels.append("multi-reason")
    eager = run_validate(schema, frame, container, lazy=False)
    lazy = run_validate(schema, frame, container, lazy=True)
    if no_ref and "internal" in (eager["kind"], lazy["kind"]):
        bad = eager if eager["kind"] == "internal" else lazy
        ev.add(f"internal-exception:{bad['exc_type']}@{bad['where']}", {"msg": bad["msg"][:200], "features": features(case),
                                                                         "nan_cells": case["nan_cells"]})
        return ev
    if "internal" in (eager["kind"], lazy["kind"]) or "usage" in (eager["kind"], lazy["kind"]):
        ev.labels.append("internal-or-usage-outcome")
        return ev
    feats = features(case)
    if (eager["kind"] == "ok") != (lazy["kind"] == "ok"):
        ev.add("lazy-eager-verdict-differ", {"eager": eager["kind"], "lazy": lazy["kind"], "features": feats,
                                             "eager_reasons": eager.get("reasons"), "lazy_reasons": lazy.get("reasons")})
        return ev
    if not no_ref and (eager["kind"] == "ok") != ref.accept:
        ev.add("verdict-differs-from-reference:" + ("accepts" if eager["kind"] == "ok" else "rejects:" + "+".join(lazy.get("reasons", []))),
               {"reference": [e.key() for e in ref.errors][:5], "features": feats, "msg": str(lazy.get("exc"))[:300]})
        return ev
    if eager["kind"] == "ok":
        ev.labels.append("both-accept")
        return ev
    if eager["kind"] != "SchemaError":
        ev.add("eager-raised-not-SchemaError", {"kind": eager["kind"]})
    if lazy["kind"] != "SchemaErrors":
        ev.add("lazy-raised-not-SchemaErrors", {"kind": lazy["kind"]})
        return ev
    ee, le = eager["exc"], lazy["exc"]

    def ident(x):
        return (getattr(x.reason_code, "name", str(x.reason_code)), repr(getattr(x.schema, "name", None)), str(x.check))
    lazy_ids = [ident(x) for x in le.schema_errors]
    if ident(ee) not in lazy_ids:
        ev.add("eager-error-not-among-lazy-errors:" + ident(ee)[0], {"eager": ident(ee), "lazy": lazy_ids[:12]})
    if any(a == "CHECK_ERROR" for a, _, _ in lazy_ids):
        ev.add("builtin-check-crashed-in-report", {"errors": [i for i in lazy_ids if i[0] == "CHECK_ERROR"][:3], "features": feats})
        return ev
    try:
        counts = dict(le.error_counts)
        actual = Counter(getattr(x.reason_code, "name", str(x.reason_code)) for x in le.schema_errors)
        if {k: v for k, v in counts.items() if v} != dict(actual):
            ev.add("error_counts-mismatch", {"error_counts": counts, "by_reason": dict(actual)})
    except Exception as e:
        ev.add("error_counts-unreadable", repr(e)[:200])
    if no_ref:
        return ev
    try:
        got_cells, got_frame = c08.failing_cells_polars(le)
    except Exception as e:
        ev.add("failure_cases-unreadable", repr(e)[:300])
        return ev
    want_cells, want_frame = ref_cells(ref, table)
    ev.labels.append("report-compared")
    if want_cells != got_cells:
        missing, extra = sorted(want_cells - got_cells)[:6], sorted(got_cells - want_cells)[:6]
        side = "missing" if missing and not extra else "extra" if extra and not missing else "both"
        ev.add("report-cells-differ:" + side, {"missing_from_report": missing, "not_in_reference": extra, "features": feats})
    # strict and ordered are evaluated in one pass that stops at its first violation
    pair = {(None, "column_in_schema"), (None, "column_ordered")}
    if pair <= want_frame:
        if not (pair & got_frame):
            ev.add("frame-level-entries-differ", {"reference": sorted(map(str, want_frame)), "reported": sorted(map(str, got_frame)),
                                                  "features": feats})
        want_frame -= pair
        got_frame -= pair
    if want_frame != got_frame:
        ev.add("frame-level-entries-differ", {"reference": sorted(map(str, want_frame)), "reported": sorted(map(str, got_frame)),
                                              "features": feats})
    return ev


# ---------------------------------------------------------------------------------- C11


ROW_REASONS = {"SERIES_CONTAINS_NULLS", "SERIES_CONTAINS_DUPLICATES", "DATAFRAME_CHECK", "DUPLICATES"}


def eval_c11(case):
    """drop_invalid_rows on polars: exactly the rows without a row-level violation survive, in order, values unchanged;
    a violation that is not attributable to rows is still raised."""
    ev = Eval()
    spec, table = case["spec"], case["table"]
    why = domain_skip(spec, table)
    if why:
        ev.skipped = why
        return ev
    if case.get("parser_ops"):
        ev.skipped = "parser options other than drop_invalid_rows (covered by C03)"
        return ev
    if case.get("two_constraints_one_column"):
        ev.labels.append("two-constraints-one-column")
    plain = copy.deepcopy(spec)
    plain["drop_invalid_rows"] = False
    if case.get("nan_cells"):
        table = copy.deepcopy(table)  # (reference: a NaN cell is a null cell)
        for name, r in case["nan_cells"]:
            next(t for t in table["columns"] if t["name"] == name)["cells"][r] = None
        ev.labels.append("float-NaN-cells")
    try:
        ref = refmodel.ref_validate(plain, table)
    except refmodel.Undefined as e:
        ev.skipped = "undefined:" + str(e).split(" on ")[0][:40]
        return ev
    if any(e.reason == "<check-on-wrong-dtype>" for e in ref.errors):
        ev.skipped = "a check runs on data of the wrong dtype (outcome undefined)"
        return ev
    if any(c["kind"] == "unique_values_eq" for col in spec["columns"] for c in col.get("checks", [])):
        ev.skipped = "aggregate check (not row-attributable)"
        return ev
    for col in spec["columns"]:
        tc = next((t for t in table["columns"] if t["name"] == col["name"]), None)
        if tc and col.get("dtype") == "str" and tc["phys"] != "object" and all(c is None for c in tc["cells"]):
            ev.skipped = "pandas-only convention of the reference"
            return ev
    try:
        schema, frame = build(case)
    except Exception as e:
        ev.skipped = "not buildable: " + type(e).__name__
        return ev
    container = case.get("container", "df")
    ev.labels.append("container=" + container)
    n = sp.table_nrows(table)
    nonrow = [e for e in ref.errors if e.rows is None or e.reason == "WRONG_DATATYPE"]  # polars dtypes: whole column
    bad = ref.bad_rows
    ev.labels.append("ref=" + ("non-row-violation" if nonrow else "clean" if not bad else "all-bad" if len(bad) == n else "some-bad"))
    ev.nontrivial = bool(nonrow) or (0 < len(bad) < n)
    feats = features(case)
    o = run_validate(schema, frame, container, lazy=True)
    ev.labels.append("outcome=" + o["kind"])
    if o["kind"] == "internal":
        ev.add(f"internal-exception:{o['exc_type']}@{o['where']}", {"msg": o["msg"][:200], "features": feats})
        return ev
    if nonrow:
        if o["kind"] == "ok":
            ev.add("non-row-violation-not-raised:" + "+".join(sorted({e.reason for e in nonrow})),
                   {"reference": [e.key() for e in nonrow][:4], "features": feats})
        return ev
    if o["kind"] != "ok":
        ev.add("row-level-violations-raised-instead-of-dropped:" + "+".join(o.get("reasons", [])),
               {"features": feats, "msg": str(o.get("exc"))[:300]})
        return ev
    keep = [i for i in range(n) if i not in bad]
    try:
        got = snap(o["value"])
    except Exception as e:
        ev.add("result-unreadable", repr(e)[:200])
        return ev
    want = snap(frame)
    if spec.get("strict") == "filter":
        declared = declared_names(spec, table)
        want = dict(want, schema=[x for x in want["schema"] if x[0] in declared],
                    cells={k: v for k, v in want["cells"].items() if k in declared})
        if not want["cells"]:
            ev.skipped = "strict='filter' removes every column (a polars frame without columns has no rows)"
            return ev
    want_cells = {c: [v[i] for i in keep] for c, v in want["cells"].items()}
    if got["cells"] != want_cells or got["schema"] != want["schema"]:
        got_n = len(next(iter(got["cells"].values()), []))
        side = "invalid-row-survives" if got_n > len(keep) else "valid-row-dropped" if got_n < len(keep) else "rows-differ"
        ev.add(f"drop-result-differs:{side}:" + "+".join(sorted({e.reason for e in ref.errors})),
               {"kept_expected": keep, "expected": want_cells, "got": got["cells"], "features": feats})
    if got["kind"] != want["kind"]:
        ev.add("result-kind-differs", {"in": want["kind"], "out": got["kind"]})
    return ev


# ---------------------------------------------------------------------------------- C20


def eval_c20(case):
    """head/tail on polars: verdict == reference on the selected positions; the whole frame is returned."""
    ev = Eval()
    spec, table, opts = case["spec"], case["table"], dict(case.get("opts") or {})
    why = domain_skip(spec, table)
    if why:
        ev.skipped = why
        return ev
    if case.get("parser_ops"):
        ev.skipped = "parser options (whole-object parsing is covered by C03/C08)"
        return ev
    from . import c20 as _c20

    if spec.get("strict") == "filter" and not declared_names(spec, table):
        ev.skipped = "strict='filter' removes every column (a polars frame without columns has no rows)"
        return ev
    tcols_ = {t["name"]: t for t in table["columns"]}
    if any(ch["kind"] == "unique_values_eq" and any(v is None for v in tcols_.get(col["name"], {"cells": []})["cells"])
           for col in spec["columns"] for ch in col.get("checks", [])):
        ev.skipped = "unique_values_eq on a null-holding column (polars counts null as a value: scored as a known finding in C02/C08)"
        return ev
    n = sp.table_nrows(table)
    P = _c20.positions(n, {"head": opts.get("head"), "tail": opts.get("tail")})
    if opts.get("sample") is not None:
        import polars as pl

        # the sampled positions: the same call on a frame that only carries a row id (same height, same seed)
        sampled = pl.DataFrame({"_pos": list(range(n))}).sample(n=opts["sample"], seed=opts.get("random_state"))["_pos"].to_list()
        P = sorted(set(P or []) | set(sampled))
    try:
        ref_sub = refmodel.ref_validate(spec, table, rows=P, restrict_all=True)
        ref_full = refmodel.ref_validate(spec, table)
    except refmodel.Undefined as e:
        ev.skipped = "undefined:" + str(e).split(" on ")[0][:40]
        return ev
    if any(e.reason == "<check-on-wrong-dtype>" for e in ref_full.errors):
        ev.skipped = "a check runs on data of the wrong dtype (outcome undefined)"
        return ev
    for col in spec["columns"]:
        tc = next((t for t in table["columns"] if t["name"] == col["name"]), None)
        if tc and col.get("dtype") == "str" and tc["phys"] != "object" and all(c is None for c in tc["cells"]):
            ev.skipped = "pandas-only convention of the reference"
            return ev
    try:
        schema, frame = build(case)
    except Exception as e:
        ev.skipped = "not buildable: " + type(e).__name__
        return ev
    container = case.get("container", "df")
    ev.labels.append("container=" + container)
    ev.labels.append("opts=" + ("+".join(k for k in ("head", "tail", "sample") if opts.get(k) is not None) or "none"))
    if case.get("reserved_looking_label"):
        ev.labels.append("reserved-looking-label")
    rows = list(zip(*[c["cells"] for c in table["columns"]]))
    dup_rows_in_P = P is not None and len({repr(rows[i]) for i in P}) != len(P)
    if dup_rows_in_P:
        ev.labels.append("dup-rows-in-selection")
    partial = P is not None and 0 < len(P) < n
    if partial and ref_sub.accept != ref_full.accept:
        ev.labels.append("verdict-depends-on-selection")
    ev.nontrivial = (partial and ref_sub.accept != ref_full.accept) or (dup_rows_in_P and bool(P))
    feats = features(case)
    before = snap(frame)
    # polars dtypes are physical (no element-wise str dtype): a dtype violation is a whole-column, schema-level error
    want_accept = ref_sub.accept and not any(e.reason == "WRONG_DATATYPE" for e in ref_full.errors)
    for lazy in (False, True):
        mode = "lazy" if lazy else "eager"
        o = run_validate(schema, frame, container, lazy=lazy, **opts)
        if o["kind"] in ("internal", "usage"):
            ev.add(f"internal-exception:{o.get('exc_type')}@{o.get('where')}", {"msg": o.get("msg", "")[:200], "opts": opts})
            continue
        accepted = o["kind"] == "ok"
        if accepted != want_accept:
            if want_accept:
                ev.add(f"subsample-rejects-conforming-selection:{mode}", {
                    "opts": opts, "P": P, "pandera": o.get("reasons"), "dup_rows": dup_rows_in_P, "features": feats,
                    "msg": str(o.get("exc"))[:200]})
            else:
                ev.add(f"subsample-accepts-violating-selection:{mode}", {
                    "opts": opts, "P": P, "dup_rows": dup_rows_in_P, "features": feats,
                    "reference_errors": [e.key() for e in ref_sub.errors][:6]})
        elif accepted:
            try:
                got = snap(o["value"])
                want = before
                if spec.get("strict") == "filter":
                    declared = declared_names(spec, table)
                    want = dict(before, schema=[x for x in before["schema"] if x[0] in declared],
                                cells={k: v for k, v in before["cells"].items() if k in declared})
                if (got["schema"], got["cells"], got["kind"]) != (want["schema"], want["cells"], want["kind"]):
                    ev.add(f"subsample-result-not-whole-object:{mode}", {"opts": opts, "want": want, "got": got})
            except Exception as e:
                ev.add(f"subsample-result-not-comparable:{mode}", repr(e)[:200])
    if case.get("head_all_relation"):
        oa = run_validate(schema, frame, container, lazy=True, head=n)
        ob = run_validate(schema, frame, container, lazy=True)
        if oa["kind"] != "internal" and ob["kind"] != "internal" and (oa["kind"], oa.get("reasons")) != (ob["kind"], ob.get("reasons")):
            ev.add("head-all-differs-from-no-option", {"head_all": [oa["kind"], oa.get("reasons")],
                                                     "none": [ob["kind"], ob.get("reasons")], "dup_rows": dup_rows_in_P})
    return ev


RESERVED_LOOKING = ["index", "row_nr", "literal", "count", "len", "check_output"]


def rename_label(case, old, new):
    """rename the (plain, non-regex) column `old` to `new` everywhere the case refers to it"""
    for t in case["table"]["columns"]:
        if t["name"] == old:
            t["name"] = new
    for c in case["spec"]["columns"]:
        if c["name"] == old and not c.get("regex"):
            c["name"] = new
    if case["spec"].get("unique"):
        case["spec"]["unique"] = [new if u == old else u for u in case["spec"]["unique"]]
    for ch in case["spec"].get("checks") or []:
        if ch.get("args", {}).get("column") == old:
            ch["args"]["column"] = new


@st.composite
def strat_c20(draw):
    case = draw(strat_case(parsers="none", containers=("df", "df", "lf_full")))
    n = sp.table_nrows(case["table"])
    if case["table"]["columns"] and not any(c.get("regex") for c in case["spec"]["columns"]) and draw(st.integers(0, 3)) == 0:
        # a data column called what polars (or pandera) would call a helper column: the selection of rows must not
        # depend on the labels of the data
        old = draw(st.sampled_from([t["name"] for t in case["table"]["columns"]]))
        new = draw(st.sampled_from(RESERVED_LOOKING))
        if new not in [t["name"] for t in case["table"]["columns"]] + [c["name"] for c in case["spec"]["columns"]]:
            rename_label(case, old, new)
            case["reserved_looking_label"] = True
    opts = {}
    w = draw(st.integers(0, 2))
    if w in (0, 2):
        opts["head"] = draw(st.integers(0, n + 2))  # may exceed the number of rows
    if w in (1, 2):
        opts["tail"] = draw(st.integers(0, n + 2))
    try:
        bad = sorted(refmodel.ref_validate(case["spec"], case["table"]).bad_rows)
    except refmodel.Undefined:
        bad = []
    if bad and draw(st.integers(0, 9)) < 6:
        b = draw(st.sampled_from(bad))
        opts = {}
        if draw(st.booleans()):
            opts["head"] = draw(st.sampled_from([b, b + 1]))
        else:
            opts["tail"] = draw(st.sampled_from([n - b - 1, n - b]))
    if draw(st.integers(0, 3)) == 0:
        k = draw(st.integers(0, n))
        opts["sample"] = k
        opts["random_state"] = draw(st.integers(0, 50))
    case["opts"] = opts
    if draw(st.integers(0, 3)) == 0:
        case["head_all_relation"] = True
    return case


@st.composite
def strat_c11(draw):
    case = draw(strat_case(parsers="none", containers=("df", "df", "lf_full"), regex_rate=2))
    case["spec"]["drop_invalid_rows"] = True
    case["lazy"] = True
    if draw(st.integers(0, 7)) == 0:
        # one column that fails two row-level constraints on *different* rows (a null under nullable=False, a repeated value
        # under unique=True): every constraint's rows must go, whichever is evaluated first (a fixed share of the cases)
        cands = [(c, t) for c in case["spec"]["columns"] if not c.get("regex")
                 for t in case["table"]["columns"] if t["name"] == c["name"] and len(t["cells"]) >= 3
                 and t["phys"] in ("float64", "object") and c.get("dtype") in ("float64", "str")
                 and all(x is None or isinstance(x, (str if t["phys"] == "object" else float)) for x in t["cells"])]
        if cands:
            c, t = draw(st.sampled_from(cands))
            vals = [x for x in t["cells"] if x is not None] or ([0.5] if t["phys"] == "float64" else ["a"])
            cells = list(t["cells"])
            i, j, k = list(draw(st.permutations(range(len(cells)))))[:3]
            cells[i] = None
            cells[j] = cells[k] = vals[0]
            t["cells"] = cells
            c["nullable"], c["unique"], c["checks"] = False, True, []
            if t["name"] in (case["spec"].get("unique") or []):
                case["spec"]["unique"] = None
            case["two_constraints_one_column"] = True
    if draw(st.integers(0, 4)) == 0:
        # float NaN cells in a non-nullable float column without other constraints (polars documents that its nullable
        # check treats NaN like null): the rows holding them are invalid
        names = {c["name"].strip("^$").strip("()").split("|")[0]: c for c in case["spec"]["columns"]}
        fl = [t for t in case["table"]["columns"] if t["phys"] == "float64" and t["cells"] and t["name"] in names
              and names[t["name"]].get("dtype") == "float64"]
        if fl:
            t = draw(st.sampled_from(fl))
            c = names[t["name"]]
            c["checks"], c["unique"], c["nullable"] = [], False, False
            if t["name"] in (case["spec"].get("unique") or []):
                case["spec"]["unique"] = None
            rows = sorted(draw(st.sets(st.integers(0, len(t["cells"]) - 1), min_size=1, max_size=2)))
            case["nan_cells"] = [[t["name"], r] for r in rows]
    return case


# ------------------------------------------------------------------------------ known findings


def _has_check_output_column(case):
    # (in the data, or declared and then added by add_missing_columns)
    return any(t["name"] == "check_output" for t in case.get("table", {}).get("columns", [])) or \
        any(c.get("name") == "check_output" for c in case.get("spec", {}).get("columns", []))


def _check_output_finding(pid):
    """polars: a data column called 'check_output' collides with the helper column of that fixed name that pandera adds
    for every check (one root cause; it shows as DuplicateError text in reports, leaked DuplicateError, lost failure
    cases, rows that drop_invalid_rows cannot attribute).  State-change discrepancies are never attributed to it."""

    @known.finding(pid + "/polars-data-column-named-check_output")
    def _kf(family, case, disc):
        return family.startswith("polars") and _has_check_output_column(case) and "changed" not in disc.kind

    return _kf


for _pid in ("C02", "C03", "C06", "C11", "C20"):
    _check_output_finding(_pid)

NON_ROW_REASONS = {"COLUMN_NOT_IN_DATAFRAME", "COLUMN_NOT_IN_SCHEMA", "COLUMN_NOT_ORDERED", "WRONG_DATATYPE",
                   "ADD_MISSING_COLUMN_NO_DEFAULT", "DATATYPE_COERCION"}


def _drop(case):
    return bool(case["spec"].get("drop_invalid_rows"))


def _scalar_checks(case):
    """columns carrying a check whose output is a scalar (not attributable to rows)"""
    return {col["name"] for col in case["spec"]["columns"] for c in col.get("checks", []) if c["kind"] == "unique_values_eq"}


@known.finding("C11/polars-drop_invalid_rows-swallows-non-row-errors")
def _kf_c11_nonrow(family, case, disc):
    return family == "polars" and _drop(case) and disc.kind.startswith("non-row-violation-not-raised:")


@known.finding("C03/polars-drop_invalid_rows-swallows-non-row-errors")
def _kf_c03_nonrow(family, case, disc):
    d = disc.detail if isinstance(disc.detail, dict) else {}
    if family == "polars" and _drop(case) and disc.kind == "revalidation-changes-result":
        # a swallowed coercion error: the frame comes back uncoerced (rows filtered), the second pass coerces what is left
        coerces = case["spec"].get("coerce") or any(c.get("coerce") for c in case["spec"]["columns"])
        a, b = d.get("first") or {}, d.get("second") or {}
        return bool(coerces) and a.get("schema") != b.get("schema") and [x[0] for x in a.get("schema", [])] == [x[0] for x in b.get("schema", [])]
    if not (family == "polars" and _drop(case) and ":drop:" in disc.kind and disc.kind.startswith("returned-object-violates")):
        return False
    reasons = set(disc.kind.split(":")[-1].split("+"))
    if "WRONG_DATATYPE" in reasons:
        reasons.discard("CHECK_ERROR")  # a check that crashed on the wrong-dtype column that was let through
    rest = reasons - NON_ROW_REASONS
    if not rest:
        return True
    # a failing scalar-output check (unique_values_eq) has no rows to drop either
    if rest != {"DATAFRAME_CHECK"} or not _scalar_checks(case):
        return False
    if "errors" in d:  # reference variant: [[reason, where, check], rows]
        dc = [e for e in d["errors"] if e[0][0] == "DATAFRAME_CHECK"]
        return bool(dc) and all("unique_values_eq" in str(e[0][2]) and e[1] is None for e in dc)
    dc = d.get("data_checks", [])
    return bool(dc) and all(c.startswith("unique_values_eq") for c in dc)


@known.finding("C06/polars-drop_invalid_rows-scalar-or-subsampled-check-output")
def _kf_c06_shape(family, case, disc):
    return (family == "polars_inputs" and _drop(case) and disc.kind.startswith("internal-exception:ShapeError@")
            and disc.kind.split("@")[1] in ("backends/polars/base.py:drop_invalid_rows", "api/polars/container.py:validate")
            and (bool(case.get("opts")) or bool(_scalar_checks(case))))


@known.finding("C06/polars-default-of-another-type-than-the-data-column-leaks-polars-error")
def _kf_c06_default_supertype(family, case, disc):
    """set_default builds col.fill_null(lit(default, dtype=schema dtype)) for every (regex-)matched column; on a data
    column of an unrelated type (bool column, datetime default) polars cannot even plan the expression"""
    if family != "polars_inputs" or not disc.kind.startswith("internal-exception:"):
        return False
    d = disc.detail if isinstance(disc.detail, dict) else {}
    if "supertype" not in str(d.get("msg")) or "default" not in (d.get("features") or []):
        return False
    return any(c.get("default") is not None for c in case["spec"]["columns"])


@known.finding("C02/polars-unique_values_eq-counts-null-as-a-value")
def _kf_c02_uve(family, case, disc):
    d = disc.detail if isinstance(disc.detail, dict) else {}
    f = d.get("features", [])
    if family != "polars_report" or "unique_values_eq" not in f or "has-nulls" not in f:
        return False
    if disc.kind.startswith("verdict-differs-from-reference:rejects:DATAFRAME_CHECK"):
        return "unique_values_eq" in str(d.get("msg"))
    if disc.kind == "frame-level-entries-differ":
        extra = set(d.get("reported", [])) - set(d.get("reference", []))
        cols = _scalar_checks(case)
        return not (set(d.get("reference", [])) - set(d.get("reported", []))) and \
            all(any(e == str((c, "check")) for c in cols) for e in extra)
    return False
