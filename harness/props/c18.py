"""C18 - configuration is scoped, honoured, and validation depth only removes checks.

Families
  nest2      exhaustive: all config_context option tuples (108) at nesting depth 1 and 2,
             exception raised at every level                          (oracle: model stack)
  nest_deep  Hypothesis: nestings of depth 3..4, exception anywhere, generator/ExitStack entry
  env_parse  exhaustive: 108 settings of the four documented env variables through
             pandera.config._config_from_env_vars() with a patched os.environ
  env_e2e    subprocess: import pandera under the env setting, validate a non-conforming frame
  disabled   validate(x) is x for any x under validation_enabled=False (context), all entry points
  depth      (S, D) from the C01 generator: SAD <=> SO and DO; SO/DO == reference model restricted
             to schema-/data-level constraints; default depths of polars LazyFrame/DataFrame
"""
from __future__ import annotations

import contextlib
import dataclasses
import itertools
import json
import os
import subprocess
import sys

from hypothesis import strategies as st

from .. import known
from ..core import Eval, Family, HarnessError

PROPERTY = "C18"
LEVEL = "exploration"
RULE = (
    "nest2/env_parse enumerate their finite spaces completely (exhaustive); nest_deep/depth/disabled are "
    "Hypothesis-generated. Non-trivial: nesting depth>=2 with two levels setting the same option to different "
    "values, or an exception unwinding >=1 level; env: >=2 variables set; depth: the case is rejected by "
    "exactly one of the two scopes. Distinct = hash of the canonical JSON case."
)
ASSUMPTIONS = [
    "config state is observed through pandera.config._CONTEXT_CONFIG / CONFIG (dataclasses.asdict)",
    "env semantics taken from docs/source/configuration.md and the PanderaConfig docstring: 'True'/'False' strings, depth names",
]

ENABLED = [None, True, False]
DEPTHS = [None, "SCHEMA_ONLY", "DATA_ONLY", "SCHEMA_AND_DATA"]
OPTS = [
    {"validation_enabled": e, "validation_depth": d, "cache_dataframe": c, "keep_cached_dataframe": k}
    for e in ENABLED for d in DEPTHS for c in ENABLED for k in ENABLED
]
assert len(OPTS) == 108


class _Boom(Exception):
    pass


class _BaseBoom(BaseException):
    """leaves a block the way KeyboardInterrupt / SystemExit / GeneratorExit do: not an Exception"""


_BOOMS = {"exception": _Boom, "base": _BaseBoom, "keyboard": KeyboardInterrupt}


def _cfg():
    from pandera import config

    return config


def state():
    c = _cfg()
    def dump(x):
        d = dataclasses.asdict(x)
        vd = d["validation_depth"]
        d["validation_depth"] = None if vd is None else vd.name
        return d
    return {"context": dump(c._CONTEXT_CONFIG), "global": dump(c.CONFIG)}


def _kwargs(opts):
    c = _cfg()
    kw = dict(opts)
    if kw.get("validation_depth") is not None:
        kw["validation_depth"] = c.ValidationDepth[kw["validation_depth"]]
    return kw


def _expected_inside(outer_ctx, opts):
    exp = dict(outer_ctx)
    for k, v in opts.items():
        if v is not None:
            exp[k] = v
    return exp


# ------------------------------------------------------------------ nestings


def eval_nest(case):
    """case = {"levels": [opts...], "raise_at": None | level index (exception raised inside that level),
    "entry": "with" | "exitstack" | "generator"}"""
    c = _cfg()
    c.reset_config_context()
    ev = Eval()
    levels = case["levels"]
    raise_at = case.get("raise_at")
    entry = case.get("entry", "with")
    boom = _BOOMS[case.get("boom", "exception")]
    ev.labels.append(f"depth={len(levels)}")
    ev.labels.append("exc" if raise_at is not None else "noexc")
    if raise_at is not None:
        ev.labels.append("boom=" + case.get("boom", "exception"))
    ev.labels.append("entry=" + entry)
    overlap = False
    for i in range(len(levels)):
        for j in range(i + 1, len(levels)):
            for k in levels[i]:
                if levels[i][k] is not None and levels[j][k] is not None and levels[i][k] != levels[j][k]:
                    overlap = True
    ev.nontrivial = (len(levels) >= 2 and overlap) or (raise_at is not None and len(levels) >= 1 and any(
        v is not None for l in levels for v in l.values()))
    if overlap:
        ev.labels.append("overlap")

    before_all = state()
    befores = []
    # what get_config_context / get_config_global hand out are the caller's own objects: a configuration fetched before
    # the contexts are entered keeps its values, and editing a fetched configuration does not reconfigure the library
    held = [c.get_config_context(validation_depth_default=None), c.get_config_context()]
    held_before = [dataclasses.asdict(h) for h in held]

    def check_inside(i, outer):
        exp = _expected_inside(outer["context"], levels[i])
        now = state()
        if now["context"] != exp:
            ev.add("inside-context-wrong", {"level": i, "expected": exp, "observed": now["context"]})
        got = dataclasses.asdict(c.get_config_context(validation_depth_default=None))
        got["validation_depth"] = None if got["validation_depth"] is None else got["validation_depth"].name
        if got != exp:
            ev.add("get_config_context-wrong", {"level": i, "expected": exp, "observed": got})
        if now["global"] != before_all["global"]:
            ev.add("global-config-changed-inside", {"level": i, "observed": now["global"]})

    def recurse(i):
        if i == len(levels):
            return
        outer = state()
        befores.append(outer)
        try:
            if entry == "exitstack":
                with contextlib.ExitStack() as stack:
                    stack.enter_context(c.config_context(**_kwargs(levels[i])))
                    check_inside(i, outer)
                    recurse(i + 1)
                    if raise_at == i:
                        raise boom()
            elif entry == "generator":
                cm = c.config_context(**_kwargs(levels[i]))
                cm.__enter__()
                try:
                    check_inside(i, outer)
                    recurse(i + 1)
                    if raise_at == i:
                        raise boom()
                except BaseException:
                    if not cm.__exit__(*sys.exc_info()):
                        raise
                else:
                    cm.__exit__(None, None, None)
            else:
                with c.config_context(**_kwargs(levels[i])):
                    check_inside(i, outer)
                    recurse(i + 1)
                    if raise_at == i:
                        raise boom()
        finally:
            after = state()
            if after != outer:
                ev.add("not-restored-on-exit" + ("-exc" if raise_at is not None and raise_at >= i else ""),
                       {"level": i, "expected": outer, "observed": after})

    try:
        recurse(0)
    except (_Boom, _BaseBoom, KeyboardInterrupt):
        if raise_at is None:
            ev.add("spurious-exception")
    except Exception as e:  # config_context must not raise anything of its own
        ev.add("config_context-raised", {"type": type(e).__name__, "msg": str(e)[:200]})
    else:
        if raise_at is not None:
            ev.add("exception-swallowed", {"raise_at": raise_at})
    if state() != before_all:
        ev.add("final-state-differs", {"expected": before_all, "observed": state()})
    held_after = [dataclasses.asdict(h) for h in held]
    if held_after != held_before:
        ev.add("fetched-config-object-changed-by-later-contexts", {"before": [str(x) for x in held_before], "after": [str(x) for x in held_after]})
    scratch = c.get_config_context(validation_depth_default=None)
    s0 = state()
    scratch.validation_enabled = not scratch.validation_enabled
    scratch.validation_depth = c.ValidationDepth.DATA_ONLY
    if state() != s0:
        ev.add("editing-a-fetched-config-reconfigures-the-library", {"before": s0, "after": state()})
    c.reset_config_context()
    return ev


def enum_nest2(tier):
    for o in OPTS:
        for r in (None, 0):
            yield {"levels": [o], "raise_at": r, "entry": "with"}
        for b in ("base", "keyboard"):  # (a block can also be left by something that is not an Exception)
            yield {"levels": [o], "raise_at": 0, "entry": "with", "boom": b}
    for o1 in OPTS:
        for o2 in OPTS:
            for r in (None, 1, 0):
                yield {"levels": [o1, o2], "raise_at": r, "entry": "with"}


def strat_nest_deep():
    opt = st.sampled_from(OPTS)
    return st.builds(
        lambda levels, r, entry, boom: {"levels": levels, "raise_at": None if r is None else r % len(levels), "entry": entry,
                                        "boom": boom},
        st.lists(opt, min_size=1, max_size=4),
        st.one_of(st.none(), st.integers(0, 3)),
        st.sampled_from(["with", "exitstack", "generator"]),
        st.sampled_from(["exception", "exception", "base", "keyboard"]),
    )


# ----------------------------------------------------------------------- env

ENV_BOOL = [None, "True", "False"]
ENV_DEPTH = [None, "SCHEMA_ONLY", "DATA_ONLY", "SCHEMA_AND_DATA"]
ENV_VARS = ["PANDERA_VALIDATION_ENABLED", "PANDERA_VALIDATION_DEPTH", "PANDERA_CACHE_DATAFRAME",
            "PANDERA_KEEP_CACHED_DATAFRAME"]


def enum_env(tier):
    for e, d, cch, k in itertools.product(ENV_BOOL, ENV_DEPTH, ENV_BOOL, ENV_BOOL):
        yield {"env": {"PANDERA_VALIDATION_ENABLED": e, "PANDERA_VALIDATION_DEPTH": d,
                       "PANDERA_CACHE_DATAFRAME": cch, "PANDERA_KEEP_CACHED_DATAFRAME": k}}


def expected_config(env):
    def b(v, default):
        return default if v is None else (v == "True")
    return {
        "validation_enabled": b(env["PANDERA_VALIDATION_ENABLED"], True),
        "validation_depth": env["PANDERA_VALIDATION_DEPTH"],
        "cache_dataframe": b(env["PANDERA_CACHE_DATAFRAME"], False),
        "keep_cached_dataframe": b(env["PANDERA_KEEP_CACHED_DATAFRAME"], False),
    }


def eval_env_parse(case):
    c = _cfg()
    ev = Eval()
    env = case["env"]
    nset = sum(v is not None for v in env.values())
    ev.nontrivial = nset >= 2
    ev.labels.append(f"vars_set={nset}")
    saved = {k: os.environ.get(k) for k in ENV_VARS}
    try:
        for k, v in env.items():
            if v is None:
                os.environ.pop(k, None)
            else:
                os.environ[k] = v
        try:
            got = dataclasses.asdict(c._config_from_env_vars())
        except Exception as e:
            ev.add("env-parse-raised", {"type": type(e).__name__, "msg": str(e)[:200]})
            return ev
        got["validation_depth"] = None if got["validation_depth"] is None else got["validation_depth"].name
        exp = expected_config(env)
        for k in exp:
            if got.get(k) != exp[k]:
                ev.add(f"env-not-honoured:{k}", {"env": env, "expected": exp[k], "observed": got.get(k)})
    finally:
        for k, v in saved.items():
            if v is None:
                os.environ.pop(k, None)
            else:
                os.environ[k] = v
    return ev


_E2E = r"""
import json, dataclasses, warnings
warnings.filterwarnings("ignore")
import pandas as pd, pandera as pa
from pandera import config
out = {}
d = dataclasses.asdict(config.CONFIG)
d["validation_depth"] = None if d["validation_depth"] is None else d["validation_depth"].name
out["config"] = d
d = dataclasses.asdict(config.get_config_context(validation_depth_default=None))
d["validation_depth"] = None if d["validation_depth"] is None else d["validation_depth"].name
out["context"] = d
df = pd.DataFrame({"a": [-1, 2], "zzz": ["x", "y"]})
def run(schema, obj):
    try:
        r = schema.validate(obj)
        return "same-object" if r is obj else "other-object"
    except (pa.errors.SchemaError, pa.errors.SchemaErrors) as e:
        return "raised"
    except Exception as e:
        return "internal:" + type(e).__name__
out["schema_fail"] = run(pa.DataFrameSchema({"a": pa.Column(str)}), df)                 # schema-level violation
out["data_fail"] = run(pa.DataFrameSchema({"a": pa.Column(int, pa.Check.gt(0))}), df)   # data-level violation
out["series_fail"] = run(pa.SeriesSchema(int, pa.Check.gt(0)), df["a"])
import polars as pl, pandera.polars as pap
pdf = pl.DataFrame({"a": [-1, 2]})
out["pl_data_fail_df"] = run(pap.DataFrameSchema({"a": pap.Column(pl.Int64, pa.Check.gt(0))}), pdf)
out["pl_data_fail_lf"] = run(pap.DataFrameSchema({"a": pap.Column(pl.Int64, pa.Check.gt(0))}), pdf.lazy())
out["pl_schema_fail_lf"] = run(pap.DataFrameSchema({"a": pap.Column(pl.Utf8)}), pdf.lazy())
# a config_context entered on top of the environment's settings wins while it is active
out["ctx"] = {}
for depth in ("SCHEMA_ONLY", "DATA_ONLY", "SCHEMA_AND_DATA"):
    with config.config_context(validation_enabled=True, validation_depth=config.ValidationDepth[depth]):
        out["ctx"][depth] = {
            "data_fail": run(pa.DataFrameSchema({"a": pa.Column(int, pa.Check.gt(0))}), df),
            "schema_fail": run(pa.DataFrameSchema({"a": pa.Column(str)}), df),
            "pl_data_fail_df": run(pap.DataFrameSchema({"a": pap.Column(pl.Int64, pa.Check.gt(0))}), pdf),
            "pl_data_fail_lf": run(pap.DataFrameSchema({"a": pap.Column(pl.Int64, pa.Check.gt(0))}), pdf.lazy()),
            "pl_schema_fail_df": run(pap.DataFrameSchema({"a": pap.Column(pl.Utf8)}), pdf),
            "pl_schema_fail_lf": run(pap.DataFrameSchema({"a": pap.Column(pl.Utf8)}), pdf.lazy()),
        }
d = dataclasses.asdict(config.get_config_context(validation_depth_default=None))
d["validation_depth"] = None if d["validation_depth"] is None else d["validation_depth"].name
out["context_after"] = d
print("RESULT " + json.dumps(out))
"""


def eval_env_e2e(case):
    ev = Eval()
    env = case["env"]
    nset = sum(v is not None for v in env.values())
    ev.nontrivial = nset >= 2
    ev.labels.append(f"e2e_vars_set={nset}")
    penv = {k: v for k, v in os.environ.items() if k not in ENV_VARS}
    for k, v in env.items():
        if v is not None:
            penv[k] = v
    p = subprocess.run([sys.executable, "-W", "ignore", "-c", _E2E], env=penv, capture_output=True, text=True,
                       timeout=300)
    line = next((l for l in p.stdout.splitlines() if l.startswith("RESULT ")), None)
    if line is None:
        if p.returncode != 0 and "Error" in p.stderr:
            ev.add("env-e2e-import-failed", {"env": env, "stderr": p.stderr[-600:]})
            return ev
        raise HarnessError(f"env_e2e subprocess produced no result: rc={p.returncode} {p.stderr[-500:]}")
    out = json.loads(line[len("RESULT "):])
    exp = expected_config(env)
    for k in exp:
        if out["config"].get(k) != exp[k]:
            ev.add(f"env-not-honoured:{k}", {"env": env, "expected": exp[k], "observed": out["config"].get(k)})
        if out["context"].get(k) != exp[k]:
            ev.add(f"env-not-in-context:{k}", {"env": env, "expected": exp[k], "observed": out["context"].get(k)})
    depth = exp["validation_depth"] or "SCHEMA_AND_DATA"
    if not exp["validation_enabled"]:
        want = {k: "same-object" for k in out if k not in ("config", "context", "ctx", "context_after")}
    else:
        want = {
            "schema_fail": "raised" if depth != "DATA_ONLY" else "same-or-other",
            "data_fail": "raised" if depth != "SCHEMA_ONLY" else "same-or-other",
            "series_fail": "raised" if depth != "SCHEMA_ONLY" else "same-or-other",
            "pl_data_fail_df": "raised" if depth != "SCHEMA_ONLY" else "same-or-other",
            # LazyFrame default depth (no env) is SCHEMA_ONLY
            "pl_data_fail_lf": "raised" if (exp["validation_depth"] in ("DATA_ONLY", "SCHEMA_AND_DATA")) else "same-or-other",
            "pl_schema_fail_lf": "raised" if depth != "DATA_ONLY" else "same-or-other",
        }
    for k, w in want.items():
        got = out[k]
        ok = (got in ("same-object", "other-object")) if w == "same-or-other" else (got == w)
        if not ok:
            ev.add(f"env-e2e-behaviour:{k}", {"env": env, "expected": w, "observed": got})
    # inside config_context(validation_enabled=True, validation_depth=D) the context's settings apply whatever the
    # environment says
    for d, got_d in out["ctx"].items():
        for k, got in got_d.items():
            data_level = "data_fail" in k
            raised = (d != "SCHEMA_ONLY") if data_level else (d != "DATA_ONLY")
            ok = (got == "raised") if raised else (got in ("same-object", "other-object"))
            if not ok:
                ev.add(f"context-over-env-behaviour:{k}:ctx={d}",
                       {"env": env, "context_depth": d, "expected": "raised" if raised else "accepted", "observed": got})
    if out["context_after"] != out["context"]:
        ev.add("context-over-env-not-restored", {"env": env, "before": out["context"], "after": out["context_after"]})
    return ev


def enum_env_e2e(tier):
    cases = list(enum_env(tier))
    if tier == "thorough":
        yield from cases
        return
    seed = int(os.environ.get("VERIF_SEED", "1") or 1)
    # quick: 12 settings, always including the single-variable ones for validation_enabled
    must = [c for c in cases if sum(v is not None for v in c["env"].values()) == 1
            and c["env"]["PANDERA_VALIDATION_ENABLED"] is not None]
    rest = [c for c in cases if c not in must]
    step = max(1, len(rest) // 10)
    yield from must
    yield from rest[seed % step::step][:10]


# ------------------------------------------------------------------ disabled


def strat_disabled():
    cell = st.one_of(st.integers(-5, 5), st.text("ab", max_size=2), st.none(), st.floats(-2, 2, allow_nan=False))
    return st.fixed_dictionaries({
        "entry": st.sampled_from(["pd.DataFrameSchema", "pd.SeriesSchema", "pd.Model", "pl.DataFrameSchema.df",
                                  "pl.DataFrameSchema.lf", "pl.Model", "pd.check_types", "pd.Column", "pd.Index",
                                  "pl.Column.df", "pl.Column.lf", "pl.Model.lf"]),
        "cells": st.lists(cell, min_size=0, max_size=4),
        "lazy": st.booleans(),
        "nonframe": st.booleans(),
        "how": st.sampled_from(["context", "nested-context"]),
    })


def eval_disabled(case):
    import pandas as pd
    import pandera as pa
    import polars as pl
    import pandera.polars as pap

    c = _cfg()
    c.reset_config_context()
    ev = Eval()
    ev.labels.append("entry=" + case["entry"])
    cells = case["cells"]
    ev.nontrivial = True
    entry = case["entry"]
    if case["nonframe"] and entry.split(".")[1] in ("Column", "Index"):
        ev.skipped = "non-dataframe argument to a schema component (not one of the documented entry points for it)"
        return ev
    if case["nonframe"]:
        obj = cells  # a plain list: with validation disabled validate must still hand it back
        ev.labels.append("nonframe")
    elif entry.startswith("pl."):
        try:
            obj = pl.DataFrame({"a": cells}, strict=False)
        except Exception:
            obj = pl.DataFrame({"a": [str(x) for x in cells]})
        if entry.endswith(".lf"):
            obj = obj.lazy()
    elif entry == "pd.SeriesSchema":
        obj = pd.Series(cells, dtype=object, name="a")
    else:
        obj = pd.DataFrame({"a": pd.Series(cells, dtype=object)})

    from ._c18_defs import PdM, PlM, typed_eager, typed_lazy

    if entry == "pd.DataFrameSchema":
        fn = lambda: pa.DataFrameSchema({"a": pa.Column(int, pa.Check.gt(100)), "b": pa.Column(int)},
                                        strict=True).validate(obj, lazy=case["lazy"])
    elif entry == "pd.SeriesSchema":
        fn = lambda: pa.SeriesSchema(int, pa.Check.gt(100), name="zz").validate(obj, lazy=case["lazy"])
    elif entry == "pd.Model":
        fn = lambda: PdM.validate(obj, lazy=case["lazy"])
    elif entry == "pd.check_types":
        f = typed_lazy if case["lazy"] else typed_eager
        fn = lambda: f(obj)
        if case["nonframe"]:
            ev.skipped = "check_types-nonframe"
            return ev
    elif entry == "pd.Column":
        fn = lambda: pa.Column(int, pa.Check.gt(100), name="a").validate(obj, lazy=case["lazy"])
    elif entry == "pd.Index":
        fn = lambda: pa.Index(str, pa.Check.str_length(9), name="nope").validate(obj, lazy=case["lazy"])
    elif entry.startswith("pl.Column"):
        fn = lambda: pap.Column(pl.Int64, pa.Check.gt(100), name="a").validate(obj, lazy=case["lazy"])
    elif entry.startswith("pl.DataFrameSchema"):
        fn = lambda: pap.DataFrameSchema({"a": pap.Column(pl.Int64, pa.Check.gt(100)), "b": pap.Column(pl.Int64)},
                                         strict=True).validate(obj, lazy=case["lazy"])
    else:
        fn = lambda: PlM.validate(obj, lazy=case["lazy"])

    def attached(o):
        """what the object itself carries (the pandas accessor's schema): 'untouched' includes this"""
        try:
            acc = getattr(o, "pandera", None)
            sch = getattr(acc, "schema", None)
            return None if sch is None else type(sch).__name__
        except Exception:
            return "<unreadable>"

    before = state()
    attached_before = attached(obj)
    try:
        if case["how"] == "context":
            with c.config_context(validation_enabled=False):
                r = fn()
        else:
            with c.config_context(validation_enabled=False):
                with c.config_context(validation_depth=c.ValidationDepth.SCHEMA_AND_DATA):
                    r = fn()
    except Exception as e:
        ev.add("disabled-validate-raised:" + entry.split(".")[0], {"entry": entry, "type": type(e).__name__,
                                                                   "msg": str(e)[:200]})
    else:
        if r is not obj:
            ev.add("disabled-validate-not-identity", {"entry": entry, "returned": type(r).__name__})
        if attached(obj) != attached_before:
            ev.add("disabled-validate-touched-argument", {"entry": entry, "before": attached_before, "after": attached(obj)})
    if state() != before:
        ev.add("state-changed-after-disabled-validate", {"before": before, "after": state()})
    c.reset_config_context()
    return ev


FAMILIES = [
    Family("nest2", eval_nest, enumerate=enum_nest2, shards_quick=4, shards_thorough=8, exhaustive=True,
           required_labels=["depth=2", "exc", "overlap"]),
    Family("nest_deep", eval_nest, strategy=strat_nest_deep, n_quick=3000, n_thorough=20000, shards_quick=2,
           shards_thorough=8, required_labels=["depth=4", "entry=exitstack", "entry=generator"]),
    Family("env_parse", eval_env_parse, enumerate=enum_env, shards_quick=1, shards_thorough=1, exhaustive=True),
    Family("env_e2e", eval_env_e2e, enumerate=enum_env_e2e, shards_quick=6, shards_thorough=16),
    Family("disabled", eval_disabled, strategy=strat_disabled, n_quick=300, n_thorough=1500, shards_quick=2,
           shards_thorough=8),
]

try:  # family (iii) needs the reference model; registered when available
    from . import c18_depth as _depth

    FAMILIES += _depth.FAMILIES
except ImportError:
    pass
