"""C04 - validation never modifies the caller's data unless inplace=True; container kind is preserved.

Oracle: snapshot(D) (values, dtypes, labels and order, index values/names/dtype/type, name, attrs) taken before
the call equals the snapshot taken after it, for inplace=False, whether validation passes, fails eagerly or fails
lazily; kind(result) == kind(D).  Entry points: DataFrameSchema / SeriesSchema (+Index) / standalone Column /
Index / MultiIndex components on pandas; DataFrameSchema and Column on polars DataFrame and LazyFrame.
"""
from __future__ import annotations

import copy

from hypothesis import strategies as st

from .. import fp, gen, known, spec as sp
from ..core import Eval, Family
from . import c01

PROPERTY = "C04"
LEVEL = "exploration"
RULE = (
    "C03's generator (every parsing option, 1-3 at once) x entry point (schema / standalone Column / Index / MultiIndex "
    "component) x lazy x inplace. Non-trivial: a parsing option is on (the working copy is rewritten) or the outcome is a "
    "failure. Distinct = canonical JSON hash."
)
ASSUMPTIONS = [
    "harness/fp.py:snapshot captures every observable part of a pandas / polars object (cell-wise with NaN==NaN)",
]


def _entry_obj(case):
    spec = case["spec"]
    entry = case.get("entry", "schema")
    if entry == "column":
        return sp.pandas_column(spec["columns"][case["entry_col"]], with_name=True)
    if entry == "index":
        return sp.pandas_index_component(spec["index"])
    return sp.pandas_schema(spec)


def evaluate(case):
    ev = Eval()
    spec, table = case["spec"], case["table"]
    ops = case.get("parser_ops", [])
    entry = case.get("entry", "schema")
    schema = _entry_obj(case)
    data = sp.pandas_series(table) if spec.get("kind") == "series" else sp.pandas_frame(table)
    lazy, inplace = bool(case.get("lazy")), bool(case.get("inplace"))
    if getattr(schema, "drop_invalid_rows", False):
        lazy = True
    ev.labels += ["kind=" + spec.get("kind", "dataframe"), "entry=" + entry, "inplace" if inplace else "copy"]
    for op in sorted(set(ops)):
        ev.labels.append("op=" + op)
    before = fp.snapshot(data)
    depth = case.get("depth")
    if depth:
        # whatever part of the validation a depth switches off, the parsing steps still run: on a copy
        from pandera.config import ValidationDepth, config_context

        ev.labels.append("depth=" + depth)

        def call():
            with config_context(validation_depth=ValidationDepth[depth]):
                return schema.validate(data, lazy=lazy, inplace=inplace)
        o = fp.outcome(call)
    else:
        o = fp.outcome(lambda: schema.validate(data, lazy=lazy, inplace=inplace))
    ev.labels.append("outcome=" + o["kind"])
    ev.nontrivial = bool(ops) or o["kind"] != "ok"
    if o["kind"] == "ok":
        if fp.kind_of(o["value"]) != fp.kind_of(data):
            ev.add(f"container-kind-changed:{entry}", {"in": fp.kind_of(data), "out": fp.kind_of(o["value"])})
    if not inplace:
        after = fp.snapshot(data)
        if after != before:
            diff = fp.fp_diff(before, after)
            part = sorted({d["path"].split(".")[1].split("[")[0] for d in diff if "." in d["path"]}) or ["?"]
            ev.add(f"caller-data-modified:{entry}:{o['kind']}:" + "+".join(part), {"ops": ops, "lazy": lazy, "diff": diff[:4]})
    # second call on an object that was validated before (it carries the schema it was validated with): the caller
    # writes the un-parsed values back into the returned frame and validates it again - still no in-place change
    if o["kind"] == "ok" and not inplace and entry == "schema" and spec.get("kind", "dataframe") == "dataframe" and ops:
        import pandas as pd

        res = o["value"]
        try:
            same_shape = isinstance(res, pd.DataFrame) and list(res.columns) == list(data.columns) and len(res) == len(data) \
                and res.columns.is_unique
            if same_shape:
                for c in data.columns:
                    res[c] = data[c].to_numpy()
                snap_res = fp.snapshot(res)
                o2 = fp.outcome(lambda: schema.validate(res, lazy=lazy, inplace=False))
                ev.labels.append("second-call=" + o2["kind"])
                if fp.snapshot(res) != snap_res:
                    diff = fp.fp_diff(snap_res, fp.snapshot(res))
                    ev.add(f"caller-data-modified-on-second-call:{o2['kind']}", {"ops": ops, "lazy": lazy, "diff": diff[:4]})
        except Exception as e:  # noqa: BLE001
            ev.labels.append("second-call-not-expressible:" + type(e).__name__)
    return ev


@st.composite
def _coerced_index_and_failures(draw):
    """Series / dataframe pair whose Index(int64, coerce=True) really has to convert the (digit string) labels, with
    one or two row-level violations elsewhere: the working copy gets a new index before / after the failures."""
    import copy

    case = copy.deepcopy(gen.repair(draw(gen.case_strategy(allow_dup_labels=False, allow_frame_checks=False))))
    spec, table = case["spec"], case["table"]
    n = sp.table_nrows(table)
    labels = draw(st.lists(st.integers(-3, 30), min_size=n, max_size=n, unique=True))
    spec["index"] = {"name": None, "dtype": "int64", "nullable": False, "unique": False, "coerce": True, "checks": []}
    table["index"] = {"name": None, "phys": "object", "cells": [str(v) for v in labels]}
    for _ in range(draw(st.integers(0, 2))):
        case = draw(gen.tighten(case, ops=["nullable", "unique", "check", "check", "joint"]))
    case.update(parser_ops=["index-coerce", "tightened"], touched=[], lazy=draw(st.integers(0, 3)) > 0,
                inplace=draw(st.integers(0, 5)) == 0)
    return case


@st.composite
def strategy(draw):
    case = draw(gen.parser_case()) if draw(st.integers(0, 7)) else draw(_coerced_index_and_failures())
    if draw(st.integers(0, 3)) == 0 and not case["spec"].get("drop_invalid_rows"):
        # ... and violations the options do not repair (the failing paths must leave the caller's data alone as well):
        # one or two constraints tightened on top, validation mostly lazy so that everything after the first failure runs
        keep = {k: case[k] for k in ("parser_ops", "touched", "lazy", "inplace")}
        for _ in range(draw(st.integers(1, 2))):
            case = dict(draw(gen.tighten(case, ops=gen.ROW_OPS)), **keep)
        case["parser_ops"] = list(case["parser_ops"]) + ["tightened"]
        if draw(st.integers(0, 3)) > 0:
            case["lazy"] = True
    spec, table = case["spec"], case["table"]
    entry = "schema"
    if spec.get("kind", "dataframe") == "dataframe":
        r = draw(st.integers(0, 9))
        names = [t["name"] for t in table["columns"]]
        cols = [i for i, c in enumerate(spec["columns"]) if not c.get("regex") and c["name"] in names]
        if r < 2 and cols:
            entry = "column"
            hot = [i for i in cols if spec["columns"][i]["name"] in case.get("touched", [])]
            # prefer a column a parsing option works on: that is where the working copy is written to
            case["entry_col"] = draw(st.sampled_from(hot if hot and draw(st.integers(0, 9)) < 7 else cols))
        elif r < 4 and spec.get("index"):
            entry = "index"
    case["entry"] = entry
    if draw(st.integers(0, 3)) == 0:
        case["depth"] = draw(st.sampled_from(["SCHEMA_ONLY", "SCHEMA_ONLY", "DATA_ONLY", "SCHEMA_AND_DATA"]))
    if draw(st.integers(0, 3)) == 0 and entry == "index" and "multi" not in spec["index"]:
        spec["index"]["coerce"] = True
    return case


# ------------------------------------------------------------------------------- polars


def strat_polars():
    return st.fixed_dictionaries({
        "cells": st.lists(st.one_of(st.integers(-3, 3), st.none()), min_size=0, max_size=5),
        "phys": st.sampled_from(["Int64", "Utf8", "Float64"]),
        "dtype": st.sampled_from(["Int64", "Utf8", "Float64"]),
        "coerce": st.booleans(), "nullable": st.booleans(), "unique": st.booleans(),
        "default": st.one_of(st.none(), st.integers(0, 2)),
        "min_value": st.one_of(st.none(), st.integers(-3, 3)),
        "container": st.sampled_from(["DataFrame", "LazyFrame"]),
        "entry": st.sampled_from(["schema", "schema", "column", "model"]),
        "lazy": st.booleans(), "extra": st.booleans(), "strict": st.sampled_from([False, True, "filter"]),
        "add_missing": st.booleans(), "drop": st.booleans(),
    })


def eval_polars(case):
    import pandera as pa
    import pandera.polars as pap
    import polars as pl
    from pandera import config

    ev = Eval()
    config.reset_config_context()
    cells = case["cells"]
    if case["phys"] == "Utf8":
        cells = [None if c is None else str(c) for c in cells]
    elif case["phys"] == "Float64":
        cells = [None if c is None else float(c) for c in cells]
    cols = {"a": pl.Series("a", cells, dtype=getattr(pl, case["phys"]))}
    if case["extra"]:
        cols["zz"] = pl.Series("zz", list(range(len(cells))), dtype=pl.Int64)
    df = pl.DataFrame(cols)
    obj = df.lazy() if case["container"] == "LazyFrame" else df
    checks = [pa.Check.gt(case["min_value"])] if case["min_value"] is not None and case["dtype"] != "Utf8" else []
    lazy = case["lazy"] or case["drop"]
    colkw = dict(dtype=getattr(pl, case["dtype"]), checks=checks, nullable=case["nullable"], unique=case["unique"],
                 coerce=case["coerce"])
    if case["default"] is not None and case["dtype"] != "Utf8":
        colkw["default"] = case["default"]
    entry = case["entry"]
    if entry == "column":
        schema = pap.Column(name="a", **colkw)
    elif entry == "model":
        from ._c04_defs import make_polars_model

        schema = make_polars_model(case["dtype"], case["min_value"] if case["dtype"] != "Utf8" else None, case["nullable"],
                                   case["unique"], case["coerce"], case["strict"])
    else:
        schema = pap.DataFrameSchema({"a": pap.Column(**colkw), "m": pap.Column(pl.Int64, required=not case["add_missing"],
                                                                               default=0 if case["add_missing"] else None)}
                                     if case["add_missing"] else {"a": pap.Column(**colkw)},
                                     strict=case["strict"], add_missing_columns=case["add_missing"],
                                     drop_invalid_rows=case["drop"])
    ev.labels += [f"polars:{case['container']}", "entry=" + entry]
    before = fp.snapshot(obj)
    o = fp.outcome(lambda: schema.validate(obj, lazy=lazy))
    ev.labels.append("outcome=" + o["kind"])
    ev.nontrivial = case["coerce"] or case["default"] is not None or case["strict"] == "filter" or o["kind"] != "ok"
    if o["kind"] == "ok" and fp.kind_of(o["value"]) != "pl." + case["container"]:
        ev.add(f"polars-container-kind-changed:{entry}", {"in": case["container"], "out": fp.kind_of(o["value"])})
    after = fp.snapshot(obj)
    if after != before:
        ev.add(f"polars-caller-data-modified:{entry}", {"diff": fp.fp_diff(before, after)[:4]})
    config.reset_config_context()
    return ev


# ------------------------------------------------------------------- index_entries family


@st.composite
def strat_index_entries(draw):
    return {"container": draw(st.sampled_from(["series", "frame"])), "multi": draw(st.booleans()),
            "text": [draw(st.booleans()), draw(st.booleans())], "fail": draw(st.sampled_from(["no", "no", "check", "unique"])),
            "lazy": draw(st.booleans()), "coerce_at": draw(st.sampled_from(["component", "levels"])),
            "values": draw(st.lists(st.integers(0, 5), min_size=1, max_size=4))}


def eval_index_entries(case):
    """standalone pa.Index(...).validate(obj) / pa.MultiIndex(...).validate(obj) on a Series or a DataFrame whose index
    arrives as text and is coerced: pass or fail, eager or lazy, the caller's object keeps the index it had."""
    import pandas as pd
    import pandera as pa

    ev = Eval()
    vals = case["values"]
    lv0 = [str(v) for v in vals] if case["text"][0] else list(vals)
    lv1 = [str(v * 10) for v in vals] if case["text"][1] else [v * 10 for v in vals]
    checks = [pa.Check.ge(max(vals) + 1)] if case["fail"] == "check" else []
    unique = case["fail"] == "unique"
    on_levels = case["coerce_at"] == "levels"
    if case["multi"]:
        schema = pa.MultiIndex([pa.Index(int, name="i", checks=checks, unique=unique, coerce=on_levels),
                                pa.Index(int, name="j", coerce=on_levels)], coerce=not on_levels)
        index = pd.MultiIndex.from_arrays([pd.Index(lv0, dtype=object if case["text"][0] else "int64"),
                                           pd.Index(lv1, dtype=object if case["text"][1] else "int64")], names=["i", "j"])
    else:
        schema = pa.Index(int, name="i", checks=checks, unique=unique, coerce=True)
        index = pd.Index(lv0, dtype=object if case["text"][0] else "int64", name="i")
    body = [float(v) for v in vals]
    data = pd.Series(body, index=index, name="x") if case["container"] == "series" else pd.DataFrame({"x": body}, index=index)
    really_fails = case["fail"] == "check" or (unique and len(set(vals)) != len(vals))
    ev.labels += ["container=" + case["container"], "multi" if case["multi"] else "single",
                  "text-level" if any(case["text"][: 2 if case["multi"] else 1]) else "typed",
                  "fails" if really_fails else "passes", "lazy" if case["lazy"] else "eager"]
    ev.nontrivial = any(case["text"][: 2 if case["multi"] else 1])
    before = fp.snapshot(data)
    o = fp.outcome(lambda: schema.validate(data, lazy=case["lazy"]))
    ev.labels.append("outcome=" + o["kind"])
    if o["kind"] in ("internal", "usage"):
        ev.labels.append("internal-exception")
        return ev
    after = fp.snapshot(data)
    if after != before:
        ev.add(f"caller-data-modified:{'multiindex' if case['multi'] else 'index'}-entry:{case['container']}:{o['kind']}",
               {"diff": fp.fp_diff(before, after)[:4], "lazy": case["lazy"]})
    return ev


FAMILIES = [
    Family("pandas", evaluate, strategy=strategy, n_quick=1200, n_thorough=5000, shards_quick=4, shards_thorough=16,
           required_labels=["entry=column", "entry=index", "kind=series", "outcome=SchemaError", "outcome=SchemaErrors",
                            "outcome=ok", "op=coerce", "op=default"]),
    Family("polars", eval_polars, strategy=strat_polars, n_quick=800, n_thorough=4000, shards_quick=2, shards_thorough=8),
    Family("index_entries", eval_index_entries, strategy=strat_index_entries, n_quick=300, n_thorough=1500, shards_quick=2,
           shards_thorough=4, required_labels=["container=series", "container=frame", "multi", "single", "fails", "passes",
                                               "text-level"]),
]
