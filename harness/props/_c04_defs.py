"""Polars model factory for C04 (no postponed annotations)."""
import pandera as pa
import pandera.polars as pap
import polars as pl

_CACHE = {}


def make_polars_model(dtype, min_value, nullable, unique, coerce, strict):
    key = (dtype, min_value, nullable, unique, coerce, strict)
    if key in _CACHE:
        return _CACHE[key]
    py = {"Int64": int, "Utf8": str, "Float64": float}[dtype]
    fkw = dict(nullable=nullable, unique=unique, coerce=coerce)
    if min_value is not None:
        fkw["gt"] = min_value
    ns = {"__annotations__": {"a": py}, "a": pa.Field(**fkw), "Config": type("Config", (), {"strict": strict})}
    M = type("M", (pap.DataFrameModel,), ns)
    _CACHE[key] = M
    return M
