"""C12 - schema serialisation round-trips: YAML, JSON and the generated Python script.

Families
  slots      enumerated: one minimal schema per (component kind x flag combination), per (built-in check x option
             combination x component kind), per dtype tag, per schema-level flag combination: every slot of the
             statistics dict / YAML mapping / script templates is exercised deterministically
  roundtrip  Hypothesis: SchemaSpecs built only from serialisable parts (see RULE), 60 % "clean" (avoid every
             feature with a recorded defect so that all three legs are scored), 40 % "wild"

Legs, per case and per format F in (yaml, json, script), always starting from a *fresh* schema built from the spec:
  text = emit_F(S)                      no exception
  S'   = load_F(text)                   no exception   (script: exec, take `schema`)
  fingerprint(S') == fingerprint(S)     structural, independent of pandera's __eq__   -> F-not-equal:<Class>.<attr>
  S' == S                               pandera's own __eq__                          -> F-eq-false
  emit_F(S') == text                    fixpoint                                     -> F-text-not-fixpoint
  verdict(S', D) == verdict(S, D)       lazy validation of probe frames D             -> F-verdict-differs
"""
from __future__ import annotations

import itertools

from .. import fp, known
from ..core import Eval, Family, HarnessError
from . import _c12_gen as g

PROPERTY = "C12"
LEVEL = "exploration"
RULE = (
    "Cases are SchemaSpecs built only from parts the formats have a slot for: 0-4 columns (string keys incl. YAML/"
    "quote-stressing text, regex keys), Index / 2-3 level MultiIndex (default MultiIndex options), 19 dtype tags or "
    "none, built-in checks (comparisons, in_range, isin/notin, str_*) with ignore_na/raise_warning/n_failure_cases, "
    "nullable/unique/coerce/required/regex, strict, ordered, joint unique, report_duplicates, unique_column_names, "
    "add_missing_columns, names/titles/descriptions. Excluded by construction (no slot in the format): default, "
    "column report_duplicates, metadata, parsers, custom checks, drop_invalid_rows, MultiIndex options, categories of "
    "a categorical dtype, tuple/set check arguments, NaN check arguments, ge(min)+le(max) with min>max (documented "
    "ValueError). 'clean' cases (60 %) avoid every feature with a recorded defect so all three legs are scored; "
    "'wild' cases (40 %) switch on 1-3 of those features (strict='filter', schema title/description/dtype, frame-level "
    "checks, Index.unique, unsafe characters in keys/names/titles, int keys, two checks of one kind, unique_values_eq, "
    "sub-second / tz-aware / list-valued datetime check values, inf). Each case goes through the YAML, JSON and "
    "script legs (emit, load, structural fingerprint equality with a fresh build, pandera ==, text fixpoint) plus "
    "verdict comparison on 3 probe frames derived from the spec. Non-trivial: the schema has >=1 check with a "
    "non-default option or >=2 arguments, or >=1 non-default flag/name/title/description, or an index. Distinct = hash "
    "of the canonical JSON case. The 'slots' family enumerates one minimal schema per slot value combination "
    "(all 32 column flag combinations, 16 index ones, 48 schema ones, every dtype tag on column and index, every "
    "built-in check x option combination on column and index, in_range bounds on column/index/frame, permutations of "
    "checks and columns): a finite list that is run completely (quick tier: reduced option grid)."
)
ASSUMPTIONS = [
    "the reference for every comparison is a fresh schema built from the same spec by the pandera constructors",
    "structural equality = harness fingerprint (object graph dump) AND pandera __eq__; verdict = lazy validate outcome "
    "(reason codes, check, column, number of failure cases)",
    "JSON leg is skipped for non-string column keys (JSON cannot carry them); exec() of the generated script runs in "
    "an empty namespace",
    "attributes without a slot in the documented format are outside the claim (see rule)",
]

LEGS = ("yaml", "json", "script")


def evidence_extra():
    return {
        "excluded_regions": [
            "attributes without a slot in the format (default, column report_duplicates, metadata, parsers, custom "
            "checks, drop_invalid_rows, MultiIndex-level strict/ordered/coerce/unique/name, dtype parameters such as "
            "categories)",
            "tuple/set/NaN check arguments; ge/le pairs with min > max (to_yaml documents a ValueError)",
            "JSON leg for non-string column keys",
            "text -> schema fuzzing of from_yaml/from_json on arbitrary documents (atheris target of the design) is "
            "not built",
        ],
        "legs": list(LEGS),
    }

# ------------------------------------------------------------------------------------------------ io legs


def _io():
    from pandera import io

    return io


def _emit(leg, schema):
    io = _io()
    if leg == "yaml":
        return io.to_yaml(schema)
    if leg == "json":
        return io.to_json(schema)
    return io.to_script(schema)


def _load(leg, text):
    io = _io()
    if leg == "yaml":
        return io.from_yaml(text)
    if leg == "json":
        return io.from_json(text)
    ns = {"__name__": "c12_generated_script"}
    exec(compile(text, "<c12-script>", "exec"), ns)  # noqa: S102 - text is produced by pandera from harness data
    return ns.get("schema")


def _exc_kind(e):
    return type(e).__name__


# ----------------------------------------------------------------------------------------- structural diff


def _short_cls(q):
    return str(q).rsplit(".", 1)[-1]


def sdiff(a, b, cls="?", path="", out=None, ctx=""):
    """Value-free description of where two fingerprints differ: set of '<Class>.<attr path>'.
    Classes reached through a MultiIndex are prefixed 'MI/' (its levels appear as Index and as Column objects)."""
    if out is None:
        out = set()
    if len(out) >= 8:
        return out
    here = f"{cls}.{path}" if path else cls
    if type(a) != type(b):
        out.add(here)
    elif isinstance(a, dict):
        if "__class__" in a or "__class__" in b:
            if a.get("__class__") != b.get("__class__"):
                out.add(here + ":class")
                return out
            short = _short_cls(a["__class__"])
            c2 = ctx + short
            ctx2 = "MI/" if short == "MultiIndex" else ctx
            for k in sorted(set(a) | set(b)):
                if k == "__class__":
                    continue
                if k not in a or k not in b:
                    out.add(f"{c2}.{k}")
                else:
                    sdiff(a[k], b[k], c2, k, out, ctx2)
        elif set(a) == {"dict"} and set(b) == {"dict"}:
            ka = [fp._short(k) for k, _ in a["dict"]]
            kb = [fp._short(k) for k, _ in b["dict"]]
            if ka != kb:
                out.add(here + ".keys")
            else:
                for (k, va), (_, vb) in zip(a["dict"], b["dict"]):
                    sub = f"{path}.{k}" if cls.endswith("Check") and isinstance(k, str) else path
                    sdiff(va, vb, cls, sub, out, ctx)
        elif a != b:
            out.add(here)
    elif isinstance(a, list):
        if len(a) != len(b):
            out.add(here + ".len")
        else:
            for x, y in zip(a, b):
                sdiff(x, y, cls, path, out, ctx)
    elif a != b:
        out.add(here)
    return out


# ------------------------------------------------------------------------------------------------ verdicts


def _verdict(schema, df):
    o = fp.outcome(lambda: schema.validate(df.copy(), lazy=True))
    k = o["kind"]
    if k == "ok":
        return ["ok"]
    if k in ("SchemaErrors", "SchemaError"):
        exc = o["exc"]
        items = []
        for e in getattr(exc, "schema_errors", None) or [exc]:
            items.append([
                getattr(getattr(e, "reason_code", None), "name", str(getattr(e, "reason_code", None))),
                str(getattr(e, "check", None))[:120],
                str(getattr(getattr(e, "schema", None), "name", None))[:60],
            ])
        try:
            nfc = int(len(exc.failure_cases))
        except Exception:
            nfc = -1
        return [k, sorted(items), nfc]
    if k == "usage":
        return ["usage", o["exc_type"]]
    return ["internal", o["exc_type"], o.get("where")]


# ------------------------------------------------------------------------------------------------ features


def _all_components(spec):
    for c in spec["columns"]:
        yield "column", c
    for lv in spec["index"] or []:
        yield "index", lv


def _all_checks(spec):
    for kind, c in _all_components(spec):
        for k in c["checks"]:
            yield kind, c, k
    for k in spec["checks"]:
        yield "frame", None, k


def _vals(check):
    for v in check["args"].values():
        if isinstance(v, list):
            yield from v
        else:
            yield v


def features(spec):
    """Case features that known-finding predicates (and labels) refer to."""
    f = set()
    if spec["strict"] == "filter":
        f.add("strict-filter")
    if spec["title"] is not None:
        f.add("schema-title")
    if spec["description"] is not None:
        f.add("schema-description")
    if spec["dtype"] is not None:
        f.add("schema-dtype")
    if spec["checks"]:
        f.add("frame-checks")
    for lv in spec["index"] or []:
        if lv["unique"]:
            f.add("index-unique")
        if any(g.has_unsafe(lv[a], g.UNSAFE_COMPONENT_CHARS) for a in ("name", "title", "description")):
            f.add("component-string-unsafe")
    if spec["index"] and len(spec["index"]) > 1:
        f.add("multiindex")
    for c in spec["columns"]:
        if not isinstance(c["key"], str):
            f.add("colkey-nonstr")
        elif g.has_unsafe(c["key"], g.UNSAFE_KEY_CHARS):
            f.add("colkey-unsafe")
        if any(g.has_unsafe(c[a], g.UNSAFE_COMPONENT_CHARS) for a in ("title", "description")):
            f.add("component-string-unsafe")
    groups = [c["checks"] for _, c in _all_components(spec)] + [spec["checks"]]
    for checks in groups:
        names = [k["name"] for k in checks]
        if len(names) != len(set(names)):
            f.add("dup-check-names")
    for kind, comp, k in _all_checks(spec):
        if k["name"] == "unique_values_eq":
            f.add("unique_values_eq")
        for v in _vals(k):
            if isinstance(v, dict) and "f" in v:
                f.add("float-inf")
            if isinstance(v, dict) and "ts" in v:
                if "." in v["ts"]:
                    f.add("dt-subsecond")
                if v.get("tz"):
                    f.add("dt-tz-value")
        if any(isinstance(v, list) and v and isinstance(v[0], dict) and ("ts" in v[0] or "td" in v[0])
               for v in k["args"].values()):
            f.add("dt-list-value")
    return f


def nontrivial(spec):
    for _, _, k in _all_checks(spec):
        if len(k["args"]) >= 2 or any(k["opts"].get(o) != d for o, d in g.BUILTIN_OPT_DEFAULTS.items()):
            return True
    if spec["index"]:
        return True
    for c in spec["columns"]:
        if c["nullable"] or c["unique"] or c["coerce"] or not c["required"] or c["regex"] or c["title"] is not None \
                or c["description"] is not None:
            return True
    defaults = {"dtype": None, "coerce": False, "strict": False, "name": None, "ordered": False, "unique": None,
                "report_duplicates": "all", "unique_column_names": False, "add_missing_columns": False,
                "title": None, "description": None}
    return any(spec[k] != v for k, v in defaults.items())


# ------------------------------------------------------------------------------------------------ evaluate


def evaluate(case):
    spec = case["schema"]
    ev = Eval()
    feats = features(spec)
    ev.labels.append("mode=" + case.get("mode", "clean"))
    ev.labels += sorted("feat:" + x for x in feats)
    ev.labels.append(f"ncols={len(spec['columns'])}")
    ev.labels.append("index=" + ("none" if not spec["index"] else "multi" if len(spec["index"]) > 1 else "single"))
    for n in sorted({k["name"] for _, _, k in _all_checks(spec)}):
        ev.labels.append("check:" + n)
    for d in sorted({str(c["dtype"]) for _, c in _all_components(spec)}):
        ev.labels.append("dtype:" + d)
    if any(any(k["opts"].get(o) != dflt for o, dflt in g.BUILTIN_OPT_DEFAULTS.items()) for _, _, k in _all_checks(spec)):
        ev.labels.append("check-options-nondefault")
    ev.nontrivial = nontrivial(spec)

    try:
        ref = g.build_schema(spec)
    except Exception as e:  # the original schema cannot even be constructed: outside the property's domain
        ev.skipped = "unconstructible:" + type(e).__name__
        return ev
    ref_fp = fp.fingerprint(ref)

    frames = []
    for p in case.get("probes") or []:
        try:
            frames.append(g.build_frame(p))
        except Exception:
            ev.labels.append("probe-unbuildable")
    ref_verdicts = [_verdict(ref, df) for df in frames]
    for v in ref_verdicts:
        ev.labels.append("verdict=" + ("accept" if v[0] == "ok" else "reject" if v[0].startswith("Schema") else v[0]))

    legs_scored = 0
    for leg in LEGS:
        if leg == "json" and "colkey-nonstr" in feats:
            ev.labels.append("json-leg-skipped-nonstr-key")
            continue
        fresh = g.build_schema(spec)
        try:
            text = _emit(leg, fresh)
        except Exception as e:
            ev.add(f"{leg}-emit-failed:{_exc_kind(e)}", {"msg": str(e)[:300]})
            continue
        if not isinstance(text, str):
            ev.add(f"{leg}-emit-not-text", {"type": type(text).__name__})
            continue
        try:
            back = _load(leg, text)
        except Exception as e:
            ev.add(f"{leg}-load-failed:{_exc_kind(e)}", {"msg": str(e)[:300], "text": text[:1500]})
            continue
        if type(back).__name__ != "DataFrameSchema":
            ev.add(f"{leg}-load-not-a-schema", {"type": type(back).__name__})
            continue
        legs_scored += 1
        back_fp = fp.fingerprint(back)
        diffs = sorted(sdiff(ref_fp, back_fp))
        if diffs:
            paths = fp.fp_diff(ref_fp, back_fp, limit=4)
            for d in diffs:
                ev.add(f"{leg}-not-equal:{d}", {"diff": paths})
        try:
            eq = back == g.build_schema(spec)
        except Exception as e:
            eq = f"raised {type(e).__name__}"
        if eq is not True and not diffs:
            ev.add(f"{leg}-eq-false", {"eq": repr(eq)[:100]})
        if eq is True and diffs:
            ev.labels.append("pandera-eq-blind")
        # fixpoint of the text
        try:
            text2 = _emit(leg, back)
            if text2 != text:
                ev.add(f"{leg}-text-not-fixpoint", {"noteq": diffs, "first": text[:800], "second": str(text2)[:800]})
        except Exception as e:
            ev.add(f"{leg}-reemit-failed:{_exc_kind(e)}", {"noteq": diffs, "msg": str(e)[:300]})
        # verdicts (back may have been touched by the emitter: reload from the text)
        try:
            back = _load(leg, text)
        except Exception:
            continue
        for i, df in enumerate(frames):
            v = _verdict(back, df)
            if v != ref_verdicts[i]:
                ev.add(f"{leg}-verdict-differs", {"noteq": diffs, "probe": i, "expected": ref_verdicts[i], "observed": v})
                break
    ev.labels.append(f"legs_scored={legs_scored}")
    return ev


# ------------------------------------------------------------------------------------------ known findings
# Each predicate needs the trigger feature in the case AND one of the symptom kinds of that root cause.
# Derived symptoms (verdict differs / text not a fixpoint / re-emit failed) carry the list of structural
# differences of that leg in detail["noteq"]; they are attributed only if every listed difference belongs to the
# finding (so an additional, different difference in the same case is still reported).


def _leg(disc):
    return disc.kind.split("-", 1)[0]


def _what(disc):
    return disc.kind.split("-", 1)[1]


def _noteq_attr(disc):
    w = _what(disc)
    return w[len("not-equal:"):] if w.startswith("not-equal:") else None


def _derived_within(disc, allowed, case=None):
    """verdict-differs / text-not-fixpoint / reemit-failed: attributed to a finding when at least one structural
    difference of that leg belongs to it and every other one belongs to some finding whose trigger is in the case."""
    w = _what(disc)
    if not (w == "verdict-differs" or w == "text-not-fixpoint" or w.startswith("reemit-failed")):
        return False
    ne = (disc.detail or {}).get("noteq") if isinstance(disc.detail, dict) else None
    if not ne or not any(any(_match_attr(x, a) for a in allowed) for x in ne):
        return False
    explained = list(allowed)
    if case is not None:
        f = _feats(case)
        for trig, legs, attrs in _ATTR_TABLE:
            if f & trig and _leg(disc) in legs:
                explained += attrs
    return all(any(_match_attr(x, a) for a in explained) for x in ne)


def _match_attr(x, pattern):
    return x == pattern or (pattern.endswith("*") and x.startswith(pattern[:-1]))


def _symptom(disc, allowed_attrs, case=None):
    a = _noteq_attr(disc)
    if a is not None:
        return any(_match_attr(a, p) for p in allowed_attrs)
    return _derived_within(disc, allowed_attrs, case)


def _script_broken(disc):
    w = _what(disc)
    return _leg(disc) == "script" and (w.startswith("emit-failed:") or w.startswith("load-failed:"))


def _feats(case):
    return features(case["schema"])


_SCHEMA_SLOTS = ["DataFrameSchema.strict", "DataFrameSchema.title", "DataFrameSchema.description",
                 "DataFrameSchema._dtype*"]


@known.finding("C12/to_script-schema-slots-unquoted")
def _k_schema_slots(family, case, disc):
    f = _feats(case)
    if _leg(disc) != "script" or not f & {"strict-filter", "schema-title", "schema-description", "schema-dtype"}:
        return False
    # title "None"/"1"/"True" evaluate to a different object instead of failing
    return _script_broken(disc) or _symptom(disc, _SCHEMA_SLOTS, case)


_COMPONENT_STRINGS = ["DataFrameSchema.columns.keys", "Column.name", "Column.title", "Column.description", "Index.name",
                      "Index.title", "Index.description", "MI/Index.name", "MI/Index.title", "MI/Index.description",
                      "MI/Column.name", "MI/Column.title", "MI/Column.description", "MI/MultiIndex.columns.keys"]


@known.finding("C12/to_script-component-strings-unescaped")
def _k_component_strings(family, case, disc):
    f = _feats(case)
    if _leg(disc) != "script" or not f & {"colkey-unsafe", "colkey-nonstr", "component-string-unsafe"}:
        return False
    return _script_broken(disc) or _symptom(disc, _COMPONENT_STRINGS, case)


@known.finding("C12/to_script-frame-checks-as-dict")
def _k_frame_checks(family, case, disc):
    if _leg(disc) != "script" or "frame-checks" not in _feats(case):
        return False
    return _symptom(disc, ["DataFrameSchema.checks"], case)


@known.finding("C12/to_script-index-unique-lost")
def _k_index_unique(family, case, disc):
    if _leg(disc) != "script" or "index-unique" not in _feats(case):
        return False
    return _symptom(disc, ["Index.unique", "MI/Index.unique", "MI/Column.unique"], case)


@known.finding("C12/duplicate-check-names-collapse")
def _k_dup_checks(family, case, disc):
    if "dup-check-names" not in _feats(case):
        return False
    return _symptom(disc, ["Column.checks.len", "Index.checks.len", "DataFrameSchema.checks.len",
                           "MI/Index.checks.len", "MI/Column.checks.len"], case)


@known.finding("C12/schema-dtype-not-representable")
def _k_schema_dtype(family, case, disc):
    if "schema-dtype" not in _feats(case):
        return False
    return disc.kind in ("yaml-emit-failed:RepresenterError", "json-emit-failed:TypeError")


def _temporal_bounds_without_temporal_dtype(case):
    spec = case.get("schema") or case.get("spec") or case
    for c in spec.get("columns", []):
        if c.get("cclass") in ("dt", "td") and c.get("checks"):
            return True
    for ch in spec.get("checks", []):
        if any(isinstance(v, dict) and ("ts" in v or "td" in v) or
               (isinstance(v, list) and any(isinstance(x, dict) and ("ts" in x or "td" in x) for x in v))
               for v in ch.get("args", {}).values()):
            return True
    return False


@known.finding("C12/temporal-check-values-without-temporal-dtype-not-serialisable")
def _k_temporal_no_dtype(family, case, disc):
    """check statistics are converted to text / integers only when the component's own dtype is datetime / timedelta:
    Timestamp / Timedelta bounds on a column that declares no dtype (or on the dataframe-level checks) reach the YAML /
    JSON writer as pandas objects"""
    if not _temporal_bounds_without_temporal_dtype(case):
        return False
    d = disc.detail if isinstance(disc.detail, dict) else {}
    return disc.kind in ("yaml-emit-failed:RepresenterError", "json-emit-failed:TypeError") and \
        any(w in str(d.get("msg")) for w in ("Timestamp", "Timedelta"))


@known.finding("C12/unique_values_eq-frozenset-statistics")
def _k_uve(family, case, disc):
    if "unique_values_eq" not in _feats(case):
        return False
    if disc.kind in ("yaml-emit-failed:RepresenterError", "json-emit-failed:TypeError"):
        return True
    # the script spells the argument frozenset({...}); only the derived error message differs
    return _leg(disc) == "script" and _symptom(disc, ["Check.error", "MI/Check.error"], case)


_CHECK_VALUE_ATTRS = ["Check.error", "Check.statistics.*", "Check._check_kwargs.*", "MI/Check.error",
                      "MI/Check.statistics.*", "MI/Check._check_kwargs.*"]


@known.finding("C12/datetime-stat-subsecond-truncated")
def _k_dt_subsecond(family, case, disc):
    if _leg(disc) not in ("yaml", "json") or "dt-subsecond" not in _feats(case):
        return False
    if _what(disc) == "load-failed:ValueError":
        # in_range whose bounds become equal once the fractions are cut: "defines an empty interval"
        for _, _, k in _all_checks(case["schema"]):
            if k["name"] == "in_range":
                lo, hi = k["args"]["min_value"], k["args"]["max_value"]
                if isinstance(lo, dict) and isinstance(hi, dict) and "ts" in lo and "ts" in hi \
                        and lo["ts"].split(".")[0] == hi["ts"].split(".")[0]:
                    return True
        return False
    return _symptom(disc, _CHECK_VALUE_ATTRS, case)


@known.finding("C12/datetime-stat-not-representable")
def _k_dt_repr(family, case, disc):
    if not _feats(case) & {"dt-tz-value", "dt-list-value"}:
        return False
    return disc.kind in ("yaml-emit-failed:RepresenterError", "json-emit-failed:TypeError")


@known.finding("C12/to_script-float-inf")
def _k_inf(family, case, disc):
    return "float-inf" in _feats(case) and disc.kind == "script-load-failed:NameError"


_ALL = ("yaml", "json", "script")
# (trigger features, legs, structural differences the finding explains) - used to explain *derived* symptoms when
# several recorded defects meet in one case
_ATTR_TABLE = [
    ({"strict-filter", "schema-title", "schema-description", "schema-dtype"}, ("script",), _SCHEMA_SLOTS),
    ({"colkey-unsafe", "colkey-nonstr", "component-string-unsafe"}, ("script",), _COMPONENT_STRINGS),
    ({"frame-checks"}, ("script",), ["DataFrameSchema.checks"]),
    ({"index-unique"}, ("script",), ["Index.unique", "MI/Index.unique", "MI/Column.unique"]),
    ({"dup-check-names"}, _ALL, ["Column.checks.len", "Index.checks.len", "DataFrameSchema.checks.len",
                                 "MI/Index.checks.len", "MI/Column.checks.len"]),
    ({"unique_values_eq"}, ("script",), ["Check.error", "MI/Check.error"]),
    ({"dt-subsecond"}, ("yaml", "json"), _CHECK_VALUE_ATTRS),
]


# ------------------------------------------------------------------------------------------- slots family


def _col(key="a", dtype="int64", **kw):
    c = {"key": key, "dtype": dtype, "nullable": False, "unique": False, "coerce": False, "required": True,
         "regex": key in g.REGEX_KEYS, "title": None, "description": None, "checks": []}
    c.update(kw)
    return c


def _lvl(name=None, dtype="int64", **kw):
    lv = {"name": name, "dtype": dtype, "nullable": False, "unique": False, "coerce": False, "title": None,
          "description": None, "checks": []}
    lv.update(kw)
    return lv


def _schema(columns=None, index=None, **kw):
    s = {"columns": [_col()] if columns is None else columns, "index": index, "checks": [], "dtype": None,
         "coerce": False, "strict": False, "name": None, "ordered": False, "unique": None, "report_duplicates": "all",
         "unique_column_names": False, "add_missing_columns": False, "title": None, "description": None}
    s.update(kw)
    return s


def det_probes(spec):
    """Deterministic probe frames for an enumerated spec: cells walk through the value pool."""
    probes = []
    for start in (0, 3):
        n = 3
        cols = []
        for c in spec["columns"]:
            for nm in (g.REGEX_KEYS[c["key"]] if c["regex"] else [c["key"]]):
                phys = c["dtype"] or "int64"
                p = g.pool(phys, c["checks"] + spec["checks"])
                cols.append([nm, phys, [p[(start + i) % len(p)] for i in range(n)]])
        index = None
        if spec["index"]:
            index = []
            for lv in spec["index"]:
                phys = lv["dtype"] or "int64"
                p = [x for x in g.pool(phys, lv["checks"]) if x is not None]
                index.append([lv["name"], phys, [p[(start + i * (1 if start else 0)) % len(p)] for i in range(n)]])
        probes.append({"n": n, "cols": cols, "index": index})
    return probes


_SAMPLE_ARGS = {
    "int": {"equal_to": {"value": 2}, "not_equal_to": {"value": 0}, "greater_than": {"min_value": 0},
            "greater_than_or_equal_to": {"min_value": 1}, "less_than": {"max_value": 5},
            "less_than_or_equal_to": {"max_value": 5}, "isin": {"allowed_values": [1, 2, 3]},
            "notin": {"forbidden_values": [0, 6]}},
    "str": {"str_matches": {"pattern": "^a"}, "str_contains": {"pattern": "b"}, "str_startswith": {"string": "a"},
            "str_endswith": {"string": "b"}, "isin": {"allowed_values": ["a", "ab"]},
            "equal_to": {"value": "a"}},
    "dt": {"greater_than": {"min_value": {"ts": "2020-01-01 00:00:00"}},
           "less_than_or_equal_to": {"max_value": {"ts": "2021-06-01 12:30:05"}},
           "in_range": {"min_value": {"ts": "2019-12-31 23:59:59"}, "max_value": {"ts": "2020-01-01 00:00:01"},
                        "include_min": True, "include_max": False}},
    "td": {"greater_than": {"min_value": {"td": 10**9}},
           "in_range": {"min_value": {"td": 0}, "max_value": {"td": 2 * 10**9}, "include_min": False,
                        "include_max": True}},
    "float": {"greater_than": {"min_value": 0.5}, "in_range": {"min_value": -1.5, "max_value": 2.5,
                                                              "include_min": True, "include_max": True}},
}
_DTYPE_OF = {"int": "int64", "str": "str", "dt": "datetime64[ns]", "td": "timedelta64[ns]", "float": "float64"}


def enum_slots(tier):
    def case(spec):
        return {"mode": "slots", "schema": spec, "probes": det_probes(spec)}

    bools = [False, True]
    # column flags: all 32 combinations
    for nullable, unique, coerce, required, regex in itertools.product(bools, repeat=5):
        yield case(_schema([_col("b.*" if regex else "a", nullable=nullable, unique=unique, coerce=coerce,
                                 required=required)]))
    # column / index titles and descriptions (independently)
    for t, d in [("T", None), (None, "D"), ("T", "D"), ("a: b", "#c"), ("", ""), ("日本", "naïve café")]:
        yield case(_schema([_col(title=t, description=d)]))
        yield case(_schema(index=[_lvl("ix", title=t, description=d)]))
    # index flags (unique only reachable through the known finding on the script leg)
    for nullable, unique, coerce in itertools.product(bools, repeat=3):
        for name in (None, "ix"):
            yield case(_schema(index=[_lvl(name, nullable=nullable, unique=unique, coerce=coerce)]))
    # multiindex: per-level flags must stay attached to their own level
    for i in range(3):
        for flag in ("nullable", "coerce"):
            lv = [_lvl("l0"), _lvl("l1", dtype="str"), _lvl("l2", dtype="float64")]
            lv[i][flag] = True
            yield case(_schema(index=lv))
    yield case(_schema(index=[_lvl("l0", checks=[{"name": "greater_than", "args": {"min_value": 0},
                                                   "opts": dict(g.BUILTIN_OPT_DEFAULTS)}]), _lvl("l1", dtype="str")]))
    # schema-level flags
    for coerce, strict, ordered, ucn, amc in itertools.product(bools, [False, True, "filter"], bools, bools, bools):
        yield case(_schema([_col("a"), _col("b", dtype="str")], coerce=coerce, strict=strict, ordered=ordered,
                           unique_column_names=ucn, add_missing_columns=amc))
    for rd in ("exclude_first", "exclude_last"):
        for uq in (None, ["a"], ["a", "b"], "b"):
            yield case(_schema([_col("a"), _col("b", dtype="str")], report_duplicates=rd, unique=uq))
    for uq in (["a"], ["a", "b"], "b", ["b", "a"]):
        yield case(_schema([_col("a"), _col("b", dtype="str")], unique=uq))
    for nm in ("n", "a: b", "x'y\"z", ""):
        yield case(_schema(name=nm))
    for t, d in [("T", None), (None, "D"), ("two words", "D")]:
        yield case(_schema(title=t, description=d))
    for dt in ("int64", "str"):
        yield case(_schema(dtype=dt))
    # dtype tags on columns and on the index
    for tag in [None] + g.ALL_DTYPES:
        yield case(_schema([_col(dtype=tag)]))
        yield case(_schema(index=[_lvl("ix", dtype=tag)]))
    # built-in checks x options x component kind
    if tier == "quick":  # each option alone + all together; the full 2x2x2 grid in the thorough tier
        grid = [(True, False, None), (False, False, None), (True, True, None), (True, False, 2), (False, True, 2)]
    else:
        grid = list(itertools.product([True, False], [False, True], [None, 2]))
    opt_grid = [dict(ignore_na=i, raise_warning=w, n_failure_cases=n) for i, w, n in grid]
    for cls, table in _SAMPLE_ARGS.items():
        for name, args in table.items():
            for opts in opt_grid:
                k = {"name": name, "args": args, "opts": opts}
                yield case(_schema([_col(dtype=_DTYPE_OF[cls], checks=[k])]))
                if opts["n_failure_cases"] is None:
                    yield case(_schema(index=[_lvl("ix", dtype=_DTYPE_OF[cls], checks=[k])]))
    for imin, imax in itertools.product(bools, repeat=2):
        k = {"name": "in_range", "args": {"min_value": 1, "max_value": 5, "include_min": imin, "include_max": imax},
             "opts": dict(g.BUILTIN_OPT_DEFAULTS)}
        yield case(_schema([_col(checks=[k])]))
        yield case(_schema(index=[_lvl("ix", checks=[k])]))
        yield case(_schema(checks=[k]))
    for lo, hi in [(1, None), (None, 3), (1, 3), (0, 0)]:
        k = {"name": "str_length", "args": {"min_value": lo, "max_value": hi}, "opts": dict(g.BUILTIN_OPT_DEFAULTS)}
        yield case(_schema([_col(dtype="str", checks=[k])]))
    # several different checks on one component keep their order and their own options
    ks = [{"name": "greater_than", "args": {"min_value": 0}, "opts": dict(ignore_na=False, raise_warning=False, n_failure_cases=None)},
          {"name": "less_than", "args": {"max_value": 5}, "opts": dict(ignore_na=True, raise_warning=True, n_failure_cases=None)},
          {"name": "isin", "args": {"allowed_values": [1, 2, 7]}, "opts": dict(ignore_na=True, raise_warning=False, n_failure_cases=1)}]
    for perm in itertools.permutations(ks):
        yield case(_schema([_col(checks=list(perm))]))
    # columns keep their order and their own attributes
    for perm in itertools.permutations([_col("a", nullable=True), _col("b", dtype="str", unique=True),
                                        _col("c", dtype="float64", coerce=True)]):
        yield case(_schema(list(perm), ordered=True))


# --------------------------------------------------------------------------------------------- selftest


def selftest():
    """Calibration: the differ must see a one-attribute change and must be silent on two fresh builds."""
    spec = _schema([_col(checks=[{"name": "in_range", "args": {"min_value": 1, "max_value": 5, "include_min": True,
                                                               "include_max": False},
                                  "opts": dict(g.BUILTIN_OPT_DEFAULTS)}])], index=[_lvl("ix")])
    a = fp.fingerprint(g.build_schema(spec))
    b = fp.fingerprint(g.build_schema(spec))
    if sdiff(a, b):
        raise HarnessError(f"two fresh builds of one spec differ: {sdiff(a, b)}")
    spec2 = _schema([_col(checks=[{"name": "in_range", "args": {"min_value": 1, "max_value": 5, "include_min": True,
                                                                "include_max": True},
                                   "opts": dict(g.BUILTIN_OPT_DEFAULTS)}])], index=[_lvl("ix", unique=True)])
    d = sdiff(a, fp.fingerprint(g.build_schema(spec2)))
    if not any(x.startswith("Check.") for x in d) or "Index.unique" not in d:
        raise HarnessError(f"differ is blind: {d}")


FAMILIES = [
    Family("slots", evaluate, enumerate=enum_slots, shards_quick=4, shards_thorough=8, exhaustive=True,
           required_labels=["feat:index-unique", "feat:strict-filter", "check:in_range", "index=multi"]),
    Family("roundtrip", evaluate, strategy=g.case_st, n_quick=170, n_thorough=2500, shards_quick=6, shards_thorough=16,
           required_labels=["mode=clean", "mode=wild", "legs_scored=3", "index=multi", "check-options-nondefault",
                            "feat:dup-check-names", "feat:frame-checks", "feat:index-unique", "feat:strict-filter"]),
]
